"""Simulation kernel: seeds and streams, ordered-set seam, trace + digest,
step budget (liveness as bounded steps), seam installation.

Everything a run decides comes from `run_seed`; nothing here reads a real
clock or draws from a stream while logging.  See DESIGN.md section 2.
"""
import gc
import hashlib
import json
import os
import random
import sys

REPO = os.environ.get('VERIF_REPO', '/repo')


# --------------------------------------------------------------------------
# seeds and streams

def h64(*parts) -> int:
    """Stable 64-bit hash of the parts (independent of PYTHONHASHSEED)."""
    m = hashlib.sha256(repr(parts).encode()).digest()
    return int.from_bytes(m[:8], 'big')


def run_seed_for(verif_seed: int, prop: str, index: int) -> int:
    return h64('run', verif_seed, prop, index)


def stream(run_seed: int, name: str) -> random.Random:
    return random.Random(h64('stream', run_seed, name))


# --------------------------------------------------------------------------
# trace

def _jsonable(x):
    if isinstance(x, (str, int, float, bool)) or x is None:
        return x
    if isinstance(x, (list, tuple)):
        return [_jsonable(i) for i in x]
    if isinstance(x, dict):
        return {str(k): _jsonable(v) for k, v in x.items()}
    return repr(x)


class Trace:
    """Append-only event log; the digest covers every event."""

    def __init__(self):
        self.events = []

    def add(self, *event):
        self.events.append(event)

    def digest(self) -> str:
        return hashlib.sha256(
            json.dumps(_jsonable(self.events), sort_keys=True).encode()
        ).hexdigest()[:16]

    def tail(self, n=25):
        return _jsonable(self.events[-n:])


# --------------------------------------------------------------------------
# violations

class Violation(Exception):
    """Oracle failure.  `props` = properties that own the failed clause."""

    def __init__(self, props, kind, detail=''):
        if isinstance(props, str):
            props = (props,)
        self.props = tuple(props)
        self.kind = kind
        self.detail = detail
        super().__init__(f'{"/".join(self.props)}.{kind}: {detail}')

    def to_json(self):
        return {'props': list(self.props), 'kind': self.kind,
                'detail': str(self.detail)[:600]}


class SimHang(BaseException):
    """Raised out of monitored desper code when the step budget is spent."""


class Boom(Exception):
    """Ordinary exception injected by fault scripts."""


class Crash(BaseException):
    """Non-Exception crash injected by fault scripts / the clock."""


# --------------------------------------------------------------------------
# ordered set seam

class Sched:
    """Run-wide iteration-order policy for every SimSet."""
    policy = 'fifo'
    rng = None          # random.Random for 'reshuffle'
    salt = 0            # for 'prio'
    labels = {}         # id(obj) -> label, for 'prio'
    trace = None        # Trace or None
    iterations = 0

    @classmethod
    def reset(cls, policy='fifo', rng=None, salt=0, trace=None):
        cls.policy = policy
        cls.rng = rng
        cls.salt = salt
        cls.labels = {}
        cls.trace = trace
        cls.iterations = 0


def _elem_label(e):
    """Stable label of a set element for the 'prio' policy."""
    if isinstance(e, tuple) and len(e) == 2 and callable(e[0]):
        try:
            ref = e[0]()
        except TypeError:
            ref = None
        return (Sched.labels.get(id(ref), '?'),
                getattr(e[1], '__name__', '?'))
    try:
        return ('v', repr(e))
    except Exception:
        return ('v', '?')


class SimSet(set):
    """A set whose iteration order is decided by the simulator.

    Bound in place of the builtin name `set` in `desper.events` and
    `desper.logic.world`.  Remembers insertion sequence; copy-construction
    from another SimSet carries the sequence over.  Like the builtin, it
    raises RuntimeError when its size changes during iteration.
    """
    _counter = 0

    def __init__(self, iterable=()):
        super().__init__()
        self._seq = {}              # insertion order (dicts keep it)
        if isinstance(iterable, SimSet):
            self._seq.update(iterable._seq)
            set.update(self, iterable._seq)
        else:
            for e in iterable:
                self.add(e)

    def add(self, e):
        seq = self._seq
        if e not in seq:
            seq[e] = None
            set.add(self, e)

    def discard(self, e):
        self._seq.pop(e, None)
        set.discard(self, e)

    def remove(self, e):
        set.remove(self, e)
        self._seq.pop(e, None)

    def pop(self):
        for e in self._order():
            self.discard(e)
            return e
        raise KeyError('pop from an empty set')

    def clear(self):
        self._seq.clear()
        set.clear(self)

    def update(self, *others):
        for o in others:
            for e in o:
                self.add(e)

    def copy(self):
        return SimSet(self)

    def _order(self):
        items = list(self._seq)
        p = Sched.policy
        if p == 'lifo':
            items.reverse()
        elif p == 'reshuffle' and Sched.rng is not None:
            Sched.rng.shuffle(items)
        elif p == 'prio':
            items.sort(key=lambda e: h64(Sched.salt, _elem_label(e)))
        elif p == 'rot' and items:
            k = Sched.salt % len(items)
            items = items[k:] + items[:k]
        return items

    def __iter__(self):
        items = self._order()
        Sched.iterations += 1
        n0 = len(items)
        for e in items:
            if set.__len__(self) != n0:
                raise RuntimeError('Set changed size during iteration')
            yield e

    def __reduce__(self):
        return (SimSet, (list(self._order()),))


POLICIES = ('fifo', 'lifo', 'reshuffle', 'prio', 'rot')


# --------------------------------------------------------------------------
# seams

_installed = {}
_desper = None


def import_desper():
    """Import desper from $VERIF_REPO (the current working tree)."""
    global _desper
    if _desper is not None:
        return _desper
    if sys.path[0] != REPO:
        sys.path.insert(0, REPO)
    import desper
    here = os.path.realpath(os.path.dirname(desper.__file__))
    want = os.path.realpath(os.path.join(REPO, 'desper'))
    if here != want:
        raise RuntimeError(f'desper imported from {here}, expected {want}')
    _desper = desper
    return desper


def install_seams():
    """Rebind `set` in the two modules that iterate sets."""
    desper = import_desper()
    import desper.events as ev
    import desper.logic.world as wo
    if 'set' not in _installed:
        _installed['set'] = True
        ev.set = SimSet
        wo.set = SimSet
    return desper


def begin_run(policy, sched_rng, salt, trace):
    """Per-run reset of process-global state the properties depend on."""
    desper = install_seams()
    Sched.reset(policy, sched_rng, salt, trace)
    SimSet._counter = 0
    gc.disable()
    for f in _caches():
        f.cache_clear()
    return desper


_cache_list = None


def _caches():
    """Every functools cache defined at module or class level in desper (the
    repository has one, on object_from_string): emptied at the start of each
    run so that a run does not depend on what earlier runs looked up."""
    global _cache_list
    if _cache_list is None:
        found = {}
        for name, mod in list(sys.modules.items()):
            if name != 'desper' and not name.startswith('desper.'):
                continue
            for obj in list(vars(mod).values()):
                cands = [obj]
                if isinstance(obj, type) and obj.__module__.startswith('desper'):
                    cands += list(vars(obj).values())
                for c in cands:
                    c = getattr(c, '__func__', c)
                    if callable(getattr(c, 'cache_clear', None)) and callable(
                            getattr(c, 'cache_info', None)):
                        found[id(c)] = c
        _cache_list = list(found.values())
    return _cache_list


def label(obj, text):
    """Register a simulator label for an object ('prio' policy, logs)."""
    Sched.labels[id(obj)] = text
    return obj


# --------------------------------------------------------------------------
# step budget: count LINE events inside desper code objects

class StepBudget:
    """`with budget(n):` raises SimHang inside desper code after n lines."""
    TOOL = 4
    installed = False
    count = 0
    limit = None
    total = 0

    @classmethod
    def install(cls):
        if cls.installed:
            return
        desper = import_desper()
        mon = sys.monitoring
        try:
            mon.use_tool_id(cls.TOOL, 'desper-verif')
        except ValueError:
            pass
        root = os.path.realpath(os.path.join(REPO, 'desper'))
        seen = set()

        def visit_code(code):
            if id(code) in seen:
                return
            seen.add(id(code))
            if os.path.realpath(code.co_filename).startswith(root):
                mon.set_local_events(cls.TOOL, code, mon.events.LINE)
            for c in code.co_consts:
                if hasattr(c, 'co_code'):
                    visit_code(c)

        def visit_obj(o, depth=0):
            if depth > 3:
                return
            f = getattr(o, '__func__', o)
            if isinstance(o, property):
                for g in (o.fget, o.fset, o.fdel):
                    if g is not None:
                        visit_obj(g, depth + 1)
                return
            code = getattr(f, '__code__', None)
            if code is not None:
                visit_code(code)
            w = getattr(f, '__wrapped__', None)
            if w is not None:
                visit_obj(w, depth + 1)
            if isinstance(o, type):
                for v in list(vars(o).values()):
                    visit_obj(v, depth + 1)

        for name, mod in list(sys.modules.items()):
            if name == 'desper' or name.startswith('desper.'):
                if name == 'desper.math':
                    continue
                for v in list(vars(mod).values()):
                    m = getattr(v, '__module__', None)
                    if isinstance(m, str) and m.startswith('desper'):
                        visit_obj(v)

        def on_line(code, line):
            cls.total += 1
            if cls.limit is not None:
                cls.count += 1
                if cls.count > cls.limit:
                    cls.limit = None
                    raise SimHang(f'step budget exceeded at '
                                  f'{os.path.basename(code.co_filename)}:{line}')

        mon.register_callback(cls.TOOL, mon.events.LINE, on_line)
        cls.on_line = on_line
        cls.installed = True

    @classmethod
    def pause(cls):
        """No line events for a bulk phase that is not budgeted (returns a
        function that switches them on again)."""
        if not cls.installed:
            return lambda: None
        mon = sys.monitoring
        mon.register_callback(cls.TOOL, mon.events.LINE, None)
        return lambda: mon.register_callback(cls.TOOL, mon.events.LINE,
                                             cls.on_line)


class budget:
    """Step budget for the desper lines executed inside the block. Nested
    budgets charge the enclosing one, unless charge=False (the oracle's own
    queries, issued while an operation's budget is running)."""

    def __init__(self, n, charge=True):
        self.n = n
        self.charge = charge

    def __enter__(self):
        StepBudget.install()
        self.saved = (StepBudget.count, StepBudget.limit)
        StepBudget.count = 0
        StepBudget.limit = self.n
        return self

    def __exit__(self, *exc):
        used = StepBudget.count
        StepBudget.count, StepBudget.limit = self.saved
        if StepBudget.limit is not None and self.charge:
            StepBudget.count += used
        return False


def clean_scratch():
    """Remove scratch directories (file-system engines) that were left
    behind by processes that no longer exist (workers are killed when a
    check ends early; pids come round again)."""
    import glob
    import shutil
    base = os.environ.get('VERIF_SCRATCH', '/var/tmp/desper-verif')
    for d in glob.glob(base + '-*'):
        pid = d.rsplit('-', 1)[1]
        if not pid.isdigit():
            continue
        try:
            os.kill(int(pid), 0)
            continue                    # that process is alive
        except ProcessLookupError:
            pass
        except OSError:
            continue
        shutil.rmtree(d, ignore_errors=True)

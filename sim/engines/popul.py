"""Directory-population engine: C16 (DESIGN.md section 3).

Real directory trees in a per-run scratch directory, a real
DirectoryResourcePopulator, and a seeded directory-listing-order seam
(`desper.model.glob` shim, cross-checked against the real glob on every
call).  The recording handle factory observes the map at the instant each
handle is built, which is what makes the conflict clauses checkable.
"""
import collections
import copy
import json
import glob as real_glob
import os
import shutil

from .. import kernel
from ..kernel import Violation, SimHang

Counter = collections.Counter
OP_BUDGET = 80000
SCRATCH = os.environ.get('VERIF_SCRATCH', '/var/tmp/desper-verif')
NAMES = ['a', 'b', 'a.txt', 'a.png', 'b.txt', 'c', 'd.e.txt', 'sub', 'sub.d',
         'empty', 'b.png', 'e.TXT', 'a.json', 'f.tar.gz', 'sub2',
         # legal names that mean something to glob
         'a[1]', 'x*y', 'q?.txt', '[ab]', 'a1',
         # decomposed and precomposed spellings of one name, upper-case
         # extensions
         'e\u0301.txt', '\u00e9.txt', 'a.PNG', 'B.Txt',
         # legal names that look like references to environment variables
         # (VERIF_X is defined while a run lasts) or to a home directory
         'p$VERIF_X', '${VERIF_X}', '~']
MAGIC_DIRS = ('a[1]', 'x*y', '[ab]', 'p$VERIF_X', '${VERIF_X}', '~')
_counter = [0]


class GlobShim:
    """Stands in for the `glob` module inside desper.model."""

    def __init__(self, interp):
        self.it = interp

    def __getattr__(self, name):
        return getattr(real_glob, name)

    def iglob(self, pattern, *, recursive=False, **kw):
        it = self.it
        if not (recursive and pattern.endswith('**')):
            return real_glob.iglob(pattern, recursive=recursive, **kw)
        base = pattern[:-2]
        # the directory part is resolved by glob itself (magic characters
        # that were not escaped mean what they mean to glob): the entries of
        # its result that end with a separator are the matched roots; only
        # the order of the names inside each directory is the simulator's
        real_list = list(real_glob.iglob(pattern, recursive=True))
        roots = it.order(sorted(p for p in real_list if p.endswith(os.sep)))
        out = list(roots)

        def walk(d):
            names = [n for n in os.listdir(d) if not n.startswith('.')]
            for n in it.order(sorted(names)):
                p = os.path.join(d, n)
                out.append(p)
                if os.path.isdir(p) and not os.path.islink(p):
                    walk(p)
        for r in roots:
            if os.path.isdir(r):
                walk(r.rstrip(os.sep))
        real = set(real_list)
        if set(out) != real:
            raise Violation('C16', 'shim_mismatch', f'listing seam disagrees '
                            f'with glob: {sorted(set(out) ^ real)}')
        it.trace.add('listing', [os.path.relpath(p, it.root_dir)
                                 for p in out])
        it.listings.append(out)
        return iter(out)


class Interp:
    def __init__(self, scenario, prop, tolerate):
        self.sc, self.cfg = scenario, scenario['config']
        self.prop = prop
        self.trace = kernel.Trace()
        self.probes, self.faults = Counter(), Counter()
        self.known, self.stats = Counter(), Counter()
        self.desper = d = kernel.begin_run(
            self.cfg.get('policy', 'fifo'),
            kernel.stream(scenario.get('run_seed', 0), 'sched'),
            scenario.get('run_seed', 0) & 0xffff, self.trace)
        import desper.model as dmodel
        self.dmodel = dmodel
        os.environ['VERIF_X'] = 'sub'
        # the delimiter of composite keys is a class attribute of the maps
        # (a program may set another one once and for all)
        self.S = self.cfg.get('split', '/')
        self.MapClass = d.ResourceMap
        if self.S != '/' and self.cfg.get('split_own'):
            # ... or the populated map is of a class with its own one
            self.MapClass = type('OwnSplitMap', (d.ResourceMap,),
                                 {'split_char': self.S})
            self.probes['map_class_with_its_own_split_char'] += 1
        else:
            d.ResourceMap.split_char = self.S
        if self.S != '/':
            self.probes['other_split_char'] += 1
        _counter[0] += 1
        self.root_dir = os.path.join(f'{SCRATCH}-{os.getpid()}',
                                     str(_counter[0]))
        if self.cfg.get('odd_root'):    # glob characters in the root's name
            self.root_dir = os.path.join(self.root_dir, 'ro[o]t x*')
        base_ = os.path.join(f'{SCRATCH}-{os.getpid()}', str(_counter[0]))
        if os.path.exists(base_):
            # (left behind by a dead process that had this pid)
            shutil.rmtree(base_, ignore_errors=True)
        os.makedirs(self.root_dir)
        for rel, kind in self.cfg['tree']:
            p = os.path.join(self.root_dir, rel)
            if kind == 'd':
                os.makedirs(p, exist_ok=True)
            elif kind.startswith('h:'):
                # a second name (hard link) of a regular file of the tree
                os.makedirs(os.path.dirname(p), exist_ok=True)
                src = os.path.join(self.root_dir, kind[2:])
                if os.path.isfile(src) and not os.path.exists(p):
                    os.link(src, p)
                    self.probes['hard_link'] += 1
            elif kind in ('l', 'p'):
                # neither a file nor a directory: a dangling symbolic link,
                # a named pipe
                os.makedirs(os.path.dirname(p), exist_ok=True)
                if kind == 'l':
                    os.symlink('no-such-target', p)
                else:
                    os.mkfifo(p)
                self.probes['entry_neither_file_nor_directory'] += 1
            else:
                os.makedirs(os.path.dirname(p), exist_ok=True)
                open(p, 'w').close()
        self.listings = []
        self.beneath = {}           # (map, name) -> handles nested beneath
        self.keep = []
        self.created = []           # records of factory calls
        self.flags = set()
        it = self

        class RecHandle(d.Handle):
            def __init__(self, path, *args, **kwargs):
                self.path, self.args, self.kwargs = path, args, kwargs
                self.rule = it.cur_rule
                it.on_create(self)

            def load(self):
                return self.path

        class PreHandle(d.Handle):
            def __init__(self, label):
                self.label = label

        falsy = self.cfg.get('falsy_handles')
        if falsy == 'len':              # container-like handles, empty
            RecHandle.__len__ = lambda self: 0
            PreHandle.__len__ = lambda self: 0
        elif falsy == 'bool':
            RecHandle.__bool__ = lambda self: False
            PreHandle.__bool__ = lambda self: False

        self.RecHandle, self.PreHandle = RecHandle, PreHandle
        self.map = self.MapClass()
        self.pre = {}               # key -> object
        for key, kind in self.cfg.get('pre', []):
            key = key.replace('/', self.S)
            o = PreHandle(key) if kind == 'h' else self.MapClass()
            self.map[key] = o
            self.pre[key] = o
        c = self.cfg['ctor']
        kw = {}
        if c.get('nest') is not None:
            kw['nest_on_conflict'] = c['nest']
        if c.get('trim') is not None:
            kw['trim_extensions'] = c['trim']
        ctor_root = self.root_dir
        if self.cfg.get('wrong_ctor_root'):
            ctor_root = os.path.join(self.root_dir, 'no-such-root')
        self.cwd0 = None
        if self.cfg.get('rel_root') and not self.cfg.get('wrong_ctor_root'):
            # a relative root: it means what it means when the populator
            # is applied, wherever the program was when it was built
            self.cwd0 = os.getcwd()
            elsewhere = os.path.join(os.path.dirname(self.root_dir),
                                     'elsewhere')
            os.makedirs(elsewhere, exist_ok=True)
            os.chdir(elsewhere)
            ctor_root = os.path.basename(self.root_dir)
            self.probes['relative_root_and_chdir'] += 1
        self.pop = d.DirectoryResourcePopulator(ctor_root, **kw)
        if self.cwd0 is not None:
            os.chdir(os.path.dirname(self.root_dir))
        self.ctor_nest = True if c.get('nest') is None else c['nest']
        self.ctor_trim = False if c.get('trim') is None else c['trim']
        self.rule_objs = []
        for i, r in enumerate(self.cfg['rules']):
            factory = self.make_factory(i)
            try:
                self.pop.add_rule(self.rpath(r), factory, *r.get('args', []),
                                  file_exts=r.get('exts', []),
                                  **r.get('kwargs', {}))
            except Exception as e:
                e.__traceback__ = None
                self.init_violation = Violation(
                    'C16', 'factory_args', f'add_rule refused the extra '
                    f'arguments {r.get("args")} {r.get("kwargs")} of a rule: '
                    f'{type(e).__name__}: {e}')
                break

    def rpath(self, r):
        """'<ROOT>' stands for the root directory's own name (a rule path
        that leaves the root and comes back: '../<root>/sub')."""
        return r['path'].replace('<ROOT>', os.path.basename(self.root_dir))

    def make_factory(self, i):
        it = self

        def factory(path, *args, **kwargs):
            it.cur_rule = i
            return it.RecHandle(path, *args, **kwargs)
        return factory

    def order(self, names):
        p = kernel.Sched.policy
        if p == 'lifo':
            return list(reversed(names))
        if p in ('reshuffle', 'prio'):
            names = list(names)
            kernel.Sched.rng.shuffle(names)
            return names
        if p == 'rot' and names:
            k = kernel.Sched.salt % len(names)
            return names[k:] + names[:k]
        return names

    def fail(self, kind, detail=''):
        raise Violation('C16', kind, detail)

    # ---- expectation helpers
    def key_of(self, path, trim):
        rel = os.path.relpath(path, self.root_dir)
        rel = os.path.normpath(rel)
        if trim and os.path.isfile(path):
            rel = os.path.splitext(rel)[0]
        return rel.replace(os.sep, self.S)

    def on_create(self, h):
        """Called from inside the factory: observe the map right now."""
        key = self.key_of(h.path, self.cur_trim)
        old = self.map.get(key)
        self.created.append({'h': h, 'key': key, 'old': old,
                             'nest': self.cur_nest, 'call': self.ncall})
        self.trace.add('create', os.path.relpath(h.path, self.root_dir),
                       h.rule, key, type(old).__name__)

    def accepted(self, rule, path):
        exts = rule.get('exts', [])
        return (not exts) or os.path.splitext(path)[1] in exts

    # ---- operations
    init_violation = None

    def exec_op(self, op):
        if self.init_violation is not None:
            raise self.init_violation
        self.stats['ops'] += 1
        self.trace.add('op', op[0], json.dumps(op[1], sort_keys=True))
        if op[0] == 'repeat':
            # the same population again and again (hot reloading)
            for _ in range(op[2]):
                self.exec_op(['populate', op[1]])
            self.probes['populated>64_times'] += op[2] > 64
            return
        if op[0] == 'retree':
            # the tree changes between two populations: a file is replaced
            # by a directory (of the same name, or of its trimmed name) that
            # contains a file
            gone, newdir, child = op[1]
            pg = os.path.join(self.root_dir, gone)
            pd = os.path.join(self.root_dir, newdir)
            if not os.path.isfile(pg) or (os.path.exists(pd) and pd != pg):
                self.stats['skipped'] += 1
                return
            os.remove(pg)
            os.makedirs(pd)
            open(os.path.join(pd, child), 'w').close()
            self.probes['file_became_directory'] += 1
            return
        opts = op[1]
        nest = opts.get('nest')
        trim = opts.get('trim')
        self.cur_nest = self.ctor_nest if nest is None else nest
        self.cur_trim = self.ctor_trim if trim is None else trim
        if nest is not None or trim is not None:
            self.probes['per_call_override'] += 1
        self.ncall = getattr(self, 'ncall', 0) + 1
        before = self.snapshot()
        first = len(self.created)
        self.listings = []
        kw = {}
        if nest is not None:
            kw['nest_on_conflict'] = nest
        if trim is not None:
            kw['trim_extensions'] = trim
        if opts.get('root') or self.cfg.get('wrong_ctor_root'):
            kw['root'] = self.root_dir
        # which rule (if any) must be rejected
        bad = None
        for i, r in enumerate(self.cfg['rules']):
            full = os.path.join(self.root_dir, self.rpath(r))
            if os.path.exists(full) and not os.path.isdir(full):
                bad = i
                break
            if not os.path.exists(full):
                self.probes['rule_missing'] += 1
        shim = GlobShim(self)
        saved = self.dmodel.glob
        self.dmodel.glob = shim
        exc = None
        try:
            with kernel.budget(OP_BUDGET):
                self.pop(self.map, **kw)
        except Violation:
            raise
        except SimHang as e:
            self.fail('hang', str(e))
        except Exception as e:
            exc = e
        finally:
            self.dmodel.glob = saved
        if bad is not None:
            self.probes['rule_is_file'] += 1
            self.faults['rule_path_is_a_file'] += 1
            if type(exc) is not ValueError:
                self.fail('wrong_exception', f'rule {bad} names a regular '
                          f'file: expected ValueError, got '
                          f'{type(exc).__name__ if exc else "no exception"}'
                          f'{": " + str(exc) if exc else ""}')
            if any(c['h'].rule >= bad for c in self.created[first:]):
                self.fail('extra_key', f'rule {bad} was rejected but handles '
                          f'of rule(s) >= {bad} were created')
            rules = list(range(bad))
        else:
            if exc is not None:
                self.fail('wrong_exception', f'populate raised '
                          f'{type(exc).__name__}: {exc}')
            rules = list(range(len(self.cfg['rules'])))
        self.judge(before, first, rules)

    def snapshot(self):
        """{key: object} of everything visible in the real map."""
        out = {}

        def walk(m, prefix):
            for name, sub in m.maps.items():
                out[prefix + name] = sub
                walk(sub, prefix + name + self.S)
            for name in m.handles:
                out[prefix + name] = m.handles[name]
        walk(self.map, '')
        return out

    def judge(self, before, first, rules):
        RM = self.desper.ResourceMap
        after = self.snapshot()
        trim, nest = self.cur_trim, self.cur_nest
        required_files = {}         # key -> [paths in listing order]
        required_dirs = set()
        allowed_dirs = set()
        li = 0
        for i in rules:
            r = self.cfg['rules'][i]
            full = os.path.join(self.root_dir, self.rpath(r))
            if not os.path.isdir(full):
                continue
            listing = self.listings[li] if li < len(self.listings) else None
            li += 1
            if listing is None:
                self.fail('missing_key', f'rule {i} ({r["path"]!r}) was '
                          f'never listed')
            # the files under the rule's directory, taken literally
            literal = set()
            for dp, dns, fns in os.walk(full):
                dns[:] = [n for n in dns if not n.startswith('.')]
                for n in dns + fns:
                    if not n.startswith('.'):
                        literal.add(os.path.abspath(os.path.join(dp, n)))
            listed = {os.path.abspath(p) for p in listing} - {
                os.path.abspath(full)}
            if listed != literal:
                lost = sorted(os.path.relpath(p, self.root_dir)
                              for p in literal - listed)
                alien = sorted(os.path.relpath(p, self.root_dir)
                               for p in listed - literal)
                self.fail('missing_key' if lost else 'extra_key',
                          f'rule {i} names the directory {r["path"]!r}: '
                          f'entries never looked at {lost}, entries taken '
                          f'from elsewhere {alien}')
            for p in listing:
                key = self.key_of(p, trim)
                if key == '.':
                    continue
                if os.path.isdir(p):
                    # the directory and the directories leading to it
                    parts = key.split(self.S)
                    for k in range(1, len(parts) + 1):
                        allowed_dirs.add(self.S.join(parts[:k]))
                elif os.path.isfile(p) and self.accepted(r, p):
                    required_files.setdefault(key, []).append((p, i))
                    parts = key.split(self.S)
                    for k in range(1, len(parts)):
                        required_dirs.add(self.S.join(parts[:k]))
        new = self.created[first:]
        # (2) factory arguments, one handle per accepted file occurrence
        want_calls = Counter((p, i) for lst in required_files.values()
                             for p, i in lst)
        got_calls = Counter((c['h'].path, c['h'].rule) for c in new)
        if want_calls != got_calls:
            self.fail('factory_args' if set(want_calls) == set(got_calls)
                      else 'missing_key',
                      f'handles built for {sorted(got_calls.elements())}, '
                      f'expected {sorted(want_calls.elements())}')
        for c in new:
            r = self.cfg['rules'][c['h'].rule]
            if (list(c['h'].args) != list(r.get('args', []))
                    or c['h'].kwargs != r.get('kwargs', {})):
                self.fail('factory_args', f'{c["h"].path}: built with '
                          f'{c["h"].args} {c["h"].kwargs}, rule says '
                          f'{r.get("args")} {r.get("kwargs")}')
        # (1) key set
        for key, lst in required_files.items():
            vis = after.get(key)
            last_path = lst[-1][0]
            if not isinstance(vis, self.RecHandle):
                self.fail('missing_key', f'file {last_path} is not '
                          f'reachable under {key!r} (found '
                          f'{type(vis).__name__})')
            mine = [c for c in new if c['key'] == key]
            if vis is not mine[-1]['h']:
                self.fail('conflict_replace' if not nest else
                          'conflict_nest', f'{key!r}: the visible handle is '
                          f'{getattr(vis, "path", vis)}, the newest one is '
                          f'{mine[-1]["h"].path}')
            if len(lst) >= 2:
                self.probes['conflict.trim' if trim else
                            'conflict.repeat_rule'] += 1
                if len(lst) >= 3:
                    self.probes['three_way_conflict'] += 1
        for key in required_dirs:
            if not isinstance(after.get(key), RM):
                self.fail('not_a_map', f'directory {key!r} on the way to a '
                          f'file is {type(after.get(key)).__name__}')
        for key, o in after.items():
            if key in before and before[key] is o:
                continue
            if key in required_files or key in required_dirs:
                continue
            if key in allowed_dirs and isinstance(o, RM):
                continue
            self.fail('extra_key', f'{key!r} ({type(o).__name__}) was added '
                      f'but corresponds to no file/directory under a rule')
        for key, o in before.items():
            if key in after and after[key] is o:
                continue
            if key in required_files:
                continue            # stated replacement
            if (key in required_dirs or key in allowed_dirs) and isinstance(
                    after.get(key), RM):
                continue            # the name denotes a directory now
            parts = key.split(self.S)
            if any(self.S.join(parts[:k]) in required_files
                   for k in range(1, len(parts))):
                continue
            self.fail('missing_key', f'pre-existing {key!r} disappeared')
        # (4) conflicts, judged on the records made inside the factory
        for c in new:
            old = c['old']
            if old is None or isinstance(old, RM):
                continue
            name = c['key'].split(self.S)[-1]
            parent = c['h'].parent if c['h'].parent is not None else None
            vis = after.get(c['key'])
            holder = getattr(vis, 'parent', None)
            if holder is None:
                continue
            layers = holder.handles.maps
            under = self.beneath.setdefault((id(holder), name), [])
            if c['nest']:
                under.append(old)
                lost = [o for o in under if not any(
                    layer.get(name) is o for layer in layers[1:])]
                if lost and not any(lost[0] is o for o in [old]):
                    self.fail('conflict_nest', f'{c["key"]!r}: with '
                              f'nest_on_conflict {len(lost)} of the '
                              f'{len(under)} older handles nested beneath '
                              f'this key are no longer retrievable')
                if not any(layer.get(name) is old for layer in layers[1:]):
                    self.fail('conflict_nest', f'{c["key"]!r}: with '
                              f'nest_on_conflict the older handle is no '
                              f'longer retrievable beneath the new one')
                self.probes['nested_conflict_checked'] += 1
            else:
                del under[:]
                if layers[0].get(name) is old or vis is old:
                    self.fail('conflict_replace', f'{c["key"]!r}: without '
                              f'nest_on_conflict the older handle is still '
                              f'on top')
                self.probes['replace_conflict_checked'] += 1
            if isinstance(old, self.PreHandle):
                self.probes['conflict.preexisting'] += 1
            elif old.__class__ is self.RecHandle and c['call'] > 1:
                self.probes['conflict.repeat'] += 1
            self.flags.add('conflict')
        if any(self.S in k for k in required_files):
            self.flags.add('nested_dir')
        if any(os.path.isdir(os.path.join(self.root_dir, rel))
               and not os.listdir(os.path.join(self.root_dir, rel))
               for rel, kind in self.cfg['tree'] if kind == 'd'):
            self.probes['empty_dir'] += 1
        if any(r.get('exts') for r in self.cfg['rules']) and \
                'nested_dir' in self.flags:
            self.probes['ext_filter_with_nested_dir'] += 1

    def nontrivial(self):
        return bool(('conflict' in self.flags and 'nested_dir' in self.flags)
                    or self.probes['rule_is_file']
                    or self.probes['rule_missing'])

    def cleanup(self):
        self.desper.ResourceMap.split_char = '/'
        if getattr(self, 'cwd0', None) is not None:
            os.chdir(self.cwd0)
        shutil.rmtree(self.root_dir, ignore_errors=True)
        d = os.path.dirname(self.root_dir)
        for _ in range(2 if self.cfg.get('odd_root') else 1):
            try:
                os.rmdir(d)
            except OSError:
                break
            d = os.path.dirname(d)


def execute(scenario, prop, tolerate=frozenset()):
    it = Interp(scenario, prop, tolerate)
    violation = None
    idx = -1
    s0 = kernel.StepBudget.total
    try:
        for idx, op in enumerate(scenario['ops']):
            it.exec_op(op)
    except Violation as v:
        violation = v.to_json()
        violation['op'] = idx
    finally:
        it.cleanup()
    it.stats['steps'] = kernel.StepBudget.total - s0
    return {'violation': violation, 'digest': it.trace.digest(),
            'nontrivial': it.nontrivial(), 'probes': dict(it.probes),
            'faults': dict(it.faults), 'known': dict(it.known),
            'stats': dict(it.stats), 'trace_tail': it.trace.tail(30)}


# --------------------------------------------------------------------------
# generation

def gen_tree(rng):
    entries = []
    dirs = ['']

    def stem(n):
        return os.path.splitext(n)[0]
    n = rng.randint(1, 12) if rng.random() < .8 else rng.randint(12, 22)
    taken = {'': set()}
    for _ in range(n * 3):
        if len(entries) >= n:
            break
        d = rng.choice(dirs)
        if d.count('/') >= 2 and rng.random() < .7:
            continue
        if d.count('/') >= 4:
            continue
        name = rng.choice(NAMES)
        is_dir = ('.' not in name or name == 'sub.d') and rng.random() < (
            .9 if name in MAGIC_DIRS else
            .8 if len(dirs) == 1 else .45)
        sib = taken.setdefault(d, set())
        # one name per directory; a file whose trimmed key equals a sibling
        # directory (or the reverse) is not generated (DESIGN.md section 5)
        if name in {s for s, k in sib}:
            continue
        if is_dir and any(stem(s) == name for s, k in sib if k != 'd'):
            continue
        if not is_dir and any(s == stem(name) for s, k in sib if k == 'd'):
            continue
        rel = f'{d}/{name}' if d else name
        kind = 'd' if is_dir else 'f'
        if not is_dir and rng.random() < .06:
            kind = rng.choice(['l', 'p'])
        elif not is_dir and rng.random() < .06:
            regular = [e[0] for e in entries if e[1] == 'f']
            if regular:
                kind = 'h:' + rng.choice(regular)
        sib.add((name, kind))
        entries.append([rel, kind])
        if is_dir:
            dirs.append(rel)
    return entries


def generate(prop, run_seed, tier='quick', tolerate=frozenset()):
    crng = kernel.stream(run_seed, 'cfg')
    rng = kernel.stream(run_seed, 'gen')
    tree = gen_tree(rng)
    dirs = [rel for rel, k in tree if k == 'd']
    files = [rel for rel, k in tree if k == 'f']
    rules = []
    for _ in range(crng.randint(1, 3)):
        r = crng.random()
        if dirs and r < .86:
            path = crng.choice(dirs)
        elif files and r < .93 and (dirs or r < .3):
            path = crng.choice(files)           # rejected with ValueError
        elif r < .965:
            path = crng.choice(['missing', 'sub/missing', 'a/none'])
        else:
            path = crng.choice(['', '.'])       # the root itself
        exts = []
        if crng.random() < .35:
            exts = crng.sample(['.txt', '.png', '.d', '', '.TXT', '.gz',
                                '.json'], crng.randint(1, 2))
        # other spellings of the same directory
        if path in dirs and crng.random() < .25:
            path = crng.choice([path + '/', './' + path,
                                path + '/../' + path.split('/')[-1],
                                '../<ROOT>/' + path])
        args = crng.choice([[], [], [1], ['x', 2]])
        kwargs = crng.choice([{}, {}, {'k': 1}, {'mode': 'r', 'n': 0}])
        if crng.random() < .04:
            # keyword names a populator might use for itself
            kwargs = crng.choice([{'handle_type': 'sprite'},
                                  {'relative_path': 'x', 'k': 2},
                                  {'root': 1, 'rule': 2}])
        rules.append({'path': path, 'exts': exts, 'args': args,
                      'kwargs': kwargs})
    pre = []
    if crng.random() < .4:
        for rel, k in rng.sample(tree, min(len(tree), rng.randint(1, 2))):
            if k == 'f':
                key = rel if rng.random() < .5 else os.path.splitext(rel)[0]
                pre.append([key, 'h'])
            elif rng.random() < .5:
                pre.append([rel, 'm'])
    cfg = {'policy': crng.choice(['fifo', 'lifo', 'reshuffle', 'rot']),
           'tree': tree, 'rules': rules, 'pre': pre,
           'wrong_ctor_root': crng.random() < .15,
           'odd_root': crng.random() < .08,
           'falsy_handles': crng.choice([None, None, None, 'len', 'bool']),
           'ctor': {'nest': crng.choice([None, True, False]),
                    'trim': crng.choice([None, True, False])}}
    if crng.random() < .06:
        cfg['split'] = crng.choice([':', '|', '>'])
        cfg['split_own'] = crng.random() < .5
    if crng.random() < .05 and not cfg['odd_root']:
        cfg['rel_root'] = True
    ops = []
    for _ in range(crng.choice([1, 1, 2, 3, 4])):
        opts = {}
        if crng.random() < .35:
            opts['nest'] = crng.random() < .5
        if crng.random() < .35:
            opts['trim'] = crng.random() < .5
        if crng.random() < .3:
            opts['root'] = True
        ops.append(['populate', opts])
    if crng.random() < .004 and len(tree) <= 8:
        ops.append(['repeat', {'nest': True}, crng.randint(65, 72)])
    if files and crng.random() < .15:
        # a file turns into a directory between two populations; its key
        # preferably carries handles already (pre-existing and/or nested)
        gone = crng.choice(files)
        stem = os.path.splitext(gone)[0]

        def free(name):     # no other entry has this name or trimmed name
            return not any(rel == name or os.path.splitext(rel)[0] == name
                           for rel, k in tree if rel != gone)
        cands = [n for n in {gone, stem} if free(n)]
        if not cands:
            return {'format': 1, 'engine': 'popul', 'config': cfg,
                    'ops': ops, 'scripts': {}}
        newdir = crng.choice(sorted(cands))
        child = crng.choice(['x.txt', 'a.png', 'b', 'y.txt'])
        if crng.random() < .6:
            cfg['pre'] = [e for e in cfg['pre'] if e[0] not in (gone, stem)]
            cfg['pre'].append([crng.choice([gone, stem]), 'h'])
        if len(ops) < 2:
            ops.append(['populate', dict(ops[0][1])])
        k = crng.randint(1, len(ops) - 1)
        ops.insert(k, ['retree', [gone, newdir, child]])
    return {'format': 1, 'engine': 'popul', 'config': cfg, 'ops': ops,
            'scripts': {}}


def simplify(sc):
    cfg = sc['config']
    for k in range(len(cfg['tree'])):
        c = copy.deepcopy(sc)
        gone = c['config']['tree'].pop(k)
        if not any(r['path'] == gone[0] for r in cfg['rules']):
            yield c
    for k in range(len(cfg['rules'])):
        if len(cfg['rules']) > 1:
            c = copy.deepcopy(sc)
            del c['config']['rules'][k]
            yield c
    for k in range(len(cfg.get('pre', []))):
        c = copy.deepcopy(sc)
        del c['config']['pre'][k]
        yield c
    if cfg.get('policy') != 'fifo':
        c = copy.deepcopy(sc)
        c['config']['policy'] = 'fifo'
        yield c


INFO = {'C16': {
    'rule': 'real scratch directory trees (depth <= 3, <= 12 entries, names '
            'with/without/with several extensions, empty directories), 1-3 '
            'rules (existing, nested, missing, regular-file paths; extension '
            'filters; extra args/kwargs), option matrix nest x trim at '
            'construction and per call, pre-populated maps, 1-3 populations '
            'of the same map, seeded sibling listing order; non-trivial = a '
            'conflict together with a nested directory, or an error/skip '
            'rule; distinct = distinct trace digests',
    'components': {
        'real': ['desper.model.DirectoryResourcePopulator / '
                 'DirectoryPopulatorRule', 'desper.model.tree.ResourceMap',
                 'os.path on a real scratch file system'],
        'stub': ['directory listing order: desper.model.glob replaced by a '
                 'shim whose result set is cross-checked against glob.iglob '
                 'on every call', 'handle factories (recording)']},
    'assumptions': [
        'hidden files and a file whose trimmed key equals a sibling '
        'directory name are not generated (DESIGN.md section 5)',
        'no I/O errors are injected: no property speaks about them',
        'the conflict clauses are judged on what the recording factory saw '
        'in the map at the instant each handle was built']}}
for _v in INFO.values():
    _v['rule'] += (
        '; swarm dimensions (see probes): pre-existing handles and maps, falsy handles, repeated population, trees that change between populations (file becomes directory), dangling links and pipes, glob characters in directory and root names, the root itself as a rule, decomposed/precomposed and upper-case names, other spellings of rule paths, another split_char (class-wide or on the populated map\'s own class), rule keyword names like the populator\'s own parameters, 65-72 nesting populations, relative roots with a chdir in between, names that look like environment / home references ($VERIF_X, ${VERIF_X}, ~), rule paths that leave the root and come back by its name, hard links')
PROBES = {'C16': ['file_became_directory', 'entry_neither_file_nor_directory', 'conflict.trim', 'conflict.preexisting', 'conflict.repeat',
                  'conflict.repeat_rule', 'three_way_conflict',
                  'ext_filter_with_nested_dir', 'empty_dir', 'rule_is_file',
                  'rule_missing', 'per_call_override',
                  'nested_conflict_checked', 'replace_conflict_checked']}

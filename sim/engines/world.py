"""World engine: C01, C02, C05, C06, C07 (DESIGN.md section 3).

One real `desper.World` is driven by a generated operation history (top
level and from inside processors); a small reference model is advanced by
the same interpreter in the order things actually happen, and every public
query is compared after every operation.
"""
import collections

from .. import kernel
from ..kernel import Violation, Boom, Crash, SimHang

Counter = collections.Counter
OP_BUDGET = 30000        # desper lines per top-level operation (liveness)


class QueryingId:
    """An entity id whose hash looks something up in the world (a handle
    object resolving itself): hashing it anywhere - also in the middle of a
    query of the world - runs another, read-only, query."""
    world = None

    def __init__(self, n):
        self.n = n

    def __hash__(self):
        w = QueryingId.world
        if w is not None:
            w.has_component(0, QueryingId)
            w.get_component(0, QueryingId)
        return hash(('q', self.n))

    def __eq__(self, other):
        return isinstance(other, QueryingId) and other.n == self.n

    def __repr__(self):
        return f'Q{self.n}'


def dec_id(x):
    """Scenario encoding of entity ids -> Python hashable."""
    if isinstance(x, dict):
        if 'none' in x:
            return None         # (reachable through add_component only)
        if 'q' in x:
            return QueryingId(x['q'])
        # ids of one type that cannot be ordered among themselves
        if 'cx' in x:
            return complex(*x['cx'])
        return frozenset(x['fs'])
    if isinstance(x, list):
        return tuple(dec_id(i) for i in x)
    return x


# --------------------------------------------------------------------------
# actors: classes are built per run from the scenario's config

class Actors:
    def __init__(self, desper, config, interp):
        self.desper = desper
        self.config = config
        self.interp = interp
        it = interp

        class Root:
            _label = '?'
            _inst_events = None

            def __init__(self):
                if self._inst_events is not None:
                    # the mapping lives on the instance, not on the class
                    self.__events__ = dict(self._inst_events)

            def on_add(self, entity, world):
                it.peek()
                it.cb('life', self._label, 'on_add', entity, world)

            def on_remove(self, entity, world):
                it.peek()
                it.cb('life', self._label, 'on_remove', entity, world)
                if getattr(it, 'clearing', False):
                    it.gone_in_clear.append((self._label, self))

            def probe(self, token):
                it.cb('probe', self._label, token)

            attached = on_add
            detached = on_remove
            probed = probe

        class CtrlRoot(Root, desper.Controller):
            def __init__(self):
                Root.__init__(self)

            def on_add(self, entity, world):
                desper.Controller.on_add(self, entity, world)
                it.cb('life', self._label, 'on_add', entity, world)

        class RunProc(desper.Processor):
            _label = '?'

            if config.get('peq'):
                # processors comparing equal by priority (identity hash)
                def __eq__(self, other):
                    return (isinstance(other, desper.Processor)
                            and self.priority == other.priority)
                __hash__ = object.__hash__

            if config.get('pord'):
                # processors with an ordering of their own (sortable
                # dataclasses): nothing to do with their priorities
                def __lt__(self, other):
                    return str(self._label) > str(getattr(other, '_label', ''))

                def __gt__(self, other):
                    return str(self._label) < str(getattr(other, '_label', ''))

                def __le__(self, other):
                    return not self.__gt__(other)

                def __ge__(self, other):
                    return not self.__lt__(other)

            def process(self, dt=1):
                it.proc_called(self, dt)

            def on_add(self):
                it.peek()
                it.cb('plife', self._label, 'on_add')

            def on_remove(self):
                it.peek()
                it.cb('plife', self._label, 'on_remove')

            def probe(self, token):
                it.cb('probe', self._label, token)

        class ShadowRoot:
            priority = 0

        import abc
        # a query type whose "subclasses" are registered virtually
        self.Virtual = abc.ABCMeta('Virtual', (), {})

        self.Root, self.CtrlRoot, self.RunProc = Root, CtrlRoot, RunProc
        self.ShadowRoot = ShadowRoot
        self.classes = {}      # idx -> class (created lazily for 'late')
        self.pclasses = {}
        self.shadow = {}
        self.insts = {}        # idx -> object
        self.pinsts = {}
        for i, spec in enumerate(config['classes']):
            if not spec.get('late'):
                self.make_class(i)
        for i in range(len(config['pclasses'])):
            self.make_pclass(i)

    def make_class(self, i):
        if i in self.classes:
            return self.classes[i]
        spec = self.config['classes'][i]
        bases = tuple(self.make_class(b) for b in spec['bases'])
        if not bases:
            bases = (self.CtrlRoot,) if spec.get('ctrl') else (self.Root,)
        ns = {}
        if spec.get('inst_events'):
            ns['_inst_events'] = {n: n for n in spec['inst_events']}
        if spec.get('falsy') == 'bool':
            ns['__bool__'] = lambda self: False
        elif spec.get('falsy') == 'len':
            ns['__len__'] = lambda self: 0
        if spec.get('inst_cb') and not spec.get('ctrl'):
            # the lifecycle callbacks are attributes of the *instance* (set
            # in __init__); the functions of the same names on the class
            # must never run
            it = self.interp

            def wrong(name):
                def f(self, entity, world):
                    it.cb('wrong_callback', self._label, name)
                return f
            for name in ('on_add', 'on_remove', 'attached', 'detached'):
                ns[name] = wrong(name)
            base_init = bases[0].__init__

            def __init__(self):
                base_init(self)
                for name, which in (('on_add', 'on_add'),
                                    ('attached', 'on_add'),
                                    ('on_remove', 'on_remove'),
                                    ('detached', 'on_remove')):
                    setattr(self, name, (
                        lambda e, w, which=which: it.cb(
                            'life', self._label, which, e, w)))
            ns['__init__'] = __init__
        if spec.get('fake_class') is not None and not spec.get('ctrl'):
            # instances claim (through __class__) to be of another class:
            # a component's type is type(component), whatever it claims
            j = spec['fake_class']
            A = self
            ns['__class__'] = property(
                lambda self: A.classes.get(j, type(self)))
        if spec.get('eq') == 'equal':       # value equality (a frozen
            ns['__eq__'] = lambda a, b: type(a) is type(b)      # dataclass)
            ns['__hash__'] = lambda a: 11
        elif spec.get('eq') == 'unhashable':    # __eq__ only (a dataclass)
            ns['__eq__'] = lambda a, b: a is b
            ns['__hash__'] = None
        deco_ = spec.get('deco') or {}
        def anc(c, seen=()):
            out = set()
            for b in self.config['classes'][c]['bases']:
                out |= {b} | anc(b)
            return out
        if deco_.get('maps') and not spec.get('ctrl') and not spec.get(
                'inst_cb') and not any(i in c['bases'] or c.get(
                    'fake_class') == i
                    for c in self.config['classes']) \
                and not any(self.config['classes'][a].get('inst_events')
                            or self.config['classes'][a].get('inst_cb')
                            or self.config['classes'][a].get('ctrl')
                            for a in anc(i)):
            # the events are mapped to methods of other names; methods that
            # are *named* like the events exist as well (inherited helpers)
            # and must never run
            it2 = self.interp

            def stray(name):
                def f(self, *a):
                    it2.cb('wrong_callback', self._label, name)
                return f
            for name in deco_['maps']:
                ns[name] = stray(name)
            self.interp.probes['methods_named_like_unmapped_events'] += 1
        meta = type
        if spec.get('falsy_cls') and not spec.get('ctrl'):
            # the class object itself is falsy (a metaclass with __len__)
            meta = type('FalsyMeta', (type,), {'__len__': lambda cls: 0})
            self.interp.probes['falsy_component_class'] += 1
        if spec.get('also_proc'):
            # a component whose class is a Processor as well (a system
            # object stored on an entity): for the world it is what it was
            # added as
            bases = bases + (self.desper.Processor,)
            ns['process'] = lambda self, dt=1: None
            self.interp.probes['component_class_is_a_processor_too'] += 1
        try:
            cls = meta(f'K{i}', bases, dict(ns))
        except TypeError:
            try:
                cls = type(f'K{i}', bases, dict(ns))
            except TypeError:
                cls = type(f'K{i}', (bases[0],), dict(ns))
        deco = spec.get('deco')
        if deco is not None:
            cls = self.desper.event_handler(*deco.get('names', []),
                                            **deco.get('maps', {}))(cls)
        if spec.get('virtual'):
            self.Virtual.register(cls)
        self.classes[i] = cls
        return cls

    def make_pclass(self, i):
        if i in self.pclasses:
            return self.pclasses[i]
        spec = self.config['pclasses'][i]
        bases = tuple(self.make_pclass(b) for b in spec['bases'])
        sbases = tuple(self.shadow[b] for b in spec['bases'])
        ns = {}
        if spec.get('posonly'):
            # a processor whose process() takes its argument positionally
            # only (no parameter that could be passed as dt=...)
            it3 = self.interp

            def process(self, elapsed=1, /):
                it3.proc_called(self, elapsed)
            ns['process'] = process
        if spec.get('prio') is not None:
            ns['priority'] = spec['prio']
        try:
            cls = type(f'P{i}', bases or (self.RunProc,), dict(ns))
            sh = type(f'S{i}', sbases or (self.ShadowRoot,), dict(ns))
        except TypeError:
            cls = type(f'P{i}', (bases[0],), dict(ns))
            sh = type(f'S{i}', (sbases[0],), dict(ns))
        deco = spec.get('deco')
        if deco is not None:
            cls = self.desper.event_handler(*deco.get('names', []),
                                            **deco.get('maps', {}))(cls)
        self.pclasses[i] = cls
        self.shadow[i] = sh
        return cls

    def new(self, cls, spec):
        """Instances of a class that is marked abstract (non-empty
        __abstractmethods__: think of an ABC deriving from a builtin, or of
        abc.update_abstractmethods() after a mix-in lost a method) exist
        all the same; they are ordinary components / processors."""
        if not spec.get('abstract'):
            return cls()
        cls.__abstractmethods__ = frozenset()
        try:
            return cls()
        finally:
            cls.__abstractmethods__ = frozenset({'must_override'})
            self.interp.probes['instance_of_abstract_class'] += 1

    def inst(self, i):
        if i not in self.insts:
            ci = self.config['insts'][i]
            if ci not in self.classes:
                return None
            o = self.new(self.classes[ci], self.config['classes'][ci])
            o._label = f'c{i}'
            kernel.label(o, o._label)
            self.insts[i] = o
        return self.insts[i]

    def pinst(self, i):
        if i not in self.pinsts:
            pc = self.config['pinsts'][i]
            o = self.new(self.pclasses[pc], self.config['pclasses'][pc])
            o._label = f'p{i}'
            kernel.label(o, o._label)
            self.pinsts[i] = o
        return self.pinsts[i]


def events_of(obj):
    ev = getattr(obj, '__events__', None)       # class or instance level
    return ev if isinstance(ev, dict) else None


# --------------------------------------------------------------------------
# interpreter + model

class Interp:
    def __init__(self, scenario, prop, tolerate):
        self.sc = scenario
        self.cfg = scenario['config']
        self.prop = prop
        self.tolerate = tolerate
        self.trace = kernel.Trace()
        self.probes = Counter()
        self.faults = Counter()
        self.known = Counter()
        self.stats = Counter()
        self.desper = kernel.begin_run(
            self.cfg.get('policy', 'fifo'),
            kernel.stream(scenario.get('run_seed', 0), 'sched'),
            scenario.get('run_seed', 0) & 0xffff, self.trace)
        self.actors = Actors(self.desper, self.cfg, self)
        idgen = self.cfg.get('idgen')
        if idgen:
            # a custom id generator that comes round again (a pool of ids)
            import itertools
            self.w = self.desper.World(
                lambda: itertools.cycle(range(1, idgen + 1)))
        else:
            self.w = self.desper.World()
        self.w2 = None
        QueryingId.world = self.w
        kernel.label(self.w, 'w')
        self.ids = [dec_id(x) for x in self.cfg['ids']]
        # model
        self.ents = {}             # id -> {cls idx: inst idx}
        self.dead = set()
        self.stale = set()
        self.procs = []            # [prio, pinst idx]
        self.inst_prio = {}        # pinst idx -> last explicit priority
        self.enabled = True
        self.fifo = []
        self.reg_c = set()         # registered component insts (idx)
        self.reg_p = set()         # registered processor insts (idx)
        self.where = {}            # inst idx -> entity id
        # logs
        self.log = []              # (depth, entry)
        self.depth = 0
        self.pcalls = Counter()    # pinst idx -> number of calls
        self.frame_stop = None
        self.routes = set()
        self.mut_ops = 0
        self.flags = set()
        self.rel_stack = []        # enables whose real call is running
        self.nlife = Counter()
        self.ndirect = Counter()
        self.in_process = self.clear_in_reap = False
        self.terminal = False
        self.nested_frame = None
        self.proc_epoch = 0
        self.flip, self.emitted_now = None, 0
        self.top_op, self.top_start = None, 0
        self.probe_snap = {}
        self.snap_at = {}
        self.life_ok = False       # on_remove scripts allowed right now
        self.in_life = 0
        self.nremoved = Counter()

    # ---- recording from actors
    def cb(self, kind, label, *rest):
        if kind == 'life':
            which, entity, world = rest
            self.cur_cb_eid = entity
            entry = ('life', label, which, repr(entity), world is self.w)
        elif kind == 'probe':
            entry = ('probe', label, rest[0])
        else:
            entry = (kind, label) + tuple(rest)
        self.trace.add('cb', *entry)
        self.log.append((self.depth, entry))
        if self.rel_stack:
            # who listens to 'probe' at the instant this callback starts
            self.snap_at[len(self.log) - 1] = [
                t[1] for t in self.probe_targets(0)]
            if kind == 'probe' and rest[0] not in self.probe_snap:
                # listeners registered when this event's delivery starts
                self.probe_snap[rest[0]] = self.probe_targets(rest[0])
        if (kind == 'life' and self.depth == 0 and not self.rel_stack
                and self.enabled and self.flip is None
                and self.top_op in ('add', 'remove')):
            # a direct callback of add_component / remove_component leaves
            # dispatching switched off: what the interrupted operation
            # still owes is postponed, not delivered and not lost
            key = f'dl:{label}:{rest[0]}'
            n = self.ndirect[key]
            self.ndirect[key] += 1
            dscript = self.sc.get('scripts', {}).get(f'{key}:{n}')
            if dscript and dscript[0][0] == 'process_now' and getattr(
                    self, 'ghosts', None):
                dscript = None      # (an out-of-premise request is pending)
            if dscript and dscript[0][0] == 'process_now':
                # a whole frame is run from the callback, in the middle of
                # the operation: whatever state the entity is in, process()
                # completes (the model does not follow the world further)
                self.terminal = True
                self.no_scripts = True
                self.trace.add('frame_from_direct_callback')
                self.probes['frame_run_by_a_direct_lifecycle_callback'] += 1
                self.faults['nested_frame_inside_an_operation'] += 1
                self.cur_dt = dscript[0][1]
                try:
                    with kernel.budget(OP_BUDGET):
                        self.w.process(self.cur_dt)
                except (Violation, Boom, Crash):
                    raise
                except SimHang as e:
                    self.fail('C05', 'hang', f'process() from {label}.'
                              f'{rest[0]} during {self.top_op}: {e}')
                except Exception as e:
                    self.fail('C05', 'process_raised', f'process() run by '
                              f'{label}.{rest[0]} in the middle of '
                              f'{self.top_op}_component raised '
                              f'{type(e).__name__}: {e}')
            elif dscript:
                self.flip = sum(1 for d, _ in self.log[self.top_start:]
                                if d == 0)
                self.probes['disabled_mid_operation'] += 1
                self.faults['disable_from_direct_callback'] += 1
                self.trace.add('flip', self.flip)
                self.w.dispatch_enabled = False
                self.enabled = False
        if (kind == 'life' and self.rel_stack
                and self.depth == self.rel_stack[-1]['depth']):
            # delivered by a release: the callback may re-enter the world
            # (a silent batch: disable; attach/detach; enable)
            n = self.nlife[label]
            self.nlife[label] += 1
            script = self.sc.get('scripts', {}).get(f'lc:{label}:{n}')
            if script:
                self.probes['reentry_from_release_callback'] += 1
                self.depth += 1
                try:
                    for op in script:
                        if op[0] in ('disable', 'enable', 'add', 'remove',
                                     'create', 'delete', 'delete_now',
                                     'probe'):
                            self.exec_op(op, nested=True)
                finally:
                    self.depth -= 1
        if (kind == 'life' and rest[0] == 'on_remove' and self.life_ok
                and self.depth == 0):       # (reaping of process() itself)
            n = self.nremoved[label]
            self.nremoved[label] += 1
            script = self.sc.get('scripts', {}).get(f'rm:{label}:{n}')
            if not self.in_life:
                self.pass_eid = repr(rest[1])   # the pass is working on it
            if script:
                # a cascade: on_remove asks for further (deferred) deletions
                self.probes['request_in_on_remove'] += 1
                self.depth += 1
                self.in_life += 1
                try:
                    for op in script:
                        if op[0] in ('delete', 'probe'):
                            self.exec_op(op, nested=True)
                        elif op[0] in ('add_proc', 'remove_proc'):
                            # the processor set changes before any
                            # processor of this frame has run
                            if self.in_process and self.enabled \
                                    and not self.clear_in_reap \
                                    and self.nested_frame is None:
                                self.proc_epoch += 1
                                self.probes['processor_set_changed_by_'
                                            'on_remove_of_the_deletion_'
                                            'pass'] += 1
                                self.exec_op(op, nested=True)
                        elif op[0] == 'reap_now':
                            self.reap_now(op)
                        elif op[0] == 'clear_all':
                            self.clear_from_reaping()
                        elif op[0] == 'process_now':
                            self.frame_from_reaping(op)
                finally:
                    self.in_life -= 1
                    self.depth -= 1

    def frame_from_reaping(self, op):
        """From an on_remove callback of the deletion pass: a whole frame
        is run (world.process()).  For everything awaiting deletion at that
        instant - the rest of this pass and what callbacks have requested
        since - this is "the next process()": it is reaped before any
        processor of the nested frame runs."""
        if (not self.enabled or getattr(self, 'clearing', False)
                or not self.in_process or self.nested_frame is not None
                or self.clear_in_reap):
            return
        dt2 = op[1]
        exp2 = []
        for eid in list(self.dead):
            row = self.ents.pop(eid, None)
            if row is None:
                continue
            for c, i in row.items():
                exp2 += self.exp_life(i, 'on_remove', eid)
                self.detach(i, eid)
        self.dead.clear()
        self.stale.clear()
        self.nested_frame = {'exp2': exp2, 'dt': dt2,
                             'cur': {repr(getattr(self, 'cur_cb_eid', None)),
                                     getattr(self, 'pass_eid', None)},
                             'procs': [j for q, j in self.procs]}
        self.no_scripts = True
        self.trace.add('frame_from_reaping', repr(dt2))
        self.probes['frame_run_by_on_remove_of_the_deletion_pass'] += 1
        self.faults['nested_frame_during_reaping'] += 1
        saved, self.cur_dt = self.cur_dt, dt2
        try:
            self.w.process(dt2)
        finally:
            self.cur_dt = saved

    def judge_nested_frame(self, start, exp, expected_procs, dt):
        nf, self.nested_frame = self.nested_frame, None
        entries = [e for d, e in self.log[start:]]
        life = [e for e in entries if e[0] == 'life']
        want = Counter(exp + nf['exp2'])
        if Counter(life) != want:
            missing = sorted((want - Counter(life)).elements())
            extra = sorted((Counter(life) - want).elements())
            self.fail(('C05', 'C02'), 'callback_missing' if missing
                      else 'callback_extra', f'process({dt}) with a frame '
                      f'run by a removal callback: missing {missing}, '
                      f'unexpected {extra}')
        # every entity awaiting deletion is notified before any processor
        # of the nested frame; the one the outer pass was in the middle of
        # (detached already, its other components not notified yet) before
        # any processor of the outer frame
        nproc = 0
        for e in entries:
            if e[0] == 'proc':
                nproc += 1
            elif e[0] == 'life' and nproc and (
                    e[3] not in nf['cur'] or nproc > len(nf['procs'])):
                self.fail('C05', 'reaped_late', f'process({dt}) with a frame '
                          f'run by a removal callback: {e[1]} of entity '
                          f'{e[3]} was notified after {nproc} processor '
                          f'call(s): '
                          f'{[x[:4] for x in entries if x[0] in ("life", "proc")]}')
        got = [e for e in entries if e[0] == 'proc']
        w1 = [('proc', f'p{j}', repr(nf['dt']), True) for j in nf['procs']]
        w2 = [('proc', f'p{j}', repr(dt), True) for j in expected_procs]
        if getattr(self, 'order_unsure', False):
            ok = (sorted(got[:len(w1)]) == sorted(w1)
                  and sorted(got[len(w1):]) == sorted(w2))
        else:
            ok = got == w1 + w2
        if not ok:
            self.fail('C07', 'call_count', f'process({dt}) with a nested '
                      f'process({nf["dt"]}): processors called {got}, '
                      f'expected {w1 + w2}')
        self.stats['sim_time'] += dt
        self.frames = getattr(self, 'frames', 0) + 1

    def clear_from_reaping(self):
        """From an on_remove callback of the deletion pass: the whole world
        is cleared ("game over: reset").  Everything that was attached gets
        its on_remove exactly once, by whichever of the two gets to it."""
        if (not self.enabled or getattr(self, 'clearing', False)
                or not self.in_process or self.clear_in_reap):
            return
        self.clear_in_reap = True
        self.trace.add('clear_from_reaping')
        self.probes['world_cleared_by_on_remove_of_the_deletion_pass'] += 1
        self.faults['clear_during_reaping'] += 1
        self.w.clear()
        self.model_cleared()    # what other callbacks of the pass do next
                                # meets an empty world

    def reap_now(self, op):
        """From an on_remove callback of the deletion pass: finish off
        *another* entity whose deferred deletion is pending in this very
        pass - delete it immediately, or strip it of its components (if the
        pass has not come to it yet; otherwise there is nothing to do). Its
        callbacks belong to this frame's removal group either way."""
        eid = dec_id(op[1])
        how = op[2] if len(op) > 2 else 'delete'
        if eid not in getattr(self, 'reaping', ()) or not self.enabled:
            return
        if eid == getattr(self, 'cur_cb_eid', None):
            return                      # (never the entity being processed)
        comps = self.w.get_components(eid)
        if not comps:
            return                      # the pass has dealt with it already
        self.trace.add('reap_now', repr(eid), how)
        self.probes['pending_entity_finished_by_on_remove'] += 1
        self.faults['reentrant_delete_during_reaping'] += 1
        self.depth -= 1                 # its callbacks count for the frame
        try:
            if how == 'delete':
                self.w.delete_entity(eid, immediate=True)
            else:
                for c in comps:
                    self.w.remove_component(eid, type(c))
        finally:
            self.depth += 1

    def proc_called(self, proc, dt):
        label = proc._label
        i = int(label[1:])
        n = self.pcalls[i]
        self.pcalls[i] += 1
        entry = ('proc', label, repr(dt), dt is self.cur_dt)
        self.trace.add(*entry)
        self.log.append((self.depth, entry))
        script = self.sc.get('scripts', {}).get(f'proc:{i}:{n}')
        if script and not getattr(self, 'no_scripts', False):
            self.depth += 1
            try:
                for op in script:
                    self.exec_op(op, nested=True)
            finally:
                self.depth -= 1

    # ---- helpers
    def fail(self, props, kind, detail=''):
        raise Violation(props, kind, detail)

    def has(self, obj, name):
        ev = events_of(obj)
        return ev is not None and name in ev

    def cls_of_inst(self, i):
        return self.cfg['insts'][i]

    def k4_shape(self, eid, insts):
        types = [self.cls_of_inst(i) for i in insts]
        if len(set(types)) < len(types):
            return True
        row = self.ents.get(eid, {}) if eid is not None else {}
        return any(t in row for t in types)

    def exp_life(self, i, which, eid):
        o = self.actors.inst(i)
        if self.has(o, which):
            return [('life', f'c{i}', which, repr(eid), True)]
        return []

    def exp_plife(self, i, which):
        o = self.actors.pinst(i)
        if self.has(o, which):
            return [('plife', f'p{i}', which)]
        return []

    def probe_targets(self, token):
        out = []
        for i in sorted(self.reg_c):
            if self.has(self.actors.inst(i), 'probe'):
                out.append(('probe', f'c{i}', token))
        for i in sorted(self.reg_p):
            if self.has(self.actors.pinst(i), 'probe'):
                out.append(('probe', f'p{i}', token))
        return out

    def emit(self, groups, entries, ordered=False, origin=None):
        """Queue expected callbacks: now (enabled) or at the next enable."""
        if not entries:
            return
        if self.flip is not None and self.emitted_now < self.flip:
            k = self.flip - self.emitted_now
            now, entries = list(entries[:k]), list(entries[k:])
            groups.append((now, ordered))
            self.emitted_now += len(now)
            if not entries:
                return
        if self.enabled:
            groups.append((list(entries), ordered))
            self.emitted_now += len(entries)
        else:
            self.fifo.append(['grp', list(entries), ordered, origin])
            self.probes['postponed_callback'] += len(entries)

    def detach(self, i, eid):
        self.reg_c.discard(i)
        self.where.pop(i, None)

    # ---- the operations
    def exec_op(self, op, nested=False):
        name = op[0]
        fn = getattr(self, 'op_' + name)
        start = len(self.log)
        self.stats['ops'] += 1
        self.trace.add('op', self.depth, *op)
        if not nested and not self.depth:
            self.top_op, self.top_start = name, start
            self.flip, self.emitted_now = None, 0
        try:
            res = fn(op, start)
        except Violation as v:
            if self.terminal and v.kind != 'process_raised' \
                    and v.kind != 'hang':
                return          # (the model stopped following the world)
            raise
        if self.terminal:
            return
        if res == 'skip':
            self.stats['skipped'] += 1
            self.trace.add('skip')
            return
        if not self.in_life:
            self.sweep()

    def call(self, thunk, expect_exc=(), owner=('C01',), what=''):
        """Run a desper call; unexpected exceptions are violations."""
        try:
            with kernel.budget(OP_BUDGET):
                return ('ret', thunk())
        except Violation:
            raise
        except (Boom, Crash):
            raise
        except SimHang as e:
            self.fail(owner, 'hang', f'{what}: {e}')
        except Exception as e:
            if isinstance(e, expect_exc):
                e.__traceback__ = None
                return ('exc', e)
            self.fail(owner, 'op_raised', f'{what}: {type(e).__name__}: {e}')

    def check_log(self, start, groups, owner, what):
        """Compare callbacks recorded at this depth with expected groups."""
        if 'k4_shape' in self.flags and 'K4' in self.tolerate:
            return
        actual = [e for d, e in self.log[start:] if d == self.depth]
        pos = 0
        for entries, ordered in groups:
            got = actual[pos:pos + len(entries)]
            ok = (got == entries) if ordered else (
                Counter(got) == Counter(entries))
            if not ok:
                missing = list((Counter(entries) - Counter(got)).elements())
                kind = 'callback_missing' if missing else 'callback_order'
                if len(got) == len(entries) and not ordered:
                    kind = 'callback_args'
                self.fail(owner, kind,
                          f'{what}: expected {entries} got {got} '
                          f'(all at this op: {actual})')
            pos += len(entries)
        if pos != len(actual):
            extra = actual[pos:]
            kind = 'callback_extra' if self.enabled else \
                'delivered_while_disabled'
            self.fail(owner, kind, f'{what}: unexpected {extra}')

    def life_owner(self, entries=()):
        return ('C02',)

    def peek(self):
        """A lifecycle callback looks at the world (read-only queries, the
        results are not judged here: what they must be in the middle of an
        operation is not stated - but looking must not change anything)."""
        if not self.cfg.get('peek'):
            return
        w = self.w
        tuple(w.processors)
        tuple(w.entities)
        w.get(self.actors.Root)
        self.probes['callback_peeked_at_world'] += 1
        for lab, o in getattr(self, 'gone_in_clear', ()):
            # components the running clear() has notified already are
            # detached: "registered exactly while attached"
            if w.is_handler(o):
                self.fail('C02', 'registered_not_attached', f'{lab} got its '
                          f'on_remove from the running clear() but is still '
                          f'a registered listener')

    def op_forget(self, op, start):
        """Nothing but the world (its queue of postponed callbacks, if any)
        refers to this detached component any more."""
        i = op[1]
        if i in self.where or i not in self.actors.insts:
            return 'skip'
        del self.actors.insts[i]
        self.reg_c.discard(i)
        if any(g[0] == 'grp' and any(e[1] == f'c{i}' for e in g[1])
               for g in self.fifo):
            self.probes['forgotten_with_pending_callbacks'] += 1
        self.probes['component_forgotten'] += 1

    def op_forget_proc(self, op, start):
        """The program keeps no reference of its own to a processor that
        is in no world any more (only the queue of postponed callbacks, if
        anything, still refers to it)."""
        i = op[1]
        if (self.depth or i not in self.actors.pinsts
                or any(j == i for q, j in self.procs)
                or i in getattr(self, 'side', {}).values()):
            return 'skip'
        del self.actors.pinsts[i]
        self.reg_p.discard(i)
        self.inst_prio.pop(i, None)
        if any(g[0] == 'grp' and any(e[1] == f'p{i}' for e in g[1])
               for g in self.fifo):
            self.probes['processor_forgotten_with_pending_callbacks'] += 1
        self.probes['processor_forgotten'] += 1

    def op_unregister(self, op, start):
        """remove_handler by hand on an attached component: it stops
        listening, its lifecycle callbacks are still owed."""
        i = op[1]
        o = self.actors.insts.get(i)
        if (i not in self.where or o is None or events_of(o) is None
                or self.depth or self.in_life):
            return 'skip'
        self.call(lambda: self.w.remove_handler(o), what='remove_handler')
        self.reg_c.discard(i)
        self.probes['unregistered_by_hand'] += 1

    def op_create(self, op, start):
        _, eid, insts = op
        eid = None if eid is None else dec_id(eid)
        if any(i in self.where for i in insts):
            return 'skip'
        objs = [self.actors.inst(i) for i in insts]
        if any(o is None for o in objs):
            return 'skip'
        if eid is not None and eid in self.stale:
            self.probes['avoided_ambiguous'] += 1
            return 'skip'
        if self.k4_shape(eid, insts):
            if 'K4' in self.tolerate and self.prop not in ('C01', 'C06'):
                return 'skip'
            self.flags.add('k4_shape')
        idgen = self.cfg.get('idgen')
        if eid is None and idgen:
            if all(k in self.ents for k in range(1, idgen + 1)):
                return 'skip'       # the pool is exhausted: no id to give
            self.probes['recycling_id_generator'] += 1
        before = set(self.ents)
        r = self.call(lambda: self.w.create_entity(*objs, entity_id=eid),
                      what=f'create_entity({insts}, id={eid!r})')
        rid = r[1]
        if eid is None:
            if rid in before:
                self.fail('C01', 'auto_id_in_use',
                          f'automatic id {rid!r} names an entity that '
                          f'already owns components')
            if rid in self.stale:
                self.stale.discard(rid)
            if any(type(x) is type(rid) and x == rid for x in self.ids):
                self.probes['auto_id_in_explicit_pool'] += 1
        elif rid != eid or type(rid) is not type(eid):
            self.fail('C01', 'op_raised', f'create_entity returned {rid!r} '
                      f'for entity_id={eid!r}')
        else:
            self.probes['explicit_id'] += 1
        groups = []
        exp = []
        k4 = False
        if insts:
            row = self.ents.setdefault(rid, {})
            for i in insts:
                ci = self.cls_of_inst(i)
                if ci in row:      # K4 shape: silently overwritten
                    old = row.pop(ci)
                    self.where.pop(old, None)
                    self.reg_c.discard(old)
                    k4 = True
                row[ci] = i
                self.where[i] = rid
            for i in insts:
                if i not in self.where:
                    continue        # overwritten within this very call
                if events_of(self.actors.inst(i)) is not None:
                    self.reg_c.add(i)
                exp += self.exp_life(i, 'on_add', rid)
            self.mut_ops += 1
        self.emit(groups, exp, ordered=True)
        if not k4:
            # (an overwritten component may get on_add+on_remove or nothing)
            self.check_log(start, groups, ('C02',), 'create_entity')
        self.last_created = rid

    def op_add(self, op, start):
        _, eid, i = op
        eid = dec_id(eid)
        if i in self.where:
            return 'skip'
        o = self.actors.inst(i)
        if o is None:
            return 'skip'
        if eid in self.stale:
            self.probes['avoided_ambiguous'] += 1
            return 'skip'
        ci = self.cls_of_inst(i)
        self.call(lambda: self.w.add_component(eid, o),
                  what=f'add_component({eid!r}, c{i})')
        groups = []
        row = self.ents.setdefault(eid, {})
        if ci in row:
            old = row.pop(ci)
            self.emit(groups, self.exp_life(old, 'on_remove', eid))
            self.detach(old, eid)
            self.routes.add('replace')
            self.probes['detach_route.replace'] += 1
            if len(row) == 0:
                self.probes['replace_only_component_of_type'] += 1
            if eid in self.dead:
                self.probes['touch.add'] += 1
        elif eid in self.dead:
            self.probes['touch.add'] += 1
        row[ci] = i
        self.where[i] = eid
        if getattr(self, 'seen_attached', None) is None:
            self.seen_attached = set()
        if i in self.seen_attached:
            self.probes['same_instance_reattached'] += 1
        self.seen_attached.add(i)
        if events_of(o) is not None:
            self.reg_c.add(i)
        if not self.enabled and self.has(o, 'on_add'):
            self.probes['attach_while_disabled'] += 1
        self.emit(groups, self.exp_life(i, 'on_add', eid))
        self.mut_ops += 1
        self.check_log(start, groups, ('C02',), 'add_component')

    def matches(self, row, ci):
        """Model: which attached class idxs match a query by class ci."""
        T = self.actors.Root if ci == -1 else self.actors.classes.get(ci)
        if T is None:
            return []
        return [c for c in row if issubclass(self.actors.classes[c], T)]

    def op_remove(self, op, start):
        _, eid, ci = op
        eid = dec_id(eid)
        T = self.actors.Root if ci == -1 else self.actors.classes.get(ci)
        if T is None:
            return 'skip'
        r = self.call(lambda: self.w.remove_component(eid, T),
                      what=f'remove_component({eid!r}, K{ci})')[1]
        row = self.ents.get(eid, {})
        m = self.matches(row, ci)
        groups = []
        if not m:
            if r is not None:
                self.fail(('C01', 'C06'), 'foreign_match',
                          f'remove_component({eid!r}, K{ci}) returned '
                          f'{getattr(r, "_label", r)!r}, nothing matches')
        else:
            lab = getattr(r, '_label', None)
            cand = {f'c{row[c]}': c for c in m}
            if lab not in cand:
                self.fail(('C01', 'C06'), 'missing_match',
                          f'remove_component({eid!r}, K{ci}) returned '
                          f'{lab!r}, candidates {sorted(cand)}')
            if ci in row and cand[lab] != ci:
                self.fail('C06', 'exact_not_preferred',
                          f'remove_component({eid!r}, K{ci}) removed {lab}')
            if ci not in row:
                self.probes['remove_by_base_type'] += 1
                if len(m) > 1:
                    self.probes['remove_by_base_with_two_subtype_matches'] += 1
            c = cand[lab]
            i = row.pop(c)
            self.emit(groups, self.exp_life(i, 'on_remove', eid))
            if not self.enabled and events_of(r) is not None:
                self.probes['detach_while_disabled'] += 1
            if events_of(r) is not None and not self.has(r, 'on_remove'):
                self.probes['handler_without_on_remove_detached'] += 1
            self.detach(i, eid)
            self.routes.add('remove')
            self.probes['detach_route.remove'] += 1
            if eid in self.dead:
                self.probes['touch.remove_some'] += 1
            if not row:
                del self.ents[eid]
                if eid in self.dead:
                    self.dead.discard(eid)
                    self.stale.add(eid)
                    self.probes['touch.remove_last_component'] += 1
            self.mut_ops += 1
        self.check_log(start, groups, ('C02',), 'remove_component')

    def op_delete(self, op, start):
        _, eid = op
        eid = dec_id(eid)
        if eid not in self.ents:
            return 'skip'
        if eid in self.dead:
            self.probes['touch.delete_again'] += 1
        self.call(lambda: self.w.delete_entity(eid),
                  what=f'delete_entity({eid!r})')
        self.dead.add(eid)
        self.mut_ops += 1
        self.flags.add('deferred')
        if self.depth:
            self.probes['request_in_processor'] += 1
        self.check_log(start, [], ('C02',), 'delete_entity')

    def op_ghost(self, op, start):
        """Out-of-premise: deferred request for a never-existing id."""
        _, eid = op
        eid = dec_id(eid)
        if (eid in self.ents or eid in self.stale or self.depth
                or isinstance(eid, int)):
            return 'skip'
        self.call(lambda: self.w.delete_entity(eid), what='delete(ghost)')
        self.stale.add(eid)
        self.ghosts = getattr(self, 'ghosts', set()) | {eid}
        self.check_log(start, [], ('C02',), 'delete_entity(ghost)')

    def op_delete_now(self, op, start):
        _, eid = op
        eid = dec_id(eid)
        if eid in getattr(self, 'ghosts', ()):
            return 'skip'
        r = self.call(lambda: self.w.delete_entity(eid, immediate=True),
                      expect_exc=(KeyError,),
                      owner=('C01', 'C05') if eid in self.dead else ('C01',),
                      what=f'delete_entity({eid!r}, immediate)')
        groups = []
        if eid not in self.ents:
            if r[0] != 'exc':
                self.fail('C01', 'op_raised', f'immediate deletion of absent '
                          f'entity {eid!r} did not raise KeyError')
        else:
            if r[0] == 'exc':
                self.fail('C01', 'op_raised', f'immediate deletion of '
                          f'{eid!r} raised {r[1]!r}')
            row = self.ents.pop(eid)
            exp = []
            for c, i in row.items():
                exp += self.exp_life(i, 'on_remove', eid)
                if not self.enabled and events_of(
                        self.actors.inst(i)) is not None:
                    self.probes['detach_while_disabled'] += 1
                self.detach(i, eid)
            self.emit(groups, exp)
            self.routes.add('immediate')
            self.probes['detach_route.immediate'] += 1
            if eid in self.dead:
                self.dead.discard(eid)
                self.stale.add(eid)
                self.probes['touch.delete_immediate'] += 1
            self.mut_ops += 1
        self.check_log(start, groups, ('C02',), 'delete_entity(immediate)')

    def op_disable(self, op, start):
        self.call(lambda: setattr(self.w, 'dispatch_enabled', False),
                  what='disable')
        self.enabled = False
        self.check_log(start, [], ('C02',), 'disable')

    def op_enable(self, op, start):
        """Release of the postponed callbacks.  The expectation is one
        shared FIFO consumed in delivery order, also across nested enables
        issued from callbacks of the release itself."""
        owner = ('C02', 'C07') if self.prop not in ('C02', 'C07') else (
            self.prop,)
        for frame in self.rel_stack:        # what the outer drains did so far
            self.flush(frame)
        if len(self.fifo) >= 2:
            self.probes['enable_with_pending>=2'] += 1
        if self.rel_stack:
            self.probes['nested_enable_in_release'] += 1
        self.enabled = True
        frame = {'depth': self.depth, 'pos': len(self.log), 'owner': owner}
        self.rel_stack.append(frame)
        try:
            self.call(lambda: setattr(self.w, 'dispatch_enabled', True),
                      owner=owner, what='enable')
        except Violation as v:
            if v.kind == 'op_raised':
                v.kind = 'enable_raised'
            raise
        finally:
            self.rel_stack.pop()
        self.flush(frame)
        if 'k4_shape' in self.flags and 'K4' in self.tolerate:
            self.fifo = []
        elif not self.rel_stack and self.enabled:
            # everything postponed must have been delivered by now
            while self.fifo and self.fifo[0][0] == 'probe':
                self.close_probe(self.fifo.pop(0), owner)
            if self.fifo:
                if any(len(g) > 3 and g[3] == 'reap' for g in self.fifo):
                    # "removed and notified": the notification owed by a
                    # deferred deletion was postponed and is now lost
                    owner = tuple(owner) + ('C05',)
                self.fail(owner, 'callback_missing', f'enable returned but '
                          f'postponed callbacks were not delivered: '
                          f'{[x[1] for x in self.fifo[:3]]}')

    def flush(self, frame):
        while frame['pos'] < len(self.log):
            d, entry = self.log[frame['pos']]
            frame['pos'] += 1
            if d == frame['depth'] and not entry[0] == 'proc':
                self.consume(entry, frame['owner'],
                             self.snap_at.get(frame['pos'] - 1))

    def consume(self, entry, owner, listeners_now=None):
        if 'k4_shape' in self.flags and 'K4' in self.tolerate:
            return                      # callback oracle is off (K4)
        while self.fifo:
            head = self.fifo[0]
            if head[0] == 'probe':
                if entry[0] == 'probe' and entry[2] == head[1]:
                    head[4] = self.probe_snap.get(head[1])
                    head[3].append(entry)
                    return
                self.close_probe(self.fifo.pop(0), owner, listeners_now)
                continue
            entries, ordered = head[1], head[2]
            if ordered:
                ok = bool(entries) and entries[0] == entry
                if ok:
                    entries.pop(0)
            else:
                ok = entry in entries
                if ok:
                    entries.remove(entry)
            if not ok:
                later = any(h[0] == 'grp' and entry in h[1]
                            for h in self.fifo[1:])
                if len(head) > 3 and head[3] == 'reap':
                    # what was skipped is a notification owed by a deferred
                    # deletion ("removed and notified")
                    owner = tuple(owner) + ('C05',)
                self.fail(owner, 'callback_order' if later
                          else 'callback_extra',
                          f'release delivered {entry} while the next '
                          f'postponed callback(s) in operation order are '
                          f'{entries}')
            if not entries:
                self.fifo.pop(0)
            return
        kind = 'callback_extra' if self.enabled else \
            'delivered_while_disabled'
        self.fail(owner, kind, f'release delivered {entry}, nothing was '
                  f'postponed any more')

    def close_probe(self, item, owner, listeners_now=None):
        _, token, had, got, targets = item
        if targets is None and listeners_now is not None:
            # nobody was called: the listeners are those registered when
            # the next callback of the release started
            targets = [('probe', lab, token) for lab in listeners_now]
        if targets is None:
            targets = self.probe_targets(token)
        if not got and not had:
            return                      # name unknown when dispatched: may drop
        if Counter(got) != Counter(targets):
            missing = list((Counter(targets) - Counter(got)).elements())
            self.fail(owner, 'callback_missing' if missing else
                      'callback_extra', f'postponed probe {token}: delivered '
                      f'to {[g[1] for g in got]}, listeners at delivery time '
                      f'{[t[1] for t in targets]}')

    def op_probe(self, op, start):
        _, token = op
        self.call(lambda: self.w.dispatch('probe', token), owner=('C02',),
                  what='dispatch(probe)')
        groups = []
        tg = self.probe_targets(token)
        if self.enabled:
            groups.append((tg, False))
            if tg:
                self.probes['probe_delivered'] += 1
        else:
            self.fifo.append(['probe', token, bool(tg), [], None])
        self.check_log(start, groups, ('C02',), 'dispatch(probe)')

    def default_prio(self, pi):
        return self.actors.shadow[self.cfg['pinsts'][pi]].priority

    def op_add_proc(self, op, start):
        _, pi, prio = op
        if self.depth and not (self.in_life and self.in_process):
            return 'skip'
        p = self.actors.pinst(pi)
        pc = self.cfg['pinsts'][pi]
        self.call(lambda: (self.w.add_processor(p) if prio is None else
                           self.w.add_processor(p, prio)),
                  owner=('C07',), what=f'add_processor(p{pi}, {prio})')
        groups = []
        for k, (q, j) in enumerate(list(self.procs)):
            if self.cfg['pinsts'][j] == pc:
                del self.procs[k]
                self.emit(groups, self.exp_plife(j, 'on_remove'))
                self.reg_p.discard(j)
                self.replaced = getattr(self, 'replaced', set()) | {j}
                self.replaced.discard(pi)
                if j == pi:
                    self.probes['readd_same_instance'] += 1
                else:
                    self.probes['replace_processor'] += 1
                    self.flags.add('replaced_proc')
                break
        if prio is not None:
            self.inst_prio[pi] = prio
            if prio == 0 and self.default_prio(pi) != 0:
                self.probes['explicit_zero_over_nonzero_default'] += 1
            if prio < 0:
                self.probes['explicit_negative'] += 1
        eff = self.inst_prio.get(pi, self.default_prio(pi))
        pos = len(self.procs)
        for k, (q, j) in enumerate(self.procs):
            if q > eff:
                pos = k
                break
        if 0 < pos < len(self.procs):
            self.probes['insert_middle'] += 1
        if any(q == eff for q, j in self.procs):
            self.probes['tie_priority'] += 1
        self.procs.insert(pos, [eff, pi])
        if events_of(p) is not None:
            self.reg_p.add(pi)
        self.emit(groups, self.exp_plife(pi, 'on_add'))
        if p.world is not self.w:
            self.fail('C07', 'world_unset', f'p{pi}.world is not the world')
        self.mut_ops += 1
        self.check_log(start, groups, ('C07',), 'add_processor')

    def op_side_add(self, op, start):
        """The same processor instance is also registered in a second world
        with another explicit priority (its priority attribute changes
        while it sits in this world's sorted list)."""
        _, pi, prio = op
        if self.depth:
            return 'skip'
        if self.w2 is None:
            self.w2 = self.desper.World()
            self.side = {}
        p = self.actors.pinst(pi)
        pc = self.cfg['pinsts'][pi]
        self.call(lambda: self.w2.add_processor(p, prio), owner=('C07',),
                  what=f'other_world.add_processor(p{pi}, {prio})')
        groups = []
        old = self.side.get(pc)
        if old is not None:
            groups.append((self.exp_plife(old, 'on_remove'), True))
        self.side[pc] = pi
        groups.append((self.exp_plife(pi, 'on_add'), True))
        groups = [g for g in groups if g[0]]
        self.inst_prio[pi] = prio
        if any(j == pi for q, j in self.procs):
            self.probes['priority_changed_while_registered'] += 1
            # the list of this world is no longer sorted by the priorities
            # it was built with: only membership is judged from now on
            self.order_unsure = True
        self.check_log(start, groups, ('C07',), 'add_processor (other world)')

    def pmatches(self, pc):
        T = self.actors.RunProc if pc == -1 else self.actors.pclasses[pc]
        return [j for q, j in self.procs
                if issubclass(self.actors.pclasses[self.cfg['pinsts'][j]], T)]

    def op_deep_query(self, op, start):
        """A chain of n classes, each deriving from the previous one; a
        component of the last one is found by a query for the first."""
        n = op[1]
        if self.depth:
            return 'skip'
        d = self.desper
        resume = kernel.StepBudget.pause()
        try:
            base = cls = type('Link0', (), {})
            for k in range(1, n):
                cls = type(f'Link{k}', (cls,), {})
            w = d.World()
            o = cls()
            e = w.create_entity(o)
            got = w.get(base)
            ok = (got == [(e, o)] and w.has_component(e, base)
                  and w.get_component(e, base) is o)
            r = w.remove_component(e, base)
        except RecursionError as ex:
            self.fail('C06', 'op_raised', f'a query by the base of a chain '
                      f'of {n} classes raised RecursionError')
        finally:
            resume()
        self.probes['inheritance_chain>=990'] += n >= 990
        if not ok or r is not o:
            self.fail('C06', 'missing_match', f'a chain of {n} classes: the '
                      f'component of the last class is not found by a query '
                      f'for the first (get -> {len(got)} pairs)')

    def op_mass_delete(self, op, start):
        """A separate world with n plain entities, all of them deleted
        (deferred) in one go: the next process() removes every one of them
        before its processors run."""
        n = op[1]
        if self.depth:
            return 'skip'
        d = self.desper

        class Dust:
            pass
        seen = []

        class Count(d.Processor):
            def process(self, dt=1):
                seen.append(len(self.world.get(Dust)))
        w = d.World()
        w.add_processor(Count())
        resume = kernel.StepBudget.pause()
        try:
            ids = [w.create_entity(Dust()) for _ in range(n)]
            for e in ids:
                w.delete_entity(e)
            w.process(1)
        except Exception as e:
            self.fail('C05', 'process_raised', f'{n} deferred deletions in '
                      f'one frame: {type(e).__name__}: {e}')
        finally:
            resume()
        self.probes['mass_deletion_in_one_frame'] += 1
        left = len(w.get(Dust))
        if seen != [0] or left or w.entities:
            self.fail('C05', 'reaped_late', f'{n} entities awaiting deletion:'
                      f' the processor of the next frame still found '
                      f'{seen} components, {left} are left afterwards')

    def op_spam_add(self, op, start):
        """n replacements of a processor of one private type (every
        add_processor counts for whatever the world keeps per insertion),
        then the ordinary history goes on."""
        n = op[1]
        if self.depth:
            return 'skip'
        d = self.desper
        if not hasattr(self, 'Spam'):
            class Spam(d.Processor):
                priority = 1

                def process(self, dt=1):
                    pass
            self.Spam = Spam
            self.spam = None
        w, Spam = self.w, self.Spam
        resume = kernel.StepBudget.pause() if n > 10000 else (lambda: None)
        try:
            with kernel.budget(400 * n + OP_BUDGET):
                for _ in range(n):
                    w.add_processor(Spam())
                w.remove_processor(Spam)
        except SimHang as e:
            self.fail('C07', 'hang', f'{n} add_processor calls: {e}')
        finally:
            resume()
        self.probes['many_add_processor_calls'] += 1
        if n >= 2 ** 20:
            self.probes['add_processor_calls>=2**20'] += 1

    def op_remove_proc(self, op, start):
        _, pc = op
        if self.depth and not (self.in_life and self.in_process):
            return 'skip'
        T = self.actors.RunProc if pc == -1 else self.actors.pclasses[pc]
        r = self.call(lambda: self.w.remove_processor(T), owner=('C07',),
                      what=f'remove_processor(P{pc})')[1]
        m = self.pmatches(pc)
        groups = []
        if not m:
            if r is not None:
                self.fail(('C07', 'C06'), 'foreign_match',
                          f'remove_processor(P{pc}) returned {r!r}')
        else:
            lab = getattr(r, '_label', None)
            if lab not in {f'p{j}' for j in m}:
                self.fail(('C07', 'C06'), 'missing_match',
                          f'remove_processor(P{pc}) returned {lab!r}, '
                          f'candidates {m}')
            j = int(lab[1:])
            exact = [x for x in m if self.cfg['pinsts'][x] == pc]
            if exact and j not in exact:
                self.fail('C06', 'exact_not_preferred',
                          f'remove_processor(P{pc}) removed {lab}')
            if not exact:
                self.probes['remove_proc_by_base_type'] += 1
            self.procs = [x for x in self.procs if x[1] != j]
            self.reg_p.discard(j)
            self.emit(groups, self.exp_plife(j, 'on_remove'))
            self.mut_ops += 1
        self.check_log(start, groups, ('C07',), 'remove_processor')

    def op_raise(self, op, start):
        self.faults['raise_in_processor'] += 1
        self.trace.add('fault', 'raise', *op[1:])
        if len(op) > 1:     # not an Exception (think KeyboardInterrupt)
            raise Crash('injected')
        raise Boom('injected')

    def op_process(self, op, start):
        _, dt = op
        if self.depth > 1 or (self.depth and (
                self.in_life or getattr(self, 'ghosts', None)
                or self.rel_stack)):
            return 'skip'
        if self.depth:
            # sub-stepping: process() called from inside a processor
            self.probes['nested_process'] += 1
            saved = (self.cur_dt, self.life_ok, self.clear_in_reap,
                     self.nested_frame, self.in_process)
            try:
                return self.do_process(op, start, dt)
            finally:
                (self.cur_dt, self.life_ok, self.clear_in_reap,
                 self.nested_frame, self.in_process) = saved
        return self.do_process(op, start, dt)

    def model_cleared(self):
        self.ents = {}
        self.dead.clear()
        self.stale.clear()
        self.ghosts = set()
        self.ghost_frames = 0
        self.where.clear()
        self.reg_c.clear()
        self.reg_p.clear()
        self.procs = []
        self.enabled = True
        self.flags.add('cleared')
        self.cleared_at = self.mut_ops

    def judge_cleared_frame(self, start, pre, pre_procs, dt):
        want = Counter()
        for i, eid in pre:
            want.update(self.exp_life(i, 'on_remove', eid))
        for j in pre_procs:
            want.update(self.exp_plife(j, 'on_remove'))
        got = Counter(e for d, e in self.log[start:]
                      if e[0] in ('life', 'plife'))
        if got != want:
            kind = 'callback_missing' if want - got else 'callback_extra'
            self.fail(('C02', 'C05'), kind, f'process({dt}) whose deletion '
                      f'pass was interrupted by clear(): missing '
                      f'{sorted((want - got).elements())}, unexpected '
                      f'{sorted((got - want).elements())}')
        called = [e for d, e in self.log[start:] if e[0] == 'proc']
        if called:
            self.fail('C07', 'old_still_called', f'process({dt}): '
                      f'processors removed by the clear() of the deletion '
                      f'pass were still run: {called}')
        self.model_cleared()

    def do_process(self, op, start, dt):
        self.cur_dt = dt
        self.clear_in_reap = False
        self.nested_frame = None
        epoch0 = self.proc_epoch
        pre = sorted(self.where.items(), key=repr)
        pre_procs = [j for q, j in self.procs]
        groups = []
        ghosts = getattr(self, 'ghosts', set())
        exp = []
        reaped = []
        for eid in list(self.dead):
            row = self.ents.get(eid)
            if row is None:
                continue
            for c, i in row.items():
                exp += self.exp_life(i, 'on_remove', eid)
            reaped.append(eid)
        if len(reaped) >= 2:
            self.probes['reap>=2_entities_one_frame'] += 1
        if reaped:
            self.probes['process_with_nonempty_dead'] += 1
        expected_procs = [j for q, j in self.procs]
        if ghosts and not self.enabled:
            return 'skip'       # out of premise and callbacks would queue
        if ghosts:
            return self.ghost_frame(op, start, dt, reaped)
        # model first: reaping happens before any processor runs
        for eid in reaped:
            row = self.ents.pop(eid)
            for c, i in row.items():
                if (events_of(self.actors.inst(i)) is not None
                        and not self.enabled):
                    self.probes['detach_while_disabled'] += 1
                self.detach(i, eid)
            self.routes.add('deferred')
            self.probes['detach_route.deferred'] += 1
        self.dead.clear()
        self.stale.clear()
        self.reaping = set(reaped)
        self.emit(groups, exp, origin='reap')
        boom = None
        self.life_ok = True
        self.in_process = self.depth == 0
        try:
            with kernel.budget(OP_BUDGET):
                self.w.process(dt)
        except (Boom, Crash) as e:
            boom = e
        except Violation:
            raise
        except SimHang as e:
            self.fail('C05', 'hang', f'process: {e}')
        except Exception as e:
            called = [x for d, x in self.log[start:]
                      if d == self.depth and x[0] == 'proc']
            owner = ('C05',) if not called else ('C07',)
            kind = 'process_raised'
            if getattr(self, 'failed_frames', 0):
                kind = 'process_raised_again'
            self.fail(owner, kind, f'process({dt}) raised '
                      f'{type(e).__name__}: {e}')
        finally:
            self.life_ok = False
            self.in_process = False
            self.no_scripts = False
        if self.proc_epoch != epoch0:
            expected_procs = [j for q, j in self.procs]
        if self.clear_in_reap:
            self.clear_in_reap = False
            self.nested_frame = None
            return self.judge_cleared_frame(start, pre, pre_procs, dt)
        if self.nested_frame is not None and boom is None:
            return self.judge_nested_frame(start, exp if self.enabled
                                           else [], expected_procs, dt)
        self.nested_frame = None
        actual = [e for d, e in self.log[start:] if d == self.depth]
        # lifecycle group first, then processors in model order
        nlife = sum(len(g[0]) for g in groups)
        life, rest = actual[:nlife], actual[nlife:]
        if any(e[0] == 'proc' for e in life) or Counter(life) != Counter(
                [x for g in groups for x in g[0]]):
            self.fail(('C05', 'C02'), 'reaped_late',
                      f'process: expected removal callbacks '
                      f'{[x for g in groups for x in g[0]]} before any '
                      f'processor, got {actual}')
        want = [('proc', f'p{j}', repr(dt), True) for j in expected_procs]
        got = [e for e in rest if e[0] == 'proc']
        other = [e for e in rest if e[0] != 'proc']
        if other:
            kind = 'callback_extra' if self.enabled else \
                'delivered_while_disabled'
            # (a removal callback nobody asked this frame for: a deletion
            # requested during the pass was carried out by the same pass)
            own = ('C02', 'C05') if any(
                e[0] == 'life' and e[2] == 'on_remove' for e in other) \
                else ('C02',)
            self.fail(own, kind, f'process: unexpected {other}')
        if boom is not None:
            want = want[:len(got)]
            self.failed_frames = getattr(self, 'failed_frames', 0) + 1
            self.probes['frame_failed_by_processor'] += 1
        elif getattr(self, 'failed_frames', 0):
            self.probes['frames_after_failure'] += 1
        if getattr(self, 'order_unsure', False):
            if boom is None:
                got, want = sorted(got), sorted(want)
            else:
                # aborted frame of a list with unknown order: any subset,
                # each processor at most once
                full = [('proc', f'p{j}', repr(dt), True)
                        for j in expected_procs]
                if not (Counter(got) - Counter(full)) and len(
                        set(got)) == len(got):
                    got = want = []
        if got != want:
            labs_w = [x[1] for x in want]
            labs_g = [x[1] for x in got]
            if labs_w == labs_g:
                kind = 'dt'
            elif sorted(labs_w) == sorted(labs_g):
                kind = 'order'
            else:
                kind = 'call_count'
                rep = getattr(self, 'replaced', set())
                if any(int(x[1:]) in rep for x in labs_g):
                    kind = 'old_still_called'
            self.fail('C07', kind, f'process({dt}): processors called '
                      f'{labs_g}, expected {labs_w}')
        if len(want) >= 2:
            prios = [q for q, j in self.procs]
            if len(set(prios)) < len(prios):
                self.probes['tie_order_checked'] += 1
        if 'replaced_proc' in self.flags:
            self.probes['replace_then_frame'] += 1
        self.stats['sim_time'] += dt
        self.frames = getattr(self, 'frames', 0) + 1

    def ghost_frame(self, op, start, dt, reaped):
        """Frame with an out-of-premise request: KeyError is documented.
        Afterwards the model resynchronises by observation, and the *next*
        frames must work (C05 clause 4).  Processor scripts are not run in
        such a frame (the model cannot know how far reaping got)."""
        self.faults['ghost_request_frame'] += 1
        pre_dead = set(self.dead)
        self.no_scripts = True
        try:
            with kernel.budget(OP_BUDGET):
                self.w.process(dt)
            raised = False
        except KeyError:
            raised = True
        except SimHang as e:
            self.fail('C05', 'hang', f'process: {e}')
        except Exception as e:
            self.fail('C05', 'process_raised', f'ghost frame raised '
                      f'{type(e).__name__}: {e}')
        finally:
            self.no_scripts = False
        if raised:
            self.ghost_frames = getattr(self, 'ghost_frames', 0) + 1
        if raised and self.ghost_frames > len(self.ghosts):
            self.fail('C05', 'process_raised_again',
                      'process() keeps raising KeyError on the frames after '
                      'a failed frame (request never forgotten)')
        for eid in reaped:
            if self.w.get_components(eid) == ():
                row = self.ents.pop(eid)
                for c, i in row.items():
                    self.detach(i, eid)
                self.dead.discard(eid)
        if not raised:
            self.stale -= self.ghosts
            self.ghosts = set()
            self.dead -= pre_dead
            self.ghost_frames = 0
            self.probes['frames_after_failure'] += 1
        # callbacks of a ghost frame are not compared (out of premise)
        del self.log[start:]

    def op_clear(self, op, start):
        if self.depth:
            return 'skip'
        lost = len(self.fifo)
        groups = []
        exp = []
        for eid, row in self.ents.items():
            for c, i in row.items():
                exp += self.exp_life(i, 'on_remove', eid)
        pexp = []
        for q, j in self.procs:
            pexp += self.exp_plife(j, 'on_remove')
        was_enabled = self.enabled
        if was_enabled:
            self.emit(groups, exp)
            if getattr(self, 'order_unsure', False):
                if pexp:
                    groups.append((pexp, False))
            else:
                for e in pexp:
                    groups.append(([e], True))
        else:
            self.probes['clear_while_disabled'] += 1
            lost += len(exp) + len(pexp)
            if 'K1' in self.tolerate:
                if lost:
                    self.known['K1'] += 1
                self.fifo = []
            else:
                if exp:
                    self.fifo.append(['grp', list(exp), False])
                for e in pexp:
                    self.fifo.append(['grp', [e], True])
        # on_remove callbacks of the clear may finish off other entities that
        # the clear has not come to yet (same scripts as the deletion pass)
        self.reaping = set(self.ents) if was_enabled else set()
        self.life_ok = was_enabled
        self.gone_in_clear = []
        self.clearing = was_enabled
        try:
            self.call(lambda: self.w.clear(), owner=('C01', 'C02'),
                      what='clear')
        finally:
            self.life_ok = False
            self.reaping = set()
            self.clearing = False
            self.gone_in_clear = []
        if self.ents:
            self.routes.add('clear')
            self.probes['detach_route.clear'] += 1
        self.ents = {}
        self.dead.clear()
        self.stale.clear()
        self.ghosts = set()
        self.ghost_frames = 0
        self.where.clear()
        self.reg_c.clear()
        self.reg_p.clear()
        self.procs = []
        self.enabled = True
        self.flags.add('cleared')
        self.cleared_at = self.mut_ops
        if not was_enabled:
            self.flags.add('reuse_after_clear_disabled')
        self.check_log(start, groups, ('C02',), 'clear')

    def op_rebase(self, op, start):
        """The hierarchy is rearranged after the fact: the bases of a class
        are assigned (`K.__bases__ = ...`).  Queries follow the hierarchy as
        it is now."""
        _, ci, newb = op
        A = self.actors
        if ci not in A.classes or any(b not in A.classes for b in newb):
            return 'skip'
        try:
            A.classes[ci].__bases__ = tuple(A.classes[b] for b in newb)
        except TypeError:
            return 'skip'       # (layout / MRO conflict: nothing changed)
        self.probes['hierarchy_rearranged'] += 1
        return None

    def op_defclass(self, op, start):
        _, ci = op
        if ci in self.actors.classes:
            return 'skip'
        self.actors.make_class(ci)
        self.probes['late_subclass_created'] += 1
        for i, c in enumerate(self.cfg['insts']):
            pass
        return None

    # ---- sweep: every public query against the model, after every op
    def sweep(self):
        w, A = self.w, self.actors
        strict_cb = not ('k4_shape' in self.flags and 'K4' in self.tolerate)
        try:
            with kernel.budget(OP_BUDGET * 4, charge=False):
                self._sweep(w, A, strict_cb)
        except Violation:
            raise
        except SimHang as e:
            self.fail(('C01', 'C06'), 'hang', f'query: {e}')
        except Exception as e:
            owner = ('C01', 'C05', 'C06') if 'deferred' in self.flags else (
                'C01', 'C06')
            self.fail(owner, 'op_raised', f'query raised '
                      f'{type(e).__name__}: {e}')
        self.trace.add('state', kernel.h64(
            repr(sorted((repr(k), sorted(v.items()))
                        for k, v in self.ents.items())),
            repr(sorted(map(repr, self.dead))), repr(self.procs),
            self.enabled, len(self.fifo)))

    def _sweep(self, w, A, strict_cb):
        qtypes = [(-1, A.Root)] + sorted(A.classes.items())
        if self.cfg.get('ladder'):
            # the root, the bottom and the top of the ladder, the unrelated
            # class: a walk that visits every *path* instead of every class
            # does not come back within the budget
            n = len(self.cfg['classes'])
            qtypes = [q for q in qtypes if q[0] in (-1, 0, n - 2, n - 1)]
            self.probes['ladder_of_diamonds'] += 1
        attached = {}           # class idx -> [(eid, inst)]
        for eid, row in self.ents.items():
            for c, i in row.items():
                attached.setdefault(c, []).append((eid, i))
        multi = self.multi_path()
        for ci, T in qtypes:
            want = Counter()
            for c, lst in attached.items():
                if issubclass(A.classes[c], T):
                    for eid, i in lst:
                        want[(repr(eid), f'c{i}')] += 1
                    if c in multi.get(ci, ()):
                        self.probes['diamond_query'] += 1
            lst = w.get(T)
            got = Counter((repr(e), getattr(c, '_label', '?'))
                          for e, c in lst)
            # the returned list is the caller's: using it as a work list
            # must not change what a later query reports
            if isinstance(lst, list):
                lst.clear()
                lst.append(('poison', None))
            if got != want:
                if set(got) == set(want):
                    self.fail(('C01', 'C06'), 'duplicate_match',
                              f'get(K{ci}) lists {dict(got)}, expected each '
                              f'once: {sorted(want)}')
                kind = 'missing_match' if (want - got) else 'foreign_match'
                self.fail(('C01', 'C06'), 'get_mismatch',
                          f'get(K{ci}) = {sorted(got.elements())}, expected '
                          f'{sorted(want.elements())} ({kind})')
        ids = list(self.ids) + [e for e in self.ents if not any(
            type(x) is type(e) and x == e for x in self.ids)]
        for eid in ids:
            row = self.ents.get(eid, {})
            got = Counter(getattr(c, '_label', '?')
                          for c in w.get_components(eid))
            want = Counter(f'c{i}' for i in row.values())
            if got != want:
                owner = ('C01', 'C05') if (eid in self.dead
                                           or 'deferred' in self.flags) \
                    else ('C01',)
                self.fail(owner, 'components_mismatch',
                          f'get_components({eid!r}) = {sorted(got)}, '
                          f'expected {sorted(want)}')
            exists = eid in self.ents and eid not in self.dead
            if bool(w.entity_exists(eid)) != exists:
                self.fail(('C01', 'C05'), 'entities_mismatch',
                          f'entity_exists({eid!r}) = {not exists}, expected '
                          f'{exists} (dead={sorted(map(repr, self.dead))})')
            for ci, T in qtypes:
                m = self.matches(row, ci)
                if bool(w.has_component(eid, T)) != bool(m):
                    self.fail(('C01', 'C06'), 'has_mismatch',
                              f'has_component({eid!r}, K{ci}) = {not m}, '
                              f'matches {m}')
                sentinel = object()
                g = w.get_component(eid, T, sentinel)
                if not m:
                    if g is not sentinel:
                        self.fail(('C01', 'C06'), 'get_component_mismatch',
                                  f'get_component({eid!r}, K{ci}, default) '
                                  f'returned {getattr(g, "_label", g)!r}, '
                                  f'expected the default')
                else:
                    lab = getattr(g, '_label', None)
                    cand = {f'c{row[c]}': c for c in m}
                    if lab not in cand:
                        self.fail(('C01', 'C06'), 'get_component_mismatch',
                                  f'get_component({eid!r}, K{ci}) returned '
                                  f'{lab!r}, candidates {sorted(cand)}')
                    if ci in row:
                        if len(m) > 1:
                            self.probes['exact_and_subtype_both_attached'] += 1
                        if cand[lab] != ci:
                            self.fail(('C01', 'C06'), 'exact_not_preferred',
                                      f'get_component({eid!r}, K{ci}) '
                                      f'returned {lab}, exact type attached')
                    elif ci != -1:
                        self.probes['get_by_base_type'] += 1
        # a type with virtual subclasses: whatever "subclass" means there,
        # the three query styles must tell the same story
        V = A.Virtual
        listed = {repr(e) for e, c in w.get(V)}
        for eid in ids:
            has = bool(w.has_component(eid, V))
            sentinel = object()
            found = w.get_component(eid, V, sentinel) is not sentinel
            if not (has == found == (repr(eid) in listed)):
                self.fail('C01', 'queries_disagree', f'virtual base type: '
                          f'has_component({eid!r}) = {has}, get_component '
                          f'finds one = {found}, listed by get() = '
                          f'{repr(eid) in listed}')
        # the root of every hierarchy as a query type
        self.nsweeps = getattr(self, 'nsweeps', 0) + 1
        if self.cfg.get('query_object') and self.nsweeps % 5 == 1:
            # (walks every class of the interpreter: now and then only)
            want_all = Counter((repr(eid), f'c{i}')
                               for eid, row in self.ents.items()
                               for i in row.values())
            # (every class alive in the interpreter is visited - how many
            # there are depends on what the process did before: this walk
            # gets a budget of its own, far above any honest walk)
            with kernel.budget(20_000_000, charge=False):
                got_all = Counter((repr(e), getattr(c, '_label', '?'))
                                  for e, c in w.get(object))
            if got_all != want_all:
                self.fail(('C01', 'C06'), 'get_mismatch', f'get(object) = '
                          f'{sorted(got_all.elements())}, expected every '
                          f'attached component {sorted(want_all.elements())}')
            for eid in ids[:3]:
                row = self.ents.get(eid, {})
                with kernel.budget(20_000_000, charge=False):
                    has_o = bool(w.has_component(eid, object))
                    g = w.get_component(eid, object)
                if has_o != bool(row):
                    self.fail(('C01', 'C06'), 'has_component_mismatch',
                              f'has_component({eid!r}, object) disagrees '
                              f'with the {len(row)} attached component(s)')
                if (g is None) != (not row) or (
                        g is not None and getattr(g, '_label', None)
                        not in {f'c{i}' for i in row.values()}):
                    self.fail(('C01', 'C06'), 'get_component_mismatch',
                              f'get_component({eid!r}, object) = {g!r}')
            self.probes['queried_by_object'] += 1
        got = sorted(map(repr, w.entities))
        want = sorted(repr(e) for e in self.ents if e not in self.dead)
        if got != want:
            self.fail(('C01', 'C05'), 'entities_mismatch',
                      f'entities = {got}, expected {want}')
        # processors
        got = [getattr(p, '_label', '?') for p in w.processors]
        want = [f'p{j}' for q, j in self.procs]
        if getattr(self, 'order_unsure', False):
            got, want = sorted(got), sorted(want)
        if got != want:
            self.fail(('C07', 'C06'), 'processors_property',
                      f'processors = {got}, expected {want} (priorities '
                      f'{[q for q, j in self.procs]})')
        for pc, T in [(-1, A.RunProc)] + sorted(A.pclasses.items()):
            m = self.pmatches(pc)
            g = w.get_processor(T)
            if not m:
                if g is not None:
                    self.fail(('C07', 'C06'), 'foreign_match',
                              f'get_processor(P{pc}) = {g!r}, none matches')
            else:
                lab = getattr(g, '_label', None)
                if lab not in {f'p{j}' for j in m}:
                    self.fail(('C07', 'C06'), 'missing_match',
                              f'get_processor(P{pc}) = {lab!r}, '
                              f'candidates {m}')
                exact = [j for j in m if self.cfg['pinsts'][j] == pc]
                if exact and lab != f'p{exact[0]}':
                    self.fail('C06', 'exact_not_preferred',
                              f'get_processor(P{pc}) = {lab}, exact type '
                              f'p{exact[0]} present')
        # listener registration == attachment
        if strict_cb:
            for i, o in A.insts.items():
                if events_of(o) is None:
                    continue
                reg = bool(w.is_handler(o))
                if reg != (i in self.reg_c):
                    kind = ('registered_not_attached' if reg
                            else 'attached_not_registered')
                    self.fail('C02', kind, f'is_handler(c{i}) = {reg}, '
                              f'attached at {self.where.get(i)!r}')
            for j, o in A.pinsts.items():
                if events_of(o) is None:
                    continue
                reg = bool(w.is_handler(o))
                if reg != (j in self.reg_p):
                    self.fail('C07', 'lifecycle', f'is_handler(p{j}) = '
                              f'{reg}, in world: {j in self.reg_p}')
            if self.enabled and self.fifo and not self.rel_stack:
                self.fail('C02', 'callback_missing',
                          f'dispatching is enabled but postponed callbacks '
                          f'were never delivered: {self.fifo[:4]}')
        if bool(w.dispatch_enabled) != self.enabled:
            self.fail(('C02',), 'flag_wrong', f'dispatch_enabled = '
                      f'{w.dispatch_enabled}, expected {self.enabled}')

    def multi_path(self):
        """{query class idx: set of class idxs reachable by >= 2 paths}."""
        mp = getattr(self, '_multi', None)
        if mp is not None and self._multi_n == len(self.actors.classes):
            return mp
        specs = self.cfg['classes']
        paths = {}               # (ancestor, cls) -> number of paths

        def npaths(a, c):
            if a == c:
                return 1
            k = (a, c)
            if k not in paths:
                paths[k] = sum(npaths(a, b) for b in specs[c]['bases'])
            return paths[k]
        mp = {}
        for a in self.actors.classes:
            for c in self.actors.classes:
                if c != a and npaths(a, c) >= 2:
                    mp.setdefault(a, set()).add(c)
        self._multi, self._multi_n = mp, len(self.actors.classes)
        return mp

    # ---- non-trivial rule per property
    def nontrivial(self):
        p, pr = self.prop, self.probes
        if p == 'C01':
            return self.mut_ops >= 3 and bool(
                pr['detach_route.replace'] or (pr['explicit_id'] and
                                               pr['auto_id_in_explicit_pool'])
                or pr['process_with_nonempty_dead']
                or ('cleared' in self.flags
                    and self.mut_ops > getattr(self, 'cleared_at', 0)))
        if p == 'C02':
            return len(self.routes) >= 2 or bool(
                (pr['attach_while_disabled'] or pr['detach_while_disabled'])
                and pr['postponed_callback'])
        if p == 'C05':
            touched = sum(v for k, v in pr.items() if k.startswith('touch.'))
            return bool(touched and getattr(self, 'frames', 0))
        if p == 'C06':
            return bool(pr['diamond_query']
                        or pr['exact_and_subtype_both_attached'])
        if p == 'C07':
            return bool((len(self.procs) >= 3 and pr['tie_priority'] and (
                pr['explicit_zero_over_nonzero_default']
                or pr['explicit_negative'])) or pr['replace_then_frame'])
        return False


def execute(scenario, prop, tolerate=frozenset()):
    it = Interp(scenario, prop, tolerate)
    violation = None
    idx = -1
    s0 = kernel.StepBudget.total
    try:
        it.sweep()
        for idx, op in enumerate(scenario['ops']):
            it.exec_op(op)
            if it.terminal:
                break
    except Violation as v:
        violation = v.to_json()
        violation['op'] = idx
    except (Boom, Crash):
        violation = {'props': ['HARNESS'], 'kind': 'boom_escaped',
                     'detail': 'injected exception escaped', 'op': idx}
    it.stats['steps'] = kernel.StepBudget.total - s0
    return {'violation': violation, 'digest': it.trace.digest(),
            'nontrivial': it.nontrivial(), 'probes': dict(it.probes),
            'faults': dict(it.faults), 'known': dict(it.known),
            'stats': dict(it.stats), 'trace_tail': it.trace.tail(30)}


# --------------------------------------------------------------------------
# generation (seeded, swarm-configured, state-aware through a shadow state)

DECOS = [
    None,
    {'names': ['on_add', 'on_remove', 'probe']},
    {'names': ['probe']},
    {'names': ['on_add', 'probe']},
    {'names': ['on_remove']},
    {'maps': {'on_add': 'attached', 'on_remove': 'detached',
              'probe': 'probed'}},
]
PDECOS = [None, {'names': ['on_add', 'on_remove']}, {'names': ['probe']},
          {'names': ['on_add']}, {'names': ['on_remove', 'probe']}]
ID_POOL = [1, 2, 3, 4, 0, 'a', '', [1, 2], 5, {'none': 1}, {'q': 1}, {'q': 2},
           {'cx': [1, 2]}, {'cx': [0, 1]},
           {'fs': [1]}, {'fs': [2]}, [1, 'a'], ['a', 1]]
DTS = [0, 0.25, 0.5, 1, 2, 7]

WEIGHTS = {
    'C01': dict(create=3, create_id=2, add=3, add_replace=2, remove=2,
                delete=1.5, delete_now=1, touch=.5, process=1.5, clear=.5,
                disable=.3, enable=.5, probe=.2, add_proc=.3,
                remove_proc=.1, defclass=.3),
    'C02': dict(create=3, create_id=1, add=3, add_replace=2, remove=2.5,
                delete=1.5, delete_now=1.5, touch=.5, process=1.5, clear=.8,
                disable=1.5, enable=2, probe=1.2, add_proc=.2,
                remove_proc=.1, defclass=.1, forget=.7, unregister=.3),
    'C05': dict(create=3, create_id=1, add=2, add_replace=1, remove=1.5,
                delete=3.5, delete_now=.8, touch=4, process=3.5, clear=.2,
                disable=.4, enable=.6, probe=.2, add_proc=1, remove_proc=.1,
                defclass=.1, ghost=.25, unregister=.4, forget=.2),
    'C06': dict(create=4, create_id=1, add=4, add_replace=1, remove=3,
                delete=.7, delete_now=.7, touch=.2, process=.7, clear=.2,
                disable=.1, enable=.2, probe=.1, add_proc=2, remove_proc=1.2,
                defclass=1, side_add=.3),
    'C07': dict(create=1, create_id=.2, add=.6, add_replace=.2, remove=.4,
                delete=.3, delete_now=.2, touch=.1, process=3.5, clear=.4,
                disable=.6, enable=.9, probe=.6, add_proc=5, remove_proc=1.6,
                defclass=0, side_add=.5, forget_proc=.7),
}


def gen_config(prop, rng):
    shape = rng.choice(['chain', 'tree', 'diamond', 'diamond'] if prop == 'C06'
                       else ['chain', 'tree', 'tree', 'diamond'])
    ncls = rng.randint(3, 8) if prop != 'C07' else rng.randint(1, 3)
    handler_p = {'C01': .4, 'C02': .8, 'C05': .6, 'C06': .3, 'C07': 0}[prop]
    if prop == 'C07' and rng.random() < .1:
        handler_p = .7      # components whose callbacks change the
                            # processor set
    classes = []
    ladder = prop == 'C06' and rng.random() < .03
    if ladder:
        # a ladder of diamonds: A0; Bk(Ak), Ck(Ak), Ak+1(Bk, Ck) - the number
        # of inheritance paths doubles with every rung - next to an
        # unrelated root class Z
        rungs = rng.randint(15, 17)
        classes.append({'bases': [], 'deco': None})          # A0
        top = 0
        for _ in range(rungs):
            classes.append({'bases': [top], 'deco': None})
            classes.append({'bases': [top], 'deco': None})
            classes.append({'bases': [len(classes) - 1, len(classes) - 2],
                            'deco': None})
            top = len(classes) - 1
        classes.append({'bases': [], 'deco': None})          # Z
        ncls = 0
    for i in range(ncls):
        if i == 0:
            bases = []
        elif shape == 'chain':
            bases = [i - 1] if rng.random() < .8 else []
        elif shape == 'tree':
            bases = [rng.randrange(i)] if rng.random() < .85 else []
        else:
            r = rng.random()
            k = 1 if r < .4 or i < 2 else (2 if r < .9 or i < 3 else 3)
            bases = sorted(rng.sample(range(i), k), reverse=True)
        deco = rng.choice(DECOS[1:]) if rng.random() < handler_p else None
        spec = {'bases': bases, 'deco': deco}
        if deco is None and not bases and handler_p and rng.random() < .25:
            spec['inst_events'] = rng.choice([
                ['on_add', 'on_remove', 'probe'], ['on_remove'],
                ['on_add', 'on_remove'], ['probe', 'on_remove']])
        if rng.random() < .12:
            # container-like components that are falsy when queried
            spec['falsy'] = rng.choice(['bool', 'len'])
        if handler_p and rng.random() < .1:
            spec['inst_cb'] = True      # callbacks are instance attributes
        if rng.random() < .12:
            # components with value equality: the world tells objects apart
            # by identity whatever they compare like
            spec['eq'] = rng.choice(['equal', 'unhashable'])
        if rng.random() < .15:
            spec['virtual'] = True      # registered with an ABC
        if i and rng.random() < .06:
            spec['fake_class'] = rng.randrange(i)
        if not bases and handler_p and rng.random() < .2:
            spec['ctrl'] = True
        if bases and prop in ('C01', 'C06') and rng.random() < .15:
            spec['late'] = True
        if prop in ('C01', 'C06') and rng.random() < .05:
            spec['abstract'] = True
        if prop == 'C02' and not bases and rng.random() < .06:
            spec['also_proc'] = True
        elif prop in ('C01', 'C06') and not bases and rng.random() < .06:
            spec['falsy_cls'] = True
        classes.append(spec)
    insts = []
    if ladder:
        insts = [0, len(classes) - 2, len(classes) - 1, len(classes) - 1, 1]
        ncls = len(classes)
    for i in range(ncls if not ladder else 0):
        insts += [i] * rng.choice([1, 2, 2, 3] if ncls <= 4 else [1, 1, 2])
    rng.shuffle(insts)
    insts = insts[:14]
    npc = rng.randint(2, 5) if prop in ('C07', 'C06') else rng.randint(1, 3)
    many = prop == 'C07' and rng.random() < .04
    if many:
        npc = rng.randint(18, 24)       # thresholds of "small list" tricks
    pclasses = []
    for i in range(npc):
        if i == 0 or rng.random() < .4:
            bases = []
        elif prop == 'C06' and i >= 2 and rng.random() < .4:
            bases = sorted(rng.sample(range(i), 2), reverse=True)
        else:
            bases = [rng.randrange(i)]
        prio = rng.choice([None, None, -2, -1, 0, 1, 2])
        deco = None
        if prop != 'C02' and rng.random() < (.6 if prop == 'C07' else .3):
            deco = rng.choice(PDECOS[1:])
        pclasses.append({'bases': bases, 'prio': prio, 'deco': deco})
        if prop in ('C06', 'C07') and rng.random() < .05:
            pclasses[-1]['abstract'] = True
        if prop == 'C07' and rng.random() < .08:
            pclasses[-1]['posonly'] = True
    pinsts = []
    for i in range(npc):
        pinsts += [i] * rng.choice([1, 2])
    ids = [x for x in ID_POOL if rng.random() < .75] or [1, 2]
    if rng.random() > .12:      # (ids whose hash queries the world: rarely)
        ids = [x for x in ids if not (isinstance(x, dict) and 'q' in x)] \
            or [1, 2]
    faults = [f for f in ('raise', 'ghost') if rng.random() < .5]
    if rng.random() < 1 / 3:
        faults = []
    return {'peq': prop == 'C07' and rng.random() < .25, 'many_procs': many,
            'pord': prop == 'C07' and rng.random() < .15,
            'ladder': ladder,
            'peek': rng.random() < .4,
            'query_object': prop in ('C01', 'C06') and rng.random() < .04,
            'idgen': (rng.choice([2, 3, 4, 6])
                      if prop in ('C01', 'C05') and rng.random() < .12
                      else None),
            'policy': rng.choice(kernel.POLICIES), 'classes': classes,
            'insts': insts, 'pclasses': pclasses, 'pinsts': pinsts,
            'ids': ids, 'faults': faults, 'shape': shape}


class Shadow:
    """Generator-side approximation of the world state."""

    def __init__(self, cfg):
        self.cfg = cfg
        self.rows = {}
        self.where = {}
        self.dead = set()
        self.procs = []
        self.auto = 0
        self.defined = {i for i, c in enumerate(cfg['classes'])
                        if not c.get('late')}
        self.pcalls = Counter()

    def key(self, eid):
        return dec_id(eid)

    def free_insts(self):
        return [i for i, c in enumerate(self.cfg['insts'])
                if i not in self.where and c in self.defined]

    def next_auto(self):
        n = self.cfg.get('idgen')
        if n:                       # cycle(range(1, n + 1)), skipping used
            for _ in range(2 * n):
                self.auto = self.auto % n + 1
                if self.auto not in self.rows:
                    return self.auto
            return None
        self.auto += 1
        while self.auto in self.rows:
            self.auto += 1
        return self.auto

    def apply(self, op):
        n = op[0]
        if n == 'create':
            eid = self.next_auto() if op[1] is None else self.key(op[1])
            if eid is None:
                return              # id pool exhausted: the op is skipped
            for i in op[2]:
                if i in self.where:
                    return
            for i in op[2]:
                row = self.rows.setdefault(eid, {})
                old = row.get(self.cfg['insts'][i])
                if old is not None:
                    self.where.pop(old, None)
                row[self.cfg['insts'][i]] = i
                self.where[i] = eid
        elif n == 'add':
            eid, i = self.key(op[1]), op[2]
            if i in self.where:
                return
            row = self.rows.setdefault(eid, {})
            old = row.get(self.cfg['insts'][i])
            if old is not None:
                self.where.pop(old, None)
            row[self.cfg['insts'][i]] = i
            self.where[i] = eid
        elif n == 'remove':
            eid, ci = self.key(op[1]), op[2]
            row = self.rows.get(eid, {})
            cand = [c for c in row if c == ci] or [
                c for c in row if ci == -1 or self.is_sub(c, ci)]
            if cand:
                self.where.pop(row.pop(cand[0]), None)
                if not row:
                    self.rows.pop(eid, None)
                    self.dead.discard(eid)
        elif n == 'delete':
            if self.key(op[1]) in self.rows:
                self.dead.add(self.key(op[1]))
        elif n == 'delete_now':
            row = self.rows.pop(self.key(op[1]), {})
            for i in row.values():
                self.where.pop(i, None)
            self.dead.discard(self.key(op[1]))
        elif n == 'process':
            for eid in list(self.dead):
                for i in self.rows.pop(eid, {}).values():
                    self.where.pop(i, None)
            self.dead.clear()
        elif n == 'clear':
            self.rows.clear()
            self.where.clear()
            self.dead.clear()
            self.procs = []
            self.auto = 0
        elif n == 'add_proc':
            pc = self.cfg['pinsts'][op[1]]
            self.procs = [j for j in self.procs
                          if self.cfg['pinsts'][j] != pc] + [op[1]]
        elif n == 'remove_proc':
            for j in self.procs:
                if op[1] in (-1, self.cfg['pinsts'][j]):
                    self.procs.remove(j)
                    break
        elif n == 'defclass':
            self.defined.add(op[1])

    def is_sub(self, c, a):
        if c == a:
            return True
        return any(self.is_sub(b, a) for b in self.cfg['classes'][c]['bases'])

    def ancestors(self, c):
        out = set()
        for b in self.cfg['classes'][c]['bases']:
            out.add(b)
            out |= self.ancestors(b)
        return out


def gen_op(kind, sh, rng, cfg, state):
    ids = cfg['ids']
    free = sh.free_insts()
    live = list(sh.rows)

    def enc(eid):
        if eid is None:
            return {'none': 1}
        if isinstance(eid, QueryingId):
            return {'q': eid.n}
        if isinstance(eid, complex):
            return {'cx': [int(eid.real), int(eid.imag)]}
        if isinstance(eid, frozenset):
            return {'fs': sorted(eid)}
        return [enc(x) for x in eid] if isinstance(eid, tuple) else eid

    def some_id(p_live=.8):
        if live and rng.random() < p_live:
            return enc(rng.choice(live))
        return rng.choice(ids)

    if kind in ('create', 'create_id'):
        k = rng.choice([0, 1, 1, 2, 2, 3])
        picked, seen = [], set()
        for i in rng.sample(free, len(free)):
            c = cfg['insts'][i]
            if c in seen and rng.random() > .06:
                continue
            seen.add(c)
            picked.append(i)
            if len(picked) >= k:
                break
        eid = None if kind == 'create' else rng.choice(
            [x for x in ids if x != {'none': 1}] or [1])
        return ['create', eid, picked]
    if kind == 'add':
        if not free:
            return None
        return ['add', some_id(), rng.choice(free)]
    if kind == 'add_replace':
        cands = [(e, c) for e, row in sh.rows.items() for c in row]
        rng.shuffle(cands)
        for e, c in cands:
            same = [i for i in free if cfg['insts'][i] == c]
            if same:
                return ['add', enc(e), rng.choice(same)]
        return None
    if kind == 'remove':
        r = rng.random()
        cands = [(e, c) for e, row in sh.rows.items() for c in row]
        if cands and r < .85:
            e, c = rng.choice(cands)
            if r > .55:
                anc = sorted(sh.ancestors(c) & sh.defined)
                c = rng.choice(anc) if anc else (-1 if r > .8 else c)
            return ['remove', enc(e), c]
        return ['remove', some_id(.5), rng.choice(sorted(sh.defined))]
    if kind == 'delete':
        r = rng.random()
        alive = [e for e in live if e not in sh.dead]
        if alive and r < .75:
            return ['delete', enc(rng.choice(alive))]
        if sh.dead and r < .9:
            return ['delete', enc(rng.choice(sorted(sh.dead, key=repr)))]
        return ['delete', some_id(.3)]
    if kind == 'delete_now':
        return ['delete_now', some_id(.75)]
    if kind == 'touch':
        dead = [e for e in sorted(sh.dead, key=repr) if e in sh.rows]
        if not dead:
            return None
        e = rng.choice(dead)
        r = rng.random()
        row = sh.rows[e]
        if r < .35:
            return ['remove', enc(e), rng.choice(list(row))]
        if r < .5:
            return ['remove', enc(e), -1]
        if r < .7 and free:
            return ['add', enc(e), rng.choice(free)]
        if r < .8:
            return ['delete', enc(e)]
        if r < .9:
            return ['delete_now', enc(e)]
        return ['remove', enc(e), rng.choice(list(row))]
    if kind == 'process':
        return ['process', rng.choice(DTS)]
    if kind in ('clear', 'disable', 'enable'):
        return [kind]
    if kind == 'probe':
        state['token'] += 1
        return ['probe', state['token']]
    if kind == 'add_proc':
        pi = rng.randrange(len(cfg['pinsts']))
        prio = None if rng.random() < .4 else rng.randint(-2, 2)
        if prio is not None and rng.random() < .08:
            prio = rng.choice([100, -50, 2 ** 40, -3, 7])
        return ['add_proc', pi, prio]
    if kind == 'side_add':
        return ['side_add', rng.randrange(len(cfg['pinsts'])),
                rng.choice([-3, -1, 0, 1, 2, 3, 5, 9])]
    if kind == 'remove_proc':
        return ['remove_proc', rng.choice([-1] + list(
            range(len(cfg['pclasses']))))]
    if kind == 'forget_proc':
        out = [i for i in range(len(cfg['pinsts'])) if i not in sh.procs]
        return ['forget_proc', rng.choice(out)] if out else None
    if kind == 'defclass':
        late = [i for i, c in enumerate(cfg['classes'])
                if c.get('late') and i not in sh.defined]
        return ['defclass', rng.choice(late)] if late else None
    if kind == 'forget':
        # the program drops its own reference to a detached component
        return ['forget', rng.choice(free)] if free else None
    if kind == 'unregister':
        att = sorted(sh.where)
        return ['unregister', rng.choice(att)] if att else None
    if kind == 'ghost':
        if 'ghost' not in cfg['faults']:
            return None
        g = [x for x in ids if dec_id(x) not in sh.rows
             and not isinstance(x, int)]
        return ['ghost', rng.choice(g)] if g else None
    return None


NESTED = ['create', 'add', 'add_replace', 'remove', 'delete', 'delete_now',
          'touch', 'probe', 'disable', 'enable', 'process', 'delete']


def generate(prop, run_seed, tier='quick', tolerate=frozenset()):
    crng = kernel.stream(run_seed, 'cfg')
    rng = kernel.stream(run_seed, 'gen')
    cfg = gen_config(prop, crng)
    weights = dict(WEIGHTS[prop])
    for k in list(weights):
        if k not in ('create', 'process') and crng.random() < .25:
            weights[k] = 0
    kinds = [k for k, v in weights.items() if v > 0]
    wts = [weights[k] for k in kinds]
    deep = tier == 'thorough'       # thorough: longer histories too
    n = min(200 if deep else 80,
            3 + int(crng.expovariate(1 / (24 if deep and crng.random() < .5
                                          else 12))))
    script_p = crng.choice([0, .2, .5])
    fault_left = crng.randint(1, 3) if 'raise' in cfg['faults'] else 0
    sh = Shadow(cfg)
    state = {'token': 0}
    ops, scripts = [], {}
    if cfg.get('many_procs'):
        # every processor type registered, priorities full of ties
        order = list(range(len(cfg['pinsts'])))
        crng.shuffle(order)
        seen = set()
        for pi in order:
            if cfg['pinsts'][pi] in seen:
                continue
            seen.add(cfg['pinsts'][pi])
            op = ['add_proc', pi, crng.choice([None, 0, 1, 0, 1, -1])]
            ops.append(op)
            sh.apply(op)
        ops.append(['process', 1])
        sh.apply(ops[-1])
        n += len(ops)
    if prop in ('C06', 'C01') and crng.random() < .15:
        # classes whose bases are assigned later on (plain ones only:
        # neither they nor their relatives are event handlers)
        specs = cfg['classes']

        def handler(c):
            return bool(specs[c].get('deco') or specs[c].get('inst_events')
                        or specs[c].get('inst_cb') or specs[c].get('ctrl')
                        or specs[c].get('fake_class') is not None)
        related = {c: sh.ancestors(c) | {c} for c in range(len(specs))}
        safe = [c for c in range(1, len(specs)) if not any(
            handler(x) for x in range(len(specs))
            if x in related[c] or c in related[x])]
        cfg['rebase'] = []
        for _ in range(crng.randint(1, 2)):
            if not safe:
                break
            c = crng.choice(safe)
            pool = [b for b in range(c) if b in safe or not handler(b)
                    and not any(handler(x) for x in related[b])]
            if not pool:
                continue
            cfg['rebase'].append(['rebase', c, sorted(crng.sample(
                pool, min(len(pool), crng.choice([1, 1, 2]))), reverse=True)])
    spam = None
    if prop == 'C07':
        r_spam = crng.random()
        if r_spam < .01 or (tier == 'thorough' and r_spam < .011):
            # a long life: very many add_processor calls somewhere in the
            # middle of the history
            spam = ['spam_add', 2 ** 20 + 3 if r_spam >= .01
                    else crng.choice([300, 5000])]
    tries = 0
    while len(ops) < n and tries < n * 6:
        tries += 1
        kind = rng.choices(kinds, wts)[0]
        op = gen_op(kind, sh, rng, cfg, state)
        if op is None:
            continue
        ops.append(op)
        if op[0] == 'process' and sh.procs:
            for pi in list(sh.procs):
                cnt = sh.pcalls[pi]
                sh.pcalls[pi] += 1
                if rng.random() < script_p:
                    script = []
                    for _ in range(rng.randint(1, 3)):
                        nop = gen_op(rng.choice(NESTED), sh, rng, cfg, state)
                        if nop is not None:
                            script.append(nop)
                            sh.apply(nop)
                    if fault_left and rng.random() < .3:
                        script.append(['raise'] if rng.random() < .7
                                      else ['raise', 'crash'])
                        fault_left -= 1
                    if script:
                        scripts[f'proc:{pi}:{cnt}'] = script
        sh.apply(op)
    if prop == 'C06' and crng.random() < .01:
        ops.insert(crng.randint(0, len(ops)),
                   ['deep_query', crng.choice([300, 1000, 1500, 2500])])
    if prop == 'C02' and crng.random() < .08:
        # a component that listens to on_add only is attached and detached
        # while dispatching is disabled, and the program forgets it: the
        # postponed on_add is owed all the same
        cands = [i for i, c in enumerate(cfg['insts'])
                 if 'on_add' in (cfg['classes'][c].get('deco') or {}).get(
                     'names', [])
                 and 'on_remove' not in cfg['classes'][c]['deco']['names']
                 and not cfg['classes'][c].get('bases')]
        if cands:
            i = crng.choice(cands)
            e = crng.choice(cfg['ids'])
            k = crng.randint(0, len(ops))
            ops[k:k] = [['disable'], ['add', e, i],
                        ['remove', e, cfg['insts'][i]], ['forget', i],
                        ['enable']]
    if prop == 'C05' and crng.random() < .05 and 'ghost' not in cfg['faults']:
        # the only component of an entity awaiting deletion is replaced, and
        # the replaced component's on_remove runs a frame (terminal for the
        # model: process() completes, that is all)
        by_cls = {}
        for i, c in enumerate(cfg['insts']):
            d_ = cfg['classes'][c].get('deco') or {}
            if ('on_remove' in d_.get('names', []) or 'on_remove' in d_.get(
                    'maps', {})) and not cfg['classes'][c].get('ctrl') \
                    and not cfg['classes'][c].get('late'):
                by_cls.setdefault(c, []).append(i)
        pairs = [v for v in by_cls.values() if len(v) >= 2]
        if pairs:
            i, j = crng.choice(pairs)[:2]
            e = crng.choice([x for x in cfg['ids'] if isinstance(x, int)
                             and x] or [1])
            ops = [['create', e, [i]], ['delete', e], ['add', e, j]] + ops
            scripts[f'dl:c{i}:on_remove:0'] = [['process_now', 1]]
    if prop == 'C05' and crng.random() < (.02 if tier == 'thorough'
                                          else .003):
        ops.insert(crng.randint(0, len(ops)),
                   ['mass_delete', crng.choice([2 ** 15 + 9, 2 ** 16 + 5,
                                                4099, 70000])])
    for rb in cfg.pop('rebase', []) if isinstance(cfg.get('rebase'), list) \
            else []:
        ops.insert(crng.randint(len(ops) // 3, len(ops)), rb)
    if spam is not None:
        # processors of different types registered before it with priorities
        # one above those of processors registered after it
        firsts = {}
        for pi, pc in enumerate(cfg['pinsts']):
            firsts.setdefault(pc, pi)
        types = sorted(firsts.values())
        before = [['add_proc', pi, q] for pi, q in zip(types[0::2], (1, 3))]
        after = [['add_proc', pi, q] for pi, q in zip(types[1::2], (0, 2))]
        k = crng.randint(len(ops) // 3, len(ops))
        ops[k:k] = before + [spam] + after + [['process', 1]]
    # re-entry from callbacks of a release (silent batches)
    if crng.random() < {'C02': .4, 'C05': .1, 'C01': .1}.get(prop, 0):
        hs = [i for i in range(len(cfg['insts']))]
        for i in rng.sample(hs, min(len(hs), rng.randint(1, 3))):
            k = rng.choice([0, 0, 1])
            body = []
            for _ in range(rng.randint(1, 2)):
                nop = gen_op(rng.choice(['add', 'add_replace', 'remove',
                                         'create', 'delete_now', 'probe']),
                             sh, rng, cfg, state)
                if nop is not None:
                    body.append(nop)
            if not body:
                continue
            r = rng.random()
            if r < .6:
                body = [['disable']] + body + [['enable']]
            elif r < .7:
                # the callback leaves dispatching switched off: whatever
                # the interrupted operation still owes is postponed
                body = [['disable']] + body if r < .65 else body + [['disable']]
            scripts[f'lc:c{i}:{k}'] = body
    if prop == 'C05' and crng.random() < .06:
        # the direct on_remove of a replaced / removed component runs a
        # frame (terminal for the model)
        for i in rng.sample(range(len(cfg['insts'])),
                            min(len(cfg['insts']), rng.randint(2, 5))):
            scripts[f'dl:c{i}:on_remove:{rng.choice([0, 0, 1])}'] = [
                ['process_now', 1]]
    if crng.random() < {'C02': .3, 'C01': .05}.get(prop, 0):
        for i in rng.sample(range(len(cfg['insts'])),
                            min(len(cfg['insts']), rng.randint(1, 4))):
            scripts[f'dl:c{i}:{rng.choice(["on_remove", "on_remove", "on_add"])}'
                    f':{rng.choice([0, 0, 1, 2])}'] = [['disable']]
    # cascades: an on_remove callback asks for the deferred deletion of
    # another entity while the deletion pass of process() is running
    cascade_p = {'C05': .45, 'C02': .15, 'C01': .1}.get(prop, 0)
    if crng.random() < cascade_p:
        handlers = [i for i, c in enumerate(cfg['insts'])
                    if cfg['classes'][c].get('deco')
                    or cfg['classes'][c].get('ctrl')
                    or cfg['classes'][c]['bases']]
        for i in rng.sample(handlers, min(len(handlers), rng.randint(1, 3))):
            for k in range(rng.randint(1, 2)):
                scripts[f'rm:c{i}:{k}'] = [
                    (['delete', rng.choice(cfg['ids'])]
                     if rng.random() < .6 else
                     ['reap_now', rng.choice(cfg['ids']),
                      rng.choice(['delete', 'strip'])])
                    for _ in range(rng.randint(1, 2))]
    if cfg['pinsts'] and crng.random() < (
            .8 if prop == 'C07' and any(c.get('deco') for c in cfg['classes'])
            else {'C05': .02}.get(prop, 0)):
        # ... or changes the set of processors (none has run yet)
        hs = [i for i, c in enumerate(cfg['insts'])]
        for i in rng.sample(hs, min(len(hs), rng.randint(1, 3))):
            scripts[f'rm:c{i}:{rng.choice([0, 0, 1])}'] = [
                gen_op(rng.choice(['add_proc', 'remove_proc']), sh, rng,
                       cfg, state)]
    if crng.random() < {'C05': .08, 'C07': .02}.get(prop, 0):
        # ... or runs a whole frame itself
        hs = [i for i, c in enumerate(cfg['insts'])]
        for i in rng.sample(hs, min(len(hs), rng.randint(1, 3))):
            body = [['process_now', rng.choice(DTS)]]
            if rng.random() < .6:
                body.insert(0, ['delete', rng.choice(cfg['ids'])])
            scripts[f'rm:c{i}:{rng.choice([0, 0, 1])}'] = body
    if crng.random() < {'C05': .06, 'C01': .04, 'C02': .04}.get(prop, 0):
        # ... or clears the whole world
        hs = [i for i, c in enumerate(cfg['insts'])]
        for i in rng.sample(hs, min(len(hs), rng.randint(1, 3))):
            scripts[f'rm:c{i}:{rng.choice([0, 0, 1])}'] = [['clear_all']]
    return {'format': 1, 'engine': 'world', 'config': cfg, 'ops': ops,
            'scripts': scripts}


def simplify(sc):
    import copy
    if sc['config'].get('policy') != 'fifo':
        c = copy.deepcopy(sc)
        c['config']['policy'] = 'fifo'
        yield c
    for k, op in enumerate(sc['ops']):
        if op[0] == 'process' and op[1] != 1:
            c = copy.deepcopy(sc)
            c['ops'][k][1] = 1
            yield c
        if op[0] == 'create' and len(op[2]) > 1:
            for j in range(len(op[2])):
                c = copy.deepcopy(sc)
                del c['ops'][k][2][j]
                yield c


# --------------------------------------------------------------------------
# evidence metadata

_COMPONENTS = {
    'real': ['desper.logic.world.World (every public method)',
             'desper.events.EventDispatcher', 'desper.events.event_handler',
             'desper.bisect', 'desper.logic.Controller'],
    'stub': ['component / processor bodies (scripted actors)',
             'set iteration order (SimSet seam)', 'garbage collector '
             '(disabled during a run)'],
}
_ASSUME = [
    'reference model WorldModel (sim/engines/world.py) is hand-written from '
    'the property statements and is part of the trusted base',
    'states are tiny: <= 9 entity ids, <= 8 component classes, <= 5 '
    'processor classes, <= 80 operations per history',
    'lifecycle callbacks only record (they do not re-enter the world): '
    'DESIGN.md section 5',
    'sampling, not enumeration: a clean batch is evidence, not proof',
]
INFO = {
    'C01': {'rule': 'seeded op histories (create/add/replace/remove/deferred+'
            'immediate delete/process/clear, top level and from inside '
            'processors) with a full query sweep after every op; non-trivial '
            '= >=3 effective mutating ops and (replacement | explicit and '
            'automatic id in one history | process with pending deletions | '
            'clear followed by reuse); distinct = distinct trace digests',
            'components': _COMPONENTS, 'assumptions': _ASSUME},
    'C02': {'rule': 'C01 histories plus dispatch_enabled toggles and probe '
            'events; per-op callback groups compared with the model; '
            'non-trivial = handler components detached by >=2 different '
            'routes, or attach/detach while disabled followed by an enable; '
            'distinct = distinct trace digests',
            'components': _COMPONENTS, 'assumptions': _ASSUME},
    'C05': {'rule': 'request -> touch -> frame(s) histories; non-trivial = '
            '>=1 deferred request followed by >=1 touch of the same entity '
            'and >=1 frame; faults: processor raising mid-frame, '
            'out-of-premise request (documented KeyError frame) followed by '
            'more frames; distinct = distinct trace digests',
            'components': _COMPONENTS, 'assumptions': _ASSUME},
    'C06': {'rule': 'per-run random class DAG (chains, trees, diamonds, '
            'three bases, late subclasses) as configuration; non-trivial = a '
            'query by a type with >=2 inheritance paths to an attached '
            'subtype, or by a base type with exact and subtype matches both '
            'attached; distinct = distinct trace digests. No fault dimension '
            'of its own (DESIGN.md section 3 C06)',
            'components': _COMPONENTS, 'assumptions': _ASSUME},
    'C07': {'rule': 'add_processor/remove_processor/process histories with '
            'ties, zero and negative priorities, replacement, class '
            'hierarchies; non-trivial = >=3 processors with a tie and an '
            'explicit 0/negative priority, or a replacement followed by a '
            'frame; distinct = distinct trace digests',
            'components': _COMPONENTS, 'assumptions': _ASSUME},
}
for _v in INFO.values():
    _v['rule'] += (
        '; swarm dimensions (see probes): falsy / equal / unhashable components, components whose __class__ lies, instance-level __events__ and callbacks, virtual subclasses, late subclasses, queries by object, ladders of diamonds, recycling id generators, unorderable ids, components only the world references, remove_handler by hand, callbacks that peek at the world, on_remove callbacks that finish off other pending entities (also during clear), nested process(), 18-24 processor types, 2**20 insertions (thorough), processors with __eq__ and with priorities changed while registered, direct callbacks that switch dispatching off or run a frame, removal callbacks of the deletion pass that clear the world / run a frame / change the processor set, classes flagged abstract, processors nobody else refers to, components that are processors too, __bases__ assignment, BaseException faults, processors with an ordering of their own, 4099-70000 deferred deletions in one frame, on_add-only components forgotten while their on_add is postponed, the id None, ids whose hash queries the world, falsy component classes, methods named like events that are mapped elsewhere, positional-only process(), class chains of 300-2500 levels')
PROBES = {
    'C01': ['detach_route.replace', 'replace_only_component_of_type',
            'auto_id_in_explicit_pool', 'explicit_id', 'get_by_base_type',
            'remove_by_base_type', 'process_with_nonempty_dead',
            'late_subclass_created'],
    'C02': ['detach_route.remove', 'detach_route.replace',
            'detach_route.deferred', 'detach_route.immediate',
            'detach_route.clear', 'attach_while_disabled',
            'detach_while_disabled', 'enable_with_pending>=2',
            'clear_while_disabled', 'handler_without_on_remove_detached',
            'same_instance_reattached', 'probe_delivered',
            'reentry_from_release_callback', 'nested_enable_in_release'],
    'C05': ['touch.remove_last_component', 'touch.remove_some', 'touch.add',
            'touch.delete_again', 'touch.delete_immediate',
            'frames_after_failure', 'reap>=2_entities_one_frame',
            'pending_entity_finished_by_on_remove',
            'request_in_processor', 'request_in_on_remove',
            'frame_failed_by_processor', 'nested_process'],
    'C06': ['diamond_query', 'exact_and_subtype_both_attached',
            'late_subclass_created',
            'remove_by_base_with_two_subtype_matches',
            'remove_proc_by_base_type'],
    'C07': ['tie_order_checked', 'explicit_zero_over_nonzero_default',
            'insert_middle', 'replace_then_frame', 'remove_proc_by_base_type',
            'readd_same_instance', 'explicit_negative',
            'priority_changed_while_registered'],
}

"""Coroutine engine: C08, C09 (DESIGN.md section 3).

A real CoroutineProcessor is driven frame by frame with generated dt
(virtual time; nothing sleeps), directly or as a processor of a World.
Scripted generator bodies start/kill/inspect other coroutines (and
themselves) from inside their steps.  A predictive model says which
coroutine must advance in which frame.
"""
import collections
import copy
import sys
from fractions import Fraction

from .. import kernel
from ..kernel import Violation, SimHang

Counter = collections.Counter
OP_BUDGET = 40000


def dec(v):
    if isinstance(v, list) and v and v[0] == 'F':
        return Fraction(v[1], v[2])
    if isinstance(v, list) and v and v[0] == 'D':
        import decimal
        return decimal.Decimal(v[1])
    if v == 'N':
        return None
    return v


class Interp:
    def __init__(self, scenario, prop, tolerate):
        self.sc, self.cfg = scenario, scenario['config']
        self.prop = prop
        self.trace = kernel.Trace()
        self.probes, self.faults = Counter(), Counter()
        self.known, self.stats = Counter(), Counter()
        self.desper = d = kernel.begin_run(
            'fifo', kernel.stream(scenario.get('run_seed', 0), 'sched'),
            0, self.trace)
        self.cp = d.CoroutineProcessor()

        class SecondProcessor(d.CoroutineProcessor):
            priority = 1
        self.cp2 = SecondProcessor()    # coroutines can be handed over
        self.cp3 = d.CoroutineProcessor()   # an unrelated, empty processor
        self.owner = {}
        self.dropped = set()
        self.deferred = None
        self.closed = False
        self.norelease = set()
        self.min_release = {}
        self.world = None
        self.saved_loop = d.default_loop
        if self.cfg.get('in_world'):
            it = self

            class Before(d.Processor):
                def process(self, dt):
                    it.trace.add('proc', 'before', repr(dt))

            class After(d.Processor):
                priority = 5

                def process(self, dt):
                    it.trace.add('proc', 'after', repr(dt))
            self.world = w = d.World()
            w.add_processor(Before(), -1)
            w.add_processor(self.cp)
            w.add_processor(self.cp2)
            w.add_processor(After())
            world = w

            class H(d.Handle):
                def load(self):
                    return world
            loop = d.SimpleLoop()
            loop.switch(H())
            d.default_loop = loop

            @d.coroutine
            def launch(c, world=None):
                return it.gens[c]
            self.launch = launch
        n = len(self.cfg['coros'])
        self.gens = {}
        self.base_rc = {}
        for c in range(n):
            self.gens[c] = self.body(c)
            self.base_rc[c] = sys.getrefcount(self.gens[c])
        self.promise = {}
        # model
        self.status = {c: 'T' for c in range(n)}
        self.need = {}
        self.acc = {}
        self.step = {c: 0 for c in range(n)}
        self.finished = set()
        self.ret_seen = {}
        self.release_due = {}       # c -> frame number
        self.ever_restarted = set()
        # frame bookkeeping
        self.frame_no = 0
        self.in_frame = False
        self.advanced = []          # order of advances this frame
        self.expect = {}
        self.prev_order = []
        self.unbroken = set()       # ACTIVE continuously since last advance
        self.costack = []

    # ---- generator bodies
    def body(self, c):
        spec = self.cfg['coros'][c]
        try:
            for k, y in enumerate(spec['yields']):
                self.co_step(c, k)
                yield dec(y)
        except GeneratorExit:
            # clean-up code of a coroutine that goes away (only the
            # processor referred to it): it may kill / start others
            if spec.get('fin') and c in self.dropped and not self.closed:
                self.run_fin(c, spec['fin'])
            raise
        self.co_step(c, len(spec['yields']))
        r = spec.get('ret')
        if r == 'obj':
            r = self.ret_obj(c)
        return r

    def run_fin(self, c, script):
        self.trace.add('fin', c, self.in_frame)
        self.probes['cleanup_code_ran_at_drop'] += 1
        self.faults['kill_or_start_from_cleanup_code'] += 1
        if self.in_frame:
            self.probes['cleanup_code_ran_inside_a_frame'] += 1
        try:
            self.settle_all()           # steps that completed before this
            for op in script:
                self.exec_op(op)
        except Violation as v:          # finalisers cannot propagate
            v.__traceback__ = None
            if self.deferred is None:
                self.deferred = v
        except BaseException as e:
            if self.deferred is None:
                self.deferred = Violation(
                    'C09', 'process_raised', f'clean-up code of c{c}: '
                    f'{type(e).__name__}: {e}')

    def ret_obj(self, c):
        o = ['ret', c]
        self.ret_seen[c] = o
        return o

    def co_step(self, c, k):
        self.trace.add('co', c, k)
        self.settle_all()
        if not self.in_frame:
            self.fail(('C08', 'C09'), 'ran_outside_frame',
                      f'coroutine c{c} advanced outside process()')
        self.advanced.append(c)
        if self.status[c] == 'T':
            self.fail('C09', 'ran_after_kill', f'c{c} step {k} ran in frame '
                      f'{self.frame_no} although it is TERMINATED (killed '
                      f'and not restarted, or never started)')
        if self.status[c] == 'P':
            self.fail(('C08',), 'woke_early', f'c{c} step {k} ran in frame '
                      f'{self.frame_no} while still waiting: accumulated '
                      f'{self.acc.get(c)!r} of {self.need.get(c)!r}')
        if k != self.step[c]:
            kind = 'step_gap' if c not in self.ever_restarted else \
                'resume_point'
            self.fail(('C08', 'C09') if kind == 'step_gap' else ('C09',),
                      kind, f'c{c} ran step {k}, expected step '
                      f'{self.step[c]}')
        self.step[c] = k + 1
        e = self.expect.get(c, 0)
        if e == 0:
            self.fail(('C08', 'C09'), 'advanced_twice' if
                      self.advanced.count(c) > 1 else 'advanced_unexpected',
                      f'c{c} advanced in frame {self.frame_no} '
                      f'(advances this frame: {self.advanced})')
        self.expect[c] = 0 if e in (1, 'le1') else e
        self.done_this_frame.add(c)
        spec = self.cfg['coros'][c]
        # model effect of the value this step is about to yield
        if k < len(spec['yields']):
            y = dec(spec['yields'][k])
            if y is not None and y > 0:
                self.pending_wait[c] = y
        else:
            self.pending_finish.add(c)
        script = self.sc.get('scripts', {}).get(f'co:{c}:{k}')
        if script:
            self.costack.append(c)
            try:
                for op in script:
                    self.exec_op(op)
            finally:
                self.costack.pop()

    def fail(self, props, kind, detail=''):
        raise Violation(props, kind, detail)

    def proc(self, c):
        return self.cp2 if self.owner.get(c) == 2 else self.cp

    def op_handoff(self, op):
        """kill(g) on one processor, start(g) on the other one (the
        documented way to move a coroutine)."""
        c = op[1]
        if self.costack or self.in_frame or self.status[c] == 'T' \
                or c in self.finished:
            return 'skip'
        if self.status[c] == 'P':
            # the old processor keeps its killed-waiter entry until the old
            # deadline: no release expectation for this generator any more
            self.norelease.add(c)
        else:
            self.min_release[c] = self.frame_no + 1
        self.op_kill(['kill', c, 'keep'])
        self.owner[c] = 1 if self.owner.get(c) == 2 else 2
        self.op_start(['start', c])
        self.probes['handed_to_other_processor'] += 1

    def op_aux(self, op):
        """An unrelated CoroutineProcessor (it owns nothing) is processed,
        possibly from inside a coroutine body of another processor."""
        r = self.call(lambda: self.cp3.process(dec(op[1])),
                      'process of an unrelated processor')
        if r[0] == 'exc':
            self.fail(('C08', 'C09'), 'process_raised',
                      f'process() of an empty processor raised {r[1]}')
        if self.costack:
            self.probes['other_processor_run_from_a_body'] += 1

    # ---- operations
    def exec_op(self, op):
        self.stats['ops'] += 1
        self.trace.add('op', len(self.costack), *op)
        if (len(op) > 1 and type(op[1]) is int and op[1] in self.dropped
                and op[0] not in ('frame', 'aux', 'bad')):
            self.stats['skipped'] += 1  # the program let go of that one
            return 'skip'
        r = getattr(self, 'op_' + op[0])(op)
        if r == 'skip':
            self.stats['skipped'] += 1
        if self.deferred is not None and not self.costack \
                and not self.in_frame:
            v, self.deferred = self.deferred, None
            raise v
        return r

    def call(self, thunk, what):
        try:
            with kernel.budget(OP_BUDGET):
                return ('ret', thunk())
        except Violation:
            raise
        except SimHang as e:
            self.fail('C09', 'hang', f'{what}: {e}')
        except Exception as e:
            e.__traceback__ = None      # no frame cycle: refcounts matter
            return ('exc', type(e))

    def settle_all(self):
        """Apply the effects of the steps that have completed (their body
        has yielded or returned): waits begin, finished generators end."""
        overlap = [c for c in self.need if self.status[c] == 'P']
        for c, n in list(self.pending_wait.items()):
            if c in self.costack:
                continue                # still inside that step
            del self.pending_wait[c]
            if self.status[c] == 'A':
                self.status[c] = 'P'
                self.need[c] = n
                self.acc[c] = 0
                self.unbroken.discard(c)
                if overlap:
                    self.probes['wait_started_mid_others'] += 1
                if self.woken_this_frame and not overlap:
                    self.probes['timer_restart_with_new_wait_same_frame'] += 1
                if isinstance(n, Fraction):
                    self.probes['fraction_wait'] += 1
                if n is True:
                    self.probes['bool_wait'] += 1
            elif self.status[c] == 'T':
                # killed inside its own step, then yielded a wait
                self.release_due.pop(c, None)
                self.killed_waiting[c] = (0, n)
        for c in list(self.pending_finish):
            if c in self.costack:
                continue
            self.pending_finish.discard(c)
            self.finished.add(c)
            spec = self.cfg['coros'][c]
            r = spec.get('ret')
            if self.status[c] == 'A':
                self.status[c] = 'T'
                self.value_known[c] = self.ret_seen.get(c) if r == 'obj' \
                    else r
                self.release_due[c] = self.frame_no
                self.unbroken.discard(c)

    def op_start(self, op, via=None):
        c = op[1]
        g = self.gens[c]
        inside_own = c in self.costack
        if via is None:
            r = self.call(lambda: self.proc(c).start(g), f'start(c{c})')
        else:
            r = self.call(via, f'decorated start(c{c})')
            self.probes['decorator_path'] += 1
        st = self.status[c]
        if st == 'A' and c in self.finished:
            # a finished generator that was started again ends silently at
            # its next turn; until the frame is over either answer is right
            if r[0] == 'exc':
                if not issubclass(r[1], ValueError):
                    self.fail('C09', 'wrong_exception', f'start(c{c}) '
                              f'raised {r[1]!r}')
                return
            st = 'T'
        if st in ('A', 'P'):
            if r[0] != 'exc' or not issubclass(r[1], ValueError):
                self.fail('C09', 'start_accepted', f'start(c{c}) on a '
                          f'{st} coroutine: expected ValueError, got {r}')
            self.probes['start_running_rejected'] += 1
            return
        if r[0] == 'exc':
            self.fail('C09', 'wrong_exception', f'start(c{c}) on a '
                      f'TERMINATED coroutine raised {r[1]!r}')
        p = r[1]
        if type(p).__name__ != 'CoroutinePromise' or p.generator is not g:
            self.fail('C09', 'value', f'start(c{c}) returned {p!r}')
        self.promise[c] = p
        if c in self.killed_at:
            self.ever_restarted.add(c)
            gap = self.frame_no - self.killed_at.pop(c)
            if gap == 0:
                self.probes['kill_then_start_same_instant'] += 1
            if c in self.was_paused_when_killed:
                self.probes['kill_waiting_then_start'] += 1
                self.was_paused_when_killed.discard(c)
            self.flags.add('restart_lt2' if gap < 2 else 'restart')
        if c in self.finished:
            self.probes['restart_finished'] += 1
        self.status[c] = 'A'
        self.value_known.pop(c, None)
        self.started_frame[c] = self.frame_no
        self.release_due.pop(c, None)
        self.killed_waiting.pop(c, None)
        self.unbroken.discard(c)
        self.broken.add(c)
        if self.in_frame:
            if c not in self.done_this_frame:
                self.expect[c] = 'le1'
            self.probes['start_inside_body'] += 1
            if self.costack:
                self.flags.add('inside')

    def op_dstart(self, op):
        c, use_default = op[1], op[2]
        if self.world is None or self.owner.get(c) == 2:
            return self.op_start(op)
        if use_default:
            return self.op_start(op, via=lambda: self.launch(c))
        return self.op_start(op, via=lambda: self.launch(c, world=self.world))

    def op_kill(self, op, via_promise=False):
        c = op[1]
        g = self.gens[c]
        if via_promise:
            p = self.promise.get(c)
            if p is None:
                return 'skip'
            r = self.call(lambda: p.kill(), f'promise.kill(c{c})')
        else:
            r = self.call(lambda: self.proc(c).kill(g), f'kill(c{c})')
        st = self.status[c]
        if st == 'A' and c in self.finished:
            if r[0] == 'exc':
                if not issubclass(r[1], ValueError):
                    self.fail('C09', 'wrong_exception', f'kill(c{c}) '
                              f'raised {r[1]!r}')
                self.status[c] = 'T'
                return
        if st == 'T':
            if r[0] != 'exc' or not issubclass(r[1], ValueError):
                self.fail('C09', 'kill_accepted', f'kill(c{c}) on a '
                          f'TERMINATED coroutine: expected ValueError, got '
                          f'{r}')
            self.probes['kill_terminated_rejected'] += 1
            return
        if r[0] == 'exc':
            self.fail('C09', 'wrong_exception', f'kill(c{c}) on a {st} '
                      f'coroutine raised {r[1]!r}')
        self.killed_at[c] = self.frame_no
        if self.costack:
            self.flags.add('inside')
            if self.costack[-1] == c:
                self.probes['self_kill'] += 1
            elif c in self.done_this_frame:
                self.probes['kill_after_victim_ran_this_frame'] += 1
            else:
                self.probes['kill_before_victim_turn'] += 1
        if st == 'P':
            self.was_paused_when_killed.add(c)
            # released no later than the frame its wait would have elapsed:
            # unknown in advance -> tracked by the wake computation
            self.killed_waiting[c] = (self.acc.get(c, 0), self.need.get(c))
            self.need.pop(c, None)
            self.acc.pop(c, None)
        else:
            self.release_due[c] = self.frame_no + (
                0 if (self.in_frame and self.expect.get(c) == 1) else 1)
        self.status[c] = 'T'
        if c not in self.costack:
            self.pending_wait.pop(c, None)
            self.pending_finish.discard(c)
        self.unbroken.discard(c)
        self.broken.add(c)
        if self.in_frame and self.expect.get(c) in (1, 'le1'):
            self.expect[c] = 0 if c not in self.done_this_frame else \
                self.expect[c]
        if (self.cfg['coros'][c].get('fin') and c not in self.costack
                and 'keep' not in op):
            # the program lets go of it: from now on only the processor
            # refers to the generator (its clean-up code runs when the
            # processor drops it)
            self.dropped.add(c)
            self.norelease.add(c)
            self.release_due.pop(c, None)
            self.promise.pop(c, None)
            p = r = g = None
            self.gens[c] = None

    def op_pkill(self, op):
        return self.op_kill(op, via_promise=True)

    def model_state(self, c):
        """Status as the statement defines it, also mid-step."""
        if c in self.pending_wait and self.status[c] == 'A':
            return 'A'      # still executing the step that will yield
        return self.status[c]

    def op_state(self, op, via_promise=False):
        c = op[1]
        S = self.desper.CoroutineState
        want = {'T': S.TERMINATED, 'A': S.ACTIVE, 'P': S.PAUSED}[
            self.model_state(c)]
        zombie = self.status[c] == 'A' and c in self.finished
        if via_promise:
            p = self.promise.get(c)
            if p is None:
                return 'skip'
            r = self.call(lambda: p.state, f'promise.state(c{c})')
        else:
            r = self.call(lambda: self.proc(c).state(self.gens[c]),
                          f'state(c{c})')
        if r[0] == 'exc':
            self.fail('C09', 'wrong_exception', f'state(c{c}) raised '
                      f'{r[1]!r}')
        if zombie and r[1] == S.TERMINATED:
            return
        if (self.costack and c in self.woken_set and r[1] == S.PAUSED
                and self.owner.get(c) == 2
                and self.owner.get(self.costack[-1]) != 2):
            # the second processor wakes its coroutines after the bodies of
            # the first one ran in this frame
            return
        if r[1] != want:
            self.fail('C09', 'state', f'state(c{c}) = {r[1]!r}, expected '
                      f'{want!r} (frame {self.frame_no}, inside bodies '
                      f'{self.costack})')
        self.probes['state_read.' + self.model_state(c)] += 1

    def op_pstate(self, op):
        return self.op_state(op, via_promise=True)

    def op_value(self, op):
        c = op[1]
        p = self.promise.get(c)
        if p is None or c not in self.value_known:
            return 'skip'
        want = self.value_known[c]
        got = p.value
        if want is not None and isinstance(want, list):
            ok = got is want
        else:
            ok = got == want and type(got) is type(want)
        if not ok:
            self.fail('C09', 'value', f'promise.value of c{c} = {got!r}, '
                      f'expected {want!r}')
        self.probes['value_checked'] += 1

    def op_bad(self, op):
        kind, what = op[1], op[2]
        if what == 'proxy':
            # not a generator, but equal to (and hashing like) a registered one
            live = [c for c, st in sorted(self.status.items())
                    if st in 'AP' and self.owner.get(c) != 2]
            if not live:
                return 'skip'
            import weakref
            wr = weakref.ref(self.gens[live[0]])    # (no extra reference:
            hg = hash(self.gens[live[0]])           # release is observed)

            class Proxy:
                def __hash__(self):
                    return hg

                def __eq__(self, other):
                    return other is wr() or other is self
            obj = Proxy()
            self.probes['generator_lookalike_rejected'] += 1
        elif what == 'duck':
            # quacks like a generator (collections.abc.Generator) but is
            # not a generator object
            import collections.abc

            class Duck(collections.abc.Generator):
                def send(self, value):
                    raise StopIteration

                def throw(self, *a):
                    raise StopIteration
            obj = Duck()
            self.probes['generator_lookalike_rejected'] += 1
        else:
            obj = {'int': 3, 'none': None, 'func': (lambda: None),
                   'list': [1]}[what]
        fn = {'start': self.cp.start, 'kill': self.cp.kill,
              'state': self.cp.state}[kind]
        r = self.call(lambda: fn(obj), f'{kind}({what})')
        if r[0] != 'exc' or not issubclass(r[1], TypeError):
            self.fail('C09', 'wrong_exception', f'{kind}(<{what}>) on a '
                      f'non-generator: expected TypeError, got {r}')
        self.probes['non_generator_rejected'] += 1

    # ---- one frame
    def op_frame(self, op):
        dt = dec(op[1])
        if self.in_frame:
            return 'skip'
        self.frame_no += 1
        # wake phase (model)
        woken = []
        for c in sorted(self.need):
            if self.status[c] != 'P':
                continue
            self.acc[c] = self.acc[c] + dt
            if self.acc[c] >= self.need[c]:
                woken.append(c)
        for c in list(self.killed_waiting):
            acc, need = self.killed_waiting[c]
            acc = acc + dt
            if need is None or acc >= need:
                del self.killed_waiting[c]
                if self.status[c] == 'T':
                    self.release_due[c] = self.frame_no
            else:
                self.killed_waiting[c] = (acc, need)
        if len(woken) >= 2:
            self.probes['two_deadlines_one_frame'] += 1
            if len({self.need[c] - self.acc[c] + dt for c in woken}) < \
                    len(woken):
                self.probes['equal_deadlines'] += 1
        waiters = [c for c in self.need if self.status[c] == 'P']
        if dt == 0 and waiters:
            self.probes['zero_dt_frame_with_waiters'] += 1
        if dt >= 2 and len(woken) >= 2:
            self.probes['jump_overshoots>=2'] += 1
        for c in woken:
            self.status[c] = 'A'
            del self.need[c], self.acc[c]
        self.woken_this_frame = bool(woken)
        self.woken_set = set(woken)
        self.expect = {c: 1 for c, s in self.status.items()
                       if s == 'A' and c not in self.finished}
        self.advanced = []
        self.done_this_frame = set()
        self.in_frame = True
        try:
            with kernel.budget(OP_BUDGET):
                if self.world is not None:
                    self.world.process(dt)
                else:
                    self.cp.process(dt)
                    self.cp2.process(dt)
        except Violation:
            raise
        except SimHang as e:
            self.fail('C09', 'hang', f'process({dt!r}): {e}')
        except Exception as e:
            # (C09: never fails because of bookkeeping; C08: the frame was
            # cut short, nobody was advanced or woken)
            self.fail(('C09', 'C08'), 'process_raised', f'process({dt!r}) '
                      f'raised {type(e).__name__}: {e}')
        finally:
            self.in_frame = False
        # who should have advanced and did not
        for c, e in self.expect.items():
            if e == 1:
                late = c in woken
                kind = 'woke_late' if late else 'not_advanced'
                # C08: "never later"; C09: "PAUSED until that wait elapses"
                owner = ('C08', 'C09')
                self.fail(owner, kind, f'c{c} was not advanced in frame '
                          f'{self.frame_no} (dt {dt!r}); advanced: '
                          f'{self.advanced}')
        self.settle_all()
        # restarted-after-finish generators end silently in this frame
        for c in list(self.finished):
            if self.status[c] == 'A' and c not in self.advanced:
                if self.started_frame.get(c, 0) < self.frame_no:
                    self.status[c] = 'T'
                    self.value_known[c] = None
                    self.release_due[c] = self.frame_no
        # order stability among coroutines continuously runnable
        order = [c for c in self.advanced]
        both = [c for c in order if c in self.unbroken
                and c in self.prev_order]
        prev = [c for c in self.prev_order if c in both]
        if both != prev:
            self.fail('C08', 'order_unstable', f'frame {self.frame_no}: '
                      f'runnable coroutines advanced in order {both}, '
                      f'previous frame {prev}')
        if len(both) >= 2:
            self.probes['order_checked'] += 1
        self.prev_order = order
        self.unbroken = {c for c in order if self.status[c] == 'A'
                         and c not in self.broken}
        self.broken = set()
        self.stats['sim_time'] += float(dt)
        self.stats['frames'] += 1
        if dt not in (1, 1.0):
            self.flags.add('nonunit_dt')
        if len([c for c in self.need if self.status[c] == 'P']) >= 2:
            self.flags.add('overlap')
        self.check_release()

    def check_release(self):
        for c, due in list(self.release_due.items()):
            if c in self.norelease:
                del self.release_due[c]
                continue
            if max(due, self.min_release.get(c, 0)) > self.frame_no:
                continue
            del self.release_due[c]
            if self.status[c] != 'T':
                continue
            rc = sys.getrefcount(self.gens[c])
            held = 1 if c in self.promise else 0
            if rc > self.base_rc[c] + held:
                self.fail('C09', 'not_released', f'c{c} is TERMINATED but '
                          f'the processor still holds {rc - self.base_rc[c] - held} '
                          f'reference(s) to its generator after frame '
                          f'{self.frame_no}')
            kind = 'finished' if c in self.finished else 'killed'
            self.probes['release_checked.' + kind] += 1

    def nontrivial(self):
        if self.prop == 'C08':
            return 'overlap' in self.flags and 'nonunit_dt' in self.flags
        return 'inside' in self.flags or 'restart_lt2' in self.flags


def execute(scenario, prop, tolerate=frozenset()):
    it = Interp(scenario, prop, tolerate)
    it.killed_at, it.was_paused_when_killed = {}, set()
    it.killed_waiting, it.pending_wait = {}, {}
    it.pending_finish, it.done_this_frame = set(), set()
    it.value_known, it.flags, it.started_frame = {}, set(), {}
    it.woken_this_frame = False
    it.woken_set = set()
    it.broken = set()
    violation = None
    idx = -1
    s0 = kernel.StepBudget.total
    try:
        for idx, op in enumerate(scenario['ops']):
            it.exec_op(op)
    except Violation as v:
        violation = v.to_json()
        violation['op'] = idx
    finally:
        it.desper.default_loop = it.saved_loop
        it.closed = True
        for g in it.gens.values():
            if g is not None:
                g.close()
    it.stats['steps'] = kernel.StepBudget.total - s0
    return {'violation': violation, 'digest': it.trace.digest(),
            'nontrivial': it.nontrivial(), 'probes': dict(it.probes),
            'faults': dict(it.faults), 'known': dict(it.known),
            'stats': dict(it.stats), 'trace_tail': it.trace.tail(30)}


# --------------------------------------------------------------------------
# generation

YIELDS = ['N', 'N', 0, -1, -0.5, False, 0.25, 0.5, 0.75, 1, 1, 1.5, 2, 2, 3,
          5, True, ['F', 1, 2], ['F', 3, 4], 2.0, ['F', 5, 2]]
DTS = [0, 0.25, 0.5, 0.5, 1, 1, 1, 2, 7, 1.0, 0.75]
RETS = [None, 0, 7, 'done', 'obj', '', False]


def generate(prop, run_seed, tier='quick', tolerate=frozenset()):
    crng = kernel.stream(run_seed, 'cfg')
    rng = kernel.stream(run_seed, 'gen')
    crowd = crng.random() < .25     # many waiters with spread deadlines:
    nc = crng.randint(7, 10) if crowd else crng.randint(1, 6)  # heap shapes
    wait_p = crng.choice([.3, .6, .9])
    long_waits = [4, 6, 9, 10, 12, 14, 20, 30, 40, 41, 50]
    coros = []
    for _ in range(nc):
        ys = []
        for _ in range(crng.randint(0, 6)):
            if crng.random() < wait_p:
                ys.append(crng.choice(long_waits) if crowd
                          and crng.random() < .7 else
                          crng.choice(YIELDS[6:]))
            else:
                ys.append(crng.choice(YIELDS[:6]))
        coros.append({'yields': ys, 'ret': crng.choice(RETS)})
    dts = [1, 1, 2] if crowd and crng.random() < .6 else \
        crng.sample(DTS, crng.randint(1, 4))
    if crng.random() < .1:
        # very long waits and frames (the shared timer grows large; all
        # values stay exactly representable)
        big = [65000, 65536, 65537, 70000, 131072, 2 ** 20, 40000, 2 ** 30,
               2 ** 31 + 1]
        for co in coros:
            co['yields'] = [crng.choice(big) if (y != 'N' and isinstance(
                y, (int, float)) and not isinstance(y, bool) and y > 0
                and crng.random() < .6) else y for y in co['yields']]
        dts = crng.sample([1, 500, 30000, 65536, 66000, 2 ** 17, 0.5, 536,
                           0, 0.25, 2 ** 30, 2 ** 29],
                          crng.randint(2, 5))
    elif crng.random() < .04:
        # decimal waits with whole-number frames (exact as well)
        dts = [1, 1, 2, 0]
        for co in coros:
            co['yields'] = [crng.choice([['D', '1.5'], ['D', '2'],
                                         ['D', '0.1'], 1, ['D', '3.25']]) if (
                y != 'N' and not isinstance(y, bool) and (
                    isinstance(y, list) or (isinstance(y, (int, float))
                                            and y > 0))) else y
                for y in co['yields']]
    elif crng.random() < .06:
        # exact rational time steps that are not binary fractions (and huge
        # integer waits): still "exactly representable" - as Fractions/ints
        dts = [['F', 1, 10], ['F', 1, 3], ['F', 2, 5], 1, ['F', 1, 10]]
        for co in coros:
            co['yields'] = [crng.choice([1, 2, ['F', 1, 2], ['F', 7, 10],
                                         2 ** 53 + 1, 1]) if (
                y != 'N' and not isinstance(y, bool) and (
                    isinstance(y, list) or (isinstance(y, (int, float))
                                            and y > 0))) else y
                for y in co['yields']]
        if crng.random() < .3:
            dts = [2 ** 53, 1, 1, 2 ** 52]
    elif crng.random() < .1:
        # frames a hair short of a deadline (and the hair that completes
        # it): "never earlier" with no tolerance; still exact in binary
        hair = crng.choice([2.0 ** -40, 2.0 ** -33, 2.0 ** -45])
        dts = [1 - hair, hair, 0.5 - hair, 1, hair, 2 - hair]
        for co in coros:
            co['yields'] = [crng.choice([1, 2, 0.5, 1, 3]) if (
                y != 'N' and isinstance(y, (int, float))
                and not isinstance(y, bool) and y > 0) else y
                for y in co['yields']]
    if crng.random() < {'C09': .02, 'C08': .015}.get(prop, 0):
        # churn: many kill-then-restart cycles of waiting coroutines (each
        # leaves something behind in the processor's wait structure) next
        # to untouched waiters with scattered deadlines
        nch, nw = crng.randint(4, 6), crng.randint(4, 7)
        mega = prop == 'C09' and crng.random() < .15
        if mega:
            nch = crng.randint(36, 44)  # a crowd of long sleepers, all of
                                        # them re-armed in every frame
        coros = [{'yields': [crng.randint(8, 90) for _ in range(30)],
                  'ret': None} for _ in range(nch)]
        for _ in range(nw):
            coros.append({'yields': [crng.randint(8, 90)] + ['N'] * 3,
                          'ret': None})
        order = list(range(nch + nw))
        crng.shuffle(order)             # scattered positions in the heap
        scripts = {}
        if mega or crng.random() < .4:
            # the cycles are driven from inside a coroutine body (a
            # watchdog re-arming sleepers), one per frame
            for co in coros[:nch]:      # sleepers that never wake by themselves
                co['yields'] = [crng.randint(1000, 2000) for _ in range(70)]
            drv = len(coros)
            coros.append({'yields': [1] * 70 if crng.random() < .7
                          else ['N'] * 70, 'ret': None})
            tick = len(coros)           # stepped after the driver, waits 1
            coros.append({'yields': [1] * 90, 'ret': None})
            ops = [['start', c] for c in order] + [['frame', 1],
                                                   ['start', drv],
                                                   ['start', tick]]
            for k in range(crng.randint(33, 60)):
                c = crng.randrange(nch)
                scripts[f'co:{drv}:{k}'] = [['kill', c], ['start', c]]
                if mega:
                    # every sleeper once per frame: more than a thousand
                    # stale entries pile up in the wait structure
                    scripts[f'co:{drv}:{k}'] = [
                        x for c in range(nch)
                        for x in (['kill', c], ['start', c])]
                ops.append(['frame', 1])
            ops.append(['kill', drv])
        else:
            ops = [['start', c] for c in order] + [['frame', 1]]
            for _ in range(crng.randint(33, 60) if crng.random() < .6
                           else crng.randint(101, 140)):
                c = crng.randrange(nch)
                ops += [['kill', c], ['start', c], ['frame', 0]]
        for _ in range(26):
            ops.append(['frame', crng.choice([3, 4, 5])])
            if crng.random() < .3:
                ops.append(['state', crng.randrange(nch + nw)])
        return {'format': 1, 'engine': 'coro',
                'config': {'in_world': False, 'coros': coros, 'churn': True},
                'ops': ops, 'scripts': scripts}
    if prop == 'C08' and crng.random() < .02:
        # the clock changes its number family while nothing waits: Decimal
        # frames and waits first, then - once everybody is awake again -
        # Fractions (each family exact on its own)
        coros = [{'yields': [['D', crng.choice(['1', '2', '1.5'])]]
                  + ['N'] * 6 + [['F', crng.choice([1, 3, 5]), 2]] + ['N'] * 2,
                  'ret': None} for _ in range(crng.randint(1, 3))]
        ops = [['start', c] for c in range(len(coros))]
        ops += [['frame', ['D', '1']]] * 5
        ops += [['frame', ['F', 1, 2]]] * 12
        return {'format': 1, 'engine': 'coro',
                'config': {'in_world': False, 'coros': coros,
                           'family_switch': True},
                'ops': ops, 'scripts': {}}
    cfg = {'in_world': crng.random() < .33, 'coros': coros}
    life = prop == 'C09'
    if life and nc >= 2 and crng.random() < .1:
        # guards: coroutines with clean-up code (try/finally) that kills or
        # starts another coroutine when the guard goes away
        for g in crng.sample(range(nc), crng.choice([1, 1, 2])):
            v = crng.choice([x for x in range(nc) if x != g])
            coros[g]['fin'] = crng.choice([
                [['kill', v]], [['start', v]], [['kill', v], ['start', v]],
                [['kill', v]]])
            if crng.random() < .6:
                coros[g]['yields'] = ['N'] * crng.randint(3, 8)
    w = dict(frame=6, start=2, kill=.4, pkill=.1, state=.3, pstate=.1,
             value=.2, bad=.05, dstart=.2, pause_resume=0, handoff=0)
    if life:
        w.update(kill=1.5, pkill=.5, state=1.2, pstate=.5, value=.6,
                 bad=.2, dstart=.6, pause_resume=1.2, start=2.5,
                 handoff=.5)
    for k in list(w):
        if k not in ('frame', 'start') and crng.random() < .25:
            w[k] = 0
    kinds = [k for k, v in w.items() if v > 0]
    wts = [w[k] for k in kinds]
    nframes = crng.randint(5, 40 if tier == 'quick' else 60)
    if crowd:
        nframes = crng.randint(30, 90)
    ops = []
    for c in range(nc):
        if rng.random() < .6:
            ops.append(['start', c])
    frames = 0
    while frames < nframes and len(ops) < (260 if crowd else 120):
        k = rng.choices(kinds, wts)[0]
        c = rng.randrange(nc)
        if k == 'frame':
            ops.append(['frame', rng.choice(dts)])
            frames += 1
        elif k == 'pause_resume':
            ops.append(['kill', c])
            for _ in range(rng.choice([0, 0, 1, 2])):
                ops.append(['frame', rng.choice(dts)])
                frames += 1
            ops.append(['start', c])
        elif k == 'handoff':
            ops.append(['handoff', c])
        elif k == 'bad':
            ops.append(['bad', rng.choice(['start', 'kill', 'state']),
                        rng.choice(['int', 'none', 'func', 'list', 'proxy',
                                    'proxy', 'duck'])])
        elif k == 'dstart':
            ops.append(['dstart', c, rng.random() < .5])
        else:
            ops.append([k, c])
    scripts = {}
    nscripts = rng.choice([0, 1, 2, 4]) if life else rng.choice([0, 0, 1, 2])
    for _ in range(nscripts):
        c = rng.randrange(nc)
        k = rng.randint(0, len(coros[c]['yields']))
        script = []
        for _ in range(rng.randint(1, 2)):
            tgt = c if rng.random() < .25 else rng.randrange(nc)
            kind = rng.choices(['start', 'kill', 'pkill', 'state', 'pstate',
                                'dstart', 'aux'], [3, 3, 1, 2, 1, 1, 1.5])[0]
            if kind == 'aux':
                script.append(['aux', rng.choice([0, 0.25, 1, 5])])
                continue
            if not life and kind in ('kill', 'pkill'):
                kind = 'start'
            script.append(['dstart', tgt, rng.random() < .5]
                          if kind == 'dstart' else [kind, tgt])
        if life and rng.random() < .3:
            tgt = rng.randrange(nc)
            script = [['kill', tgt], ['start', tgt]] + script[:1]
        scripts[f'co:{c}:{k}'] = script
    return {'format': 1, 'engine': 'coro', 'config': cfg, 'ops': ops,
            'scripts': scripts}


def simplify(sc):
    if sc['config'].get('in_world'):
        c = copy.deepcopy(sc)
        c['config']['in_world'] = False
        yield c
    for k, op in enumerate(sc['ops']):
        if op[0] == 'frame' and op[1] != 1:
            c = copy.deepcopy(sc)
            c['ops'][k][1] = 1
            yield c
        if op[0] == 'dstart':
            c = copy.deepcopy(sc)
            c['ops'][k] = ['start', op[1]]
            yield c
    for i, co in enumerate(sc['config']['coros']):
        for j, y in enumerate(co['yields']):
            if y != 'N':
                c = copy.deepcopy(sc)
                c['config']['coros'][i]['yields'][j] = 'N'
                yield c


_COMPONENTS = {
    'real': ['desper.logic.coroutines.CoroutineProcessor (start, kill, '
             'state, process)', 'CoroutinePromise', 'desper.coroutine '
             'decorator', 'desper.World.process (when embedded)'],
    'stub': ['coroutine bodies (scripted generators)', 'time: dt values '
             'are generated (virtual time, nothing sleeps)',
             'desper.default_loop (rebound to a run-private loop)'],
}
_ASSUME = [
    'CoroModel (sim/engines/coro.py) is hand-written from the statements',
    'all dt and wait values are small dyadic rationals (int, float, '
    'Fraction, bool), so the shared timer is exact and == is meaningful',
    'bodies never raise (DESIGN.md section 5)',
    'release is observed through sys.getrefcount of the generator against '
    'a baseline taken before it was first started (CPython)',
]
INFO = {
    'C08': {'rule': '1-6 scripted coroutines, 5-40 frames of generated dt '
            '(zero, uneven, jumps), starts spread over the run incl. from '
            'inside bodies; predictive model says who advances in which '
            'frame; non-trivial = >=2 coroutines with overlapping positive '
            'waits and >=1 non-unit dt; distinct = distinct trace digests',
            'components': _COMPONENTS, 'assumptions': _ASSUME},
    'C09': {'rule': 'C08 workload plus start/kill/promise.kill/state/value/'
            'decorator path issued between frames and from inside bodies '
            '(own and other), kill;start idiom with 0-2 frames in between, '
            'non-generators; non-trivial = a kill or restart issued from '
            'inside a body, or kill->start with < 2 frames in between; '
            'distinct = distinct trace digests',
            'components': _COMPONENTS, 'assumptions': _ASSUME},
}
for _v in INFO.values():
    _v['rule'] += (
        '; swarm dimensions (see probes): crowds of 7-10 waiters, timers up to 2**31, hair-short frames, Fraction / Decimal / non-binary rational steps, a second and an unrelated third processor, hand-over between processors, kill/restart churn (also driven from inside a body), generator look-alikes, guard coroutines whose clean-up code (finally) kills / starts others when the processor drops them, churn of up to 140 kill-start cycles (C08 too), crowds of 36-44 sleepers all re-armed from a watchdog body in every frame (1000+ stale heap entries), a clock that changes its number family (Decimal, then Fraction) while nothing waits')
PROBES = {
    'C08': ['timer_restart_with_new_wait_same_frame',
            'two_deadlines_one_frame', 'equal_deadlines',
            'zero_dt_frame_with_waiters', 'wait_started_mid_others',
            'jump_overshoots>=2', 'start_inside_body', 'fraction_wait',
            'bool_wait', 'order_checked', 'other_processor_run_from_a_body'],
    'C09': ['kill_then_start_same_instant', 'kill_waiting_then_start',
            'self_kill', 'kill_after_victim_ran_this_frame',
            'kill_before_victim_turn', 'start_running_rejected',
            'kill_terminated_rejected', 'restart_finished',
            'release_checked.finished', 'release_checked.killed',
            'decorator_path', 'non_generator_rejected', 'value_checked',
            'generator_lookalike_rejected',
            'handed_to_other_processor',
            'state_read.T', 'state_read.A', 'state_read.P'],
}

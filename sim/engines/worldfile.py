"""World-file engine: C15 (DESIGN.md section 3).

Generated descriptions are written as real JSON files in a scratch
directory and loaded by the real WorldFromFileHandle sitting at a generated
place of a real resource tree; the history is load / enable / clear /
rewrite / load again, plus the dictionary path.  Mostly seeded input
generation (stated weakness); the simulation contributes the file, the
tree, the cached/cleared resources and the load-time event queue.
"""
import collections
import copy
import json
import os
import shutil
import sys

from .. import kernel
from ..kernel import Violation, SimHang

Counter = collections.Counter
OP_BUDGET = 200000
SCRATCH = os.environ.get('VERIF_SCRATCH', '/var/tmp/desper-verif')
FIX = os.path.join(os.path.dirname(os.path.dirname(os.path.abspath(
    __file__))), 'fixtures')
_counter = [0]

COMP_TYPES = ['verif_fixtures.Plain', 'verif_fixtures.Plain2',
              'verif_fixtures.Listener', 'verif_fixtures.LoadOnly',
              'verif_fixtures.Outer.Inner', 'verif_fixtures.sub.SubComp',
              'verif_fixtures.make_comp', 'verif_fixtures.legacy.Thing',
              'verif_fixtures.Mutating', 'verif_fixtures.LateDeco']
PROC_TYPES = ['verif_fixtures.Proc1', 'verif_fixtures.ProcEarly',
              'verif_fixtures.ProcLate']
OBJ_REFS = ['verif_fixtures.OBJ', 'verif_fixtures.Outer.Inner',
            'verif_fixtures.sub.SubComp', 'verif_fixtures.NUM',
            'verif_fixtures.func', 'verif_fixtures.Outer.VALUE',
            'verif_fixtures.sub.SUB_OBJ', 'verif_fixtures.TEXT',
            'verif_fixtures.legacy.VALUE', 'verif_fixtures.legacy.NUM',
            # importable names whose objects cannot be copied: a module, a
            # lock, a generator, an object that refuses
            'verif_fixtures.sub', 'verif_fixtures.LOCK', 'verif_fixtures.GEN',
            'verif_fixtures.NOCOPY', 'json', 'os.path', 'verif_fixtures.CYC',
            'verif_fixtures.level-data.VALUE']
PLAIN_STRINGS = ['hello', ' spaced ', '', 'a$b', 'x ${verif_fixtures.OBJ} y',
                 'see $res{a}', ' ${verif_fixtures.OBJ}', '$ {x}', '$res',
                 '${}', '$RES{a}', '$handle', '$res{}', '$', '{a}', '}{',
                 'tail $handle{a}', '$$', 'res{a}', '\t${x}']


def _typed(v):
    """Type- and sign-exact rendering of a JSON value (True / 1 / 1.0 and
    0.0 / -0.0 compare equal in Python)."""
    try:
        return json.dumps(v, sort_keys=True)
    except (TypeError, ValueError):
        return repr(v)


def resolve(name):
    """The object a dotted name denotes: modules are imported as far as the
    name goes (package.subpackage.module), the rest are attributes."""
    import importlib
    parts = name.split('.')
    mod, k = None, 0
    for i in range(len(parts)):
        try:
            mod = importlib.import_module('.'.join(parts[:i + 1]))
            k = i + 1
        except ModuleNotFoundError:
            break
    obj = mod
    for p in parts[k:]:
        obj = getattr(obj, p)
    return obj


class Interp:
    def __init__(self, scenario, prop, tolerate):
        self.sc, self.cfg = scenario, scenario['config']
        self.prop = prop
        self.trace = kernel.Trace()
        self.probes, self.faults = Counter(), Counter()
        self.known, self.stats = Counter(), Counter()
        if FIX not in sys.path:
            sys.path.insert(1, FIX)
        self.desper = d = kernel.begin_run(
            self.cfg.get('policy', 'fifo'),
            kernel.stream(scenario.get('run_seed', 0), 'sched'),
            scenario.get('run_seed', 0) & 0xffff, self.trace)
        import verif_fixtures
        self.fx = verif_fixtures
        self.fx.LOG.clear()
        if '__events__' in vars(verif_fixtures.LateDeco):
            del verif_fixtures.LateDeco.__events__
        # every run starts with the package imported and the sub-module
        # 'legacy' not imported yet (its name is an attribute of the package)
        sys.modules.pop('verif_fixtures.legacy', None)
        verif_fixtures.legacy = verif_fixtures.LEGACY_SHADOW
        _counter[0] += 1
        self.dir = os.path.join(f'{SCRATCH}-{os.getpid()}',
                                f'wf{_counter[0]}')
        if os.path.exists(self.dir):
            # (left behind by a dead process that had this pid)
            import shutil
            shutil.rmtree(self.dir, ignore_errors=True)
        os.makedirs(self.dir)
        self.file = os.path.join(self.dir, 'world.json')
        it = self

        class ValHandle(d.Handle):
            def __init__(self, name, tree='T1'):
                self.name = name
                self.tree = tree
                self.loads = 0

            def load(self):
                self.loads += 1
                text = it.cfg.get('res_text', {}).get(self.name)
                if text is not None:
                    # a resource that is a piece of text which happens to
                    # look like a reference (a template, a world file's own
                    # source): it is the resource, not a reference
                    it.probes['resource_text_looks_like_a_reference'] += 1
                    return ''.join([text, ''])
                return ('resource', self.name, self.loads, self.tree)

        self.ValHandle = ValHandle
        sc_ = self.cfg.get('split_char')
        if sc_:
            # the tree's root is a map class with its own separator
            class SplitMap(d.ResourceMap):
                split_char = sc_
            self.MapClass = SplitMap
            self.probes['custom_split_char'] += 1
        else:
            self.MapClass = d.ResourceMap
        self.root = self.MapClass()
        self.sep = self.root.split_char
        self.res = {}
        for path in self.cfg['resources']:
            h = ValHandle(path)
            self.root[self.sep.join(path.split('.'))] = h
            self.res[path] = h
        for path in self.cfg.get('preload', []):
            self.res[path]()
        self.handle = d.WorldFromFileHandle(self.file)
        if self.cfg.get('standalone'):
            # a handle that lives in no resource tree (nothing refers to
            # resources in such a run)
            self.probes['free_standing_handle'] += 1
        else:
            self.root[self.cfg['handle_key'].replace('/', self.sep)] = \
                self.handle
        if self.cfg.get('shadowed') and not self.cfg.get('standalone'):
            # another handle is nested on top of the world handle's name
            # (what a populator does on a conflict): the program loads the
            # world through the reference it kept
            hk = self.cfg['handle_key'].replace('/', self.sep)
            holder = self.handle.parent
            holder.handles.maps.insert(0, {})
            self.root[hk] = ValHandle('decoy-on-top')
            self.handle.parent, self.handle.key = holder, hk.split(
                self.sep)[-1]
            self.probes['world_handle_shadowed_by_a_newer_one'] += 1
        if '/' in self.cfg['handle_key']:
            self.probes['handle_depth>=2'] += 1
        self.world = None
        self.desc = None
        self.enabled_checked = False
        self.flags = set()

    def fail(self, kind, detail=''):
        raise Violation('C15', kind, detail)

    # ---- expectations
    def expect_value(self, v, top=True):
        """(mode, value): how an argument must arrive in the constructor."""
        if isinstance(v, str) and top:
            if v.startswith('${') and v.endswith('}') and v[2:-1] in OBJ_REFS:
                self.refs.add('object')
                return ('is', resolve(v[2:-1]))
            if v.startswith('$res{') and v.endswith('}') \
                    and v[5:-1] in self.res:
                self.refs.add('res')
                self.res_used.add(v[5:-1])
                return ('res', v[5:-1])
            if v.startswith('$handle{') and v.endswith('}') \
                    and v[8:-1] in self.res:
                self.refs.add('handle')
                return ('is', self.res[v[8:-1]])
            if '$' in v:
                self.probes['near_miss_string'] += 1
                self.flags.add('dollar_string')
        elif isinstance(v, (list, dict)):
            if '$' in json.dumps(v):
                self.probes['nested_marker_passthrough'] += 1
        return ('eq', v)

    def check_arg(self, where, got, want):
        mode, v = want
        if mode == 'is':
            if got is not v:
                self.fail('reference', f'{where}: got {got!r}, expected the '
                          f'very object {v!r}')
        elif mode == 'res':
            h = self.res[v]
            if not h.cached or got is not h():
                self.fail('reference', f'{where}: got {got!r}, expected the '
                          f'loaded resource of {v!r}')
        else:
            if type(got) is not type(v) or got != v or _typed(got) != _typed(v):
                kind = 'passthrough_changed' if isinstance(v, str) else \
                    'args'
                self.fail(kind, f'{where}: got {got!r}, expected {v!r} '
                          f'unchanged')

    def check_obj(self, where, obj, spec):
        self.refs = getattr(self, 'refs', set())
        args = spec.get('args', [])
        kwargs = spec.get('kwargs', {})
        cls = resolve(spec['type'])
        if spec['type'].endswith('make_comp'):
            if not getattr(obj, 'made_by_factory', False):
                self.fail('components', f'{where}: not built by the factory '
                          f'function')
        elif type(obj) is not cls:
            self.fail('components', f'{where}: is a {type(obj).__name__}, '
                      f'expected {spec["type"]}')
        if len(obj.args) != len(args) or set(obj.kwargs) != set(kwargs):
            self.fail('args', f'{where}: constructed with {obj.args!r} '
                      f'{obj.kwargs!r}, description says {args!r} '
                      f'{kwargs!r}')
        for i, a in enumerate(args):
            self.check_arg(f'{where} arg {i}', obj.args[i],
                           self.expect_value(a))
        for k, a in kwargs.items():
            self.check_arg(f'{where} kwarg {k}', obj.kwargs[k],
                           self.expect_value(a))

    # ---- operations
    def exec_op(self, op):
        self.stats['ops'] += 1
        self.trace.add('op', op[0], json.dumps(op[1:], sort_keys=True))
        getattr(self, 'op_' + op[0])(op)

    def op_write(self, op):
        self.desc = op[1]
        with open(self.file, 'w') as f:
            text = json.dumps(self.desc)
            if self.cfg.get('escaped'):
                # the same description in another spelling: every '$' as
                # the JSON escape \u0024 (and non-ASCII escaped anyway)
                text = text.replace('$', '\\u0024')
                self.probes['world_file_with_escaped_dollars'] += 1
            f.write(text)
        if getattr(self, 'loaded_once', False):
            self.probes['reload_after_rewrite'] += 1
            self.flags.add('rewritten')

    def guarded(self, thunk, what):
        try:
            with kernel.budget(OP_BUDGET):
                return thunk()
        except Violation:
            raise
        except SimHang as e:
            self.fail('hang', f'{what}: {e}')
        except Exception as e:
            self.fail('load_raised', f'{what} raised {type(e).__name__}: '
                      f'{str(e)[:300]}')

    def op_load(self, op):
        if self.desc is None:
            return
        was_cached = self.handle.cached
        loads0 = {p: h.loads for p, h in self.res.items()}
        cached0 = {p: h.cached for p, h in self.res.items()}
        self.fx.LOG.clear()
        w = self.guarded(lambda: self.handle(), 'loading the world file')
        if was_cached:
            if w is not self.world:
                self.fail('stale_after_rewrite', 'a cached handle returned '
                          'another world')
            return
        self.world = w
        self.loaded_desc = copy.deepcopy(self.desc)
        self.loaded_once = True
        self.enabled_checked = False
        self.refs, self.res_used = set(), set()
        self.judge_world(w, self.loaded_desc, file_handle=True)
        if self.fx.LOG:
            self.fail('enabled_at_load', f'callbacks ran during the load: '
                      f'{[(e[0], type(e[1]).__name__) for e in self.fx.LOG]}'
                      )
        # every description entry goes through the transformers, also a
        # processor that a later one of the same type replaces
        specs = list(self.loaded_desc.get('processors', []))
        for e in self.loaded_desc.get('entities', []):
            specs += e.get('components', [])
        for spec in specs:
            for a in list(spec.get('args', [])) + list(
                    spec.get('kwargs', {}).values()):
                if isinstance(a, str) and a.startswith('$res{') \
                        and a.endswith('}') and a[5:-1] in self.res:
                    self.res_used.add(a[5:-1])
        for p, h in self.res.items():
            want = 1 if (p in self.res_used and not cached0[p]) else 0
            if h.loads - loads0[p] != want:
                self.fail('reference', f'resource {p!r} was loaded '
                          f'{h.loads - loads0[p]} times by this world load, '
                          f'expected {want}')
        for r in self.refs:
            self.probes['ref.' + r] += 1
        if len(self.refs) >= 2 and 'dollar_string' in self.flags:
            self.flags.add('nontrivial')

    def judge_world(self, w, desc, file_handle):
        d = self.desper
        if w.dispatch_enabled is not False and file_handle:
            self.fail('enabled_at_load', 'the loaded world has dispatching '
                      'enabled')
        # processors: defaults first, then the listed ones by priority
        model = []
        if file_handle:
            model = [(0, 'OnUpdateProcessor', None),
                     (0, 'CoroutineProcessor', None)]
        for spec in desc.get('processors', []):
            cls = resolve(spec['type'])
            model = [m for m in model if m[1] != cls.__name__]
            prio = cls.priority
            pos = len(model)
            for k, m in enumerate(model):
                if m[0] > prio:
                    pos = k
                    break
            model.insert(pos, (prio, cls.__name__, spec))
        got = [type(p).__name__ for p in w.processors]
        if got != [m[1] for m in model]:
            self.fail('processors', f'processors {got}, expected '
                      f'{[m[1] for m in model]}')
        for p, m in zip(w.processors, model):
            if m[2] is not None:
                self.check_obj(f'processor {m[1]}', p, m[2])
        # entities
        # entities: the ones with an identifier are found under it; which
        # automatic identifier the others get is not stated - each of them
        # must be matched by one distinct entity of the world
        explicit, autos = {}, []
        for e in desc.get('entities', []):
            if 'id' in e:
                self.probes['explicit_id'] += 1
                if e.get('components'):
                    explicit[e['id']] = e['components']
            elif e.get('components'):
                autos.append(e['components'])
            if not e.get('components'):
                self.probes['entity_without_components'] += 1
        got_ids = list(w.entities)
        missing = [i for i in explicit if not any(
            type(g) is type(i) and g == i for g in got_ids)]
        if missing or len(got_ids) != len(explicit) + len(autos):
            self.fail('entities', f'entities {sorted(map(repr, got_ids))}: '
                      f'expected the identifiers {sorted(map(repr, explicit))}'
                      f' plus {len(autos)} automatically numbered one(s)')
        self.handler_comps = []

        def judge_entity(eid, comps):
            got = list(w.get_components(eid))
            if len(got) != len(comps):
                self.fail('components', f'entity {eid!r} has '
                          f'{[type(c).__name__ for c in got]}, expected '
                          f'{[c["type"] for c in comps]}')
            for obj, spec in zip(got, comps):
                self.check_obj(f'entity {eid!r} component {spec["type"]}',
                               obj, spec)
            return [(eid, obj) for obj in got if hasattr(obj, '__events__')]
        for eid, comps in explicit.items():
            self.handler_comps += judge_entity(eid, comps)
        free = [g for g in got_ids if not any(
            type(g) is type(i) and g == i for i in explicit)]
        for comps in autos:
            last = None
            for g in list(free):
                saved = (set(self.refs), set(self.res_used))
                try:
                    hc = judge_entity(g, comps)
                except Violation as v:
                    last = v
                    self.refs, self.res_used = saved
                    continue
                free.remove(g)
                self.handler_comps += hc
                break
            else:
                if last is not None and len(autos) == 1:
                    raise last
                self.fail('components', f'no entity of the world matches '
                          f'the listed entity with components '
                          f'{[c["type"] for c in comps]} (candidates: '
                          f'{sorted(map(repr, free))})')

    def op_enable(self, op):
        if self.world is None or self.enabled_checked:
            return
        self.fx.LOG.clear()
        w = self.world
        self.guarded(lambda: setattr(w, 'dispatch_enabled', True),
                     'enabling the loaded world')
        self.check_callbacks(w, self.handle)
        self.enabled_checked = True

    def check_callbacks(self, w, handle):
        log = list(self.fx.LOG)
        want = Counter()
        for eid, obj in self.handler_comps:
            ev = type(obj).__events__
            if 'on_add' in ev:
                want[('on_add', id(obj))] += 1
            if 'on_world_load' in ev and handle is not None:
                want[('on_world_load', id(obj))] += 1
        got = Counter((e[0], id(e[1])) for e in log)
        if got != want:
            self.fail('callback_order', f'after enabling: callbacks '
                      f'{[(e[0], type(e[1]).__name__) for e in log]}, '
                      f'expected each handler once: {len(want)} callbacks')
        owners = {id(obj): eid for eid, obj in self.handler_comps}
        seen_load = False
        for e in log:
            if e[0] == 'on_world_load':
                seen_load = True
                if e[2] is not handle or e[3] is not w:
                    self.fail('callback_order', 'on_world_load got wrong '
                              'handle/world')
            else:
                if seen_load:
                    self.fail('callback_order', 'on_add delivered after '
                              'on_world_load')
                if e[2] != owners[id(e[1])] or e[3] is not w:
                    self.fail('callback_order', f'on_add got entity '
                              f'{e[2]!r}, expected {owners[id(e[1])]!r}')
        self.probes['callbacks_checked'] += 1

    def op_clear(self, op):
        self.handle.clear()
        self.world = None

    def op_move(self, op):
        """The world handle is put into a second, independent resource tree
        (the first one stays what it is): from now on the enclosing tree of
        the handle - where $res{} / $handle{} are looked up - is that one."""
        d = self.desper
        root2 = self.MapClass()
        res2 = {}
        for path in self.cfg['resources']:
            h = self.ValHandle(path, 'T2')
            root2[self.sep.join(path.split('.'))] = h
            res2[path] = h
        root2[op[1].replace('/', self.sep)] = self.handle
        self.old_root = self.root       # (kept alive, still a root)
        self.root, self.res = root2, res2
        self.handle.clear()
        self.world = None
        self.probes['handle_moved_to_another_tree'] += 1

    def op_use_plain(self, op):
        """An instance of the (still undecorated) class goes through some
        other World as a plain component."""
        w0 = self.desper.World()
        e = w0.create_entity(self.fx.LateDeco())
        w0.delete_entity(e, immediate=True)

    def op_decorate(self, op):
        self.desper.event_handler('on_add', 'on_world_load')(
            self.fx.LateDeco)
        self.probes['class_decorated_after_use'] += 1

    def op_clear_res(self, op):
        p = op[1]
        if p in self.res:
            self.res[p].clear()

    def op_dict(self, op):
        """Dictionary path: types already resolved, no references."""
        _, desc, enabled = op
        d = self.desper
        w = d.World()
        w.dispatch_enabled = bool(enabled)
        real = copy.deepcopy(desc)
        for spec in real.get('processors', []):
            spec['type'] = resolve(spec['type'])
        for e in real.get('entities', []):
            for spec in e.get('components', []):
                spec['type'] = resolve(spec['type'])
        self.fx.LOG.clear()
        self.guarded(lambda: d.populate_world_from_dict(w, real),
                     'populate_world_from_dict')
        self.refs, self.res_used = set(), set()
        self.judge_world(w, desc, file_handle=False)
        if enabled:
            self.check_callbacks(w, None)
        else:
            if self.fx.LOG:
                self.fail('enabled_at_load', 'callbacks ran on a disabled '
                          'world')
            self.fx.LOG.clear()
            w.dispatch_enabled = True
            self.check_callbacks(w, None)
        self.probes['dict_path'] += 1

    def cleanup(self):
        shutil.rmtree(self.dir, ignore_errors=True)
        try:
            os.rmdir(os.path.dirname(self.dir))
        except OSError:
            pass


def execute(scenario, prop, tolerate=frozenset()):
    it = Interp(scenario, prop, tolerate)
    violation = None
    idx = -1
    s0 = kernel.StepBudget.total
    try:
        for idx, op in enumerate(scenario['ops']):
            it.exec_op(op)
    except Violation as v:
        violation = v.to_json()
        violation['op'] = idx
    finally:
        it.cleanup()
    it.stats['steps'] = kernel.StepBudget.total - s0
    return {'violation': violation, 'digest': it.trace.digest(),
            'nontrivial': 'nontrivial' in it.flags,
            'probes': dict(it.probes), 'faults': {}, 'known': {},
            'stats': dict(it.stats), 'trace_tail': it.trace.tail(20)}


# --------------------------------------------------------------------------
# generation

def gen_json(rng, depth=0):
    r = rng.random()
    if r < .3 or depth >= 2:
        scalars = [0, 1, -3, 2.5, True, False, None, 'txt', '', 1.0, 0.0, -0.0,
                   2 ** 53 + 1, 1e100, -1, -1.0]
        if depth >= 1:      # markers nested in containers pass through
            scalars += ['${verif_fixtures.OBJ}', '$res{a}', '$handle{a}']
        return rng.choice(scalars)
    if r < .6:
        return [gen_json(rng, depth + 1) for _ in range(rng.randint(0, 3))]
    return {rng.choice(['k', 'x', 'type', 'args']): gen_json(rng, depth + 1)
            for _ in range(rng.randint(0, 2))}


def gen_arg(rng, resources, refs_ok=True):
    r = rng.random()
    if not refs_ok:
        r = r * .5
    if r < .25:
        return rng.choice(PLAIN_STRINGS)
    if r < .33:         # values that are == but not the same JSON value
        return rng.choice([True, 1, 1.0, False, 0, 0.0, -0.0])
    if r < .5:
        return gen_json(rng)
    if r < .7:
        return '${' + rng.choice(OBJ_REFS) + '}'
    if resources and r < .87:
        return '$res{' + rng.choice(resources) + '}'
    if resources:
        return '$handle{' + rng.choice(resources) + '}'
    return rng.choice(PLAIN_STRINGS)


def gen_spec(rng, types, resources, refs_ok=True):
    spec = {'type': rng.choice(types)}
    r = rng.random()
    if r < .7:
        spec['args'] = [gen_arg(rng, resources, refs_ok)
                        for _ in range(rng.randint(0, 3))]
    if rng.random() < .5:
        spec['kwargs'] = {k: gen_arg(rng, resources, refs_ok)
                          for k in rng.sample(['a', 'b', 'path', 'n'],
                                              rng.randint(0, 3))}
    return spec


def gen_desc(rng, resources, refs_ok=True):
    desc = {}
    if rng.random() < .7:
        desc['processors'] = [gen_spec(rng, PROC_TYPES, resources, refs_ok)
                              for _ in range(rng.randint(0, 4))]
    ents = []
    ids = [0, '', 'hero', 100, -1, '0', 101, 'a b', 1, 2, 3]
    rng.shuffle(ids)
    for _ in range(rng.randint(0, 5)):
        e = {}
        if rng.random() < .45 and ids:
            e['id'] = ids.pop()
        types = rng.sample(COMP_TYPES, rng.randint(0, 4))
        # make_comp builds a Plain2: never both (one exact type per entity)
        if 'verif_fixtures.make_comp' in types and \
                'verif_fixtures.Plain2' in types:
            types.remove('verif_fixtures.Plain2')
        if types or rng.random() < .5:
            e['components'] = [gen_spec(rng, [t], resources, refs_ok)
                               for t in types]
        ents.append(e)
    if ents or rng.random() < .5:
        desc['entities'] = ents
    return desc


def generate(prop, run_seed, tier='quick', tolerate=frozenset()):
    crng = kernel.stream(run_seed, 'cfg')
    rng = kernel.stream(run_seed, 'gen')
    names = ['a', 'b', 'img', 'dir.b', 'dir.sub.c', 'x.y', 'dir.d']
    resources = crng.sample(names, crng.randint(0, 5))
    standalone = crng.random() < .06
    if standalone:
        resources = []
    # a path and one of its prefixes cannot both be handles
    resources = [r for r in resources if not any(
        o != r and o.startswith(r + '.') for o in resources)]
    cfg = {'policy': crng.choice(['fifo', 'lifo', 'reshuffle']),
           'resources': resources, 'standalone': standalone,
           'split_char': crng.choice([None] * 6 + [':', '|']),
           'preload': [r for r in resources if crng.random() < .4],
           'escaped': crng.random() < .08,
           'shadowed': crng.random() < .08,
           'res_text': ({r: crng.choice([
               '${verif_fixtures.OBJ}', '${os.sep}', '${verif_fixtures.NUM}',
               '$handle{a}', '${player.name} joined', '$res{b}'])
               for r in resources if crng.random() < .5}
               if crng.random() < .1 else {}),
           'handle_key': crng.choice(['w', 'worlds/w1', 'worlds/l1/w',
                                      'deep/er/still/w', 'w2'])}
    ops = [['write', gen_desc(rng, resources)], ['load'], ['enable']]
    for _ in range(crng.choice([0, 0, 1, 2])):
        r = rng.random()
        if r < .35:
            ops += [['clear'], ['write', gen_desc(rng, resources)], ['load'],
                    ['enable']]
        elif r < .5:    # the same file again, untouched
            ops += [['clear'], ['load'], ['enable']]
        elif r < .6 and resources:
            ops += [['move', rng.choice(['w', 'zz/w', 'zz/y/w'])],
                    ['load'], ['enable']]
        elif r < .7 and resources:
            ops += [['clear_res', rng.choice(resources)], ['clear'],
                    ['load'], ['enable']]
        else:
            ops += [['load'], ['write', gen_desc(rng, resources)], ['load']]
    if crng.random() < .15:
        # a component class that becomes a handler late
        k = crng.choice([0, 0, 3]) if len(ops) > 3 else 0
        ops[k:k] = [['use_plain'], ['decorate']] if crng.random() < .7 \
            else [['decorate']]
    if crng.random() < .4:
        ops.append(['dict', gen_desc(rng, [], refs_ok=False),
                    crng.random() < .5])
    return {'format': 1, 'engine': 'worldfile', 'config': cfg, 'ops': ops,
            'scripts': {}}


def simplify(sc):
    for k, op in enumerate(sc['ops']):
        if op[0] in ('write', 'dict'):
            desc = op[1]
            for field in ('processors', 'entities'):
                for j in range(len(desc.get(field, []))):
                    c = copy.deepcopy(sc)
                    del c['ops'][k][1][field][j]
                    yield c
            for j, e in enumerate(desc.get('entities', [])):
                for i in range(len(e.get('components', []))):
                    c = copy.deepcopy(sc)
                    del c['ops'][k][1]['entities'][j]['components'][i]
                    yield c
                    spec = e['components'][i]
                    for a in range(len(spec.get('args', []))):
                        c = copy.deepcopy(sc)
                        del c['ops'][k][1]['entities'][j]['components'][i][
                            'args'][a]
                        yield c
                    for key in list(spec.get('kwargs', {})):
                        c = copy.deepcopy(sc)
                        del c['ops'][k][1]['entities'][j]['components'][i][
                            'kwargs'][key]
                        yield c
    if sc['config']['handle_key'] != 'w':
        c = copy.deepcopy(sc)
        c['config']['handle_key'] = 'w'
        yield c


INFO = {'C15': {
    'rule': 'generated descriptions (0-4 processors, 0-5 entities x 0-4 '
            'components, optional ids incl. 0 and "", args/kwargs with '
            'arbitrary JSON, exact ${..}/$res{..}/$handle{..} references, '
            'near-miss and marker-in-the-middle strings, markers nested in '
            'lists/dicts) written as real JSON, loaded through a handle at '
            'depth 1-4 of a real resource tree whose resources are cached or '
            'not; history load/enable/clear/rewrite/load; dictionary path '
            'enabled and disabled; non-trivial = >=2 kinds of reference and '
            '>=1 non-reference string containing "$"; distinct = distinct '
            'trace digests',
    'components': {
        'real': ['desper.model.world.WorldFromFileHandle / '
                 'WorldFromFileTransformer / dict transformers / '
                 'object_from_string / populate_world_from_dict',
                 'desper.World (create_entity, add_processor, dispatch '
                 'queue)', 'desper.model.tree.ResourceMap / Handle',
                 'json + a real scratch file'],
        'stub': ['component / processor classes (recording fixtures in '
                 'sim/fixtures/verif_fixtures)', 'resource loads (counting '
                 'handles)']},
    'assumptions': [
        'argument values are plain seeded input generation; no fault is '
        'injected (stated weakness, DESIGN.md section 3 C15)',
        'strings that begin with a marker and continue, duplicate ids and '
        'repeated exact types in one entity are not generated',
        'explicit integer ids are chosen outside the automatic range']}}
for _v in INFO.values():
    _v['rule'] += (
        '; swarm dimensions (see probes): references to uncopyable and cyclic objects, a module file with a hyphen, bool/int/float arguments that compare equal, components that mutate their arguments, untouched reloads, a second resource tree, a root map with its own split_char, a free-standing handle, explicit ids equal to automatic ones, a class decorated after use, resources whose text looks like a reference, world files with every $ escaped as \\u0024, the world handle shadowed by a newer handle')
PROBES = {'C15': ['ref.object', 'ref.res', 'ref.handle', 'near_miss_string',
                  'nested_marker_passthrough', 'explicit_id',
                  'entity_without_components', 'handle_depth>=2',
                  'reload_after_rewrite', 'dict_path', 'callbacks_checked',
                  'handle_moved_to_another_tree', 'free_standing_handle',
                  'custom_split_char',
                  'class_decorated_after_use']}

"""Twin-world engine: C19 (DESIGN.md section 3).

The same history runs on world W1 through shorthands only (module-level
functions on a controller, Controller method aliases, ComponentReference /
ProcessorReference descriptors read / assigned / deleted, the
controller(entity, world) factory) and on W2 through the corresponding
World calls.  Refinement against the real World, so the verdict does not
depend on what C01-C07 decide about World itself.  Plus the Prototype
source matrix and OnUpdateProcessor relaying.
"""
import collections
import copy
import json

from .. import kernel
from ..kernel import Violation, SimHang

Counter = collections.Counter
OP_BUDGET = 40000
DTS = [0, 0.25, 1, 2, 7, 1.5]


class Interp:
    def __init__(self, scenario, prop, tolerate):
        self.sc, self.cfg = scenario, scenario['config']
        self.prop = prop
        self.trace = kernel.Trace()
        self.probes, self.faults = Counter(), Counter()
        self.known, self.stats = Counter(), Counter()
        self.desper = d = kernel.begin_run(
            self.cfg.get('policy', 'fifo'),
            kernel.stream(scenario.get('run_seed', 0), 'sched'),
            scenario.get('run_seed', 0) & 0xffff, self.trace)
        it = self
        cfg = self.cfg
        # component classes (small hierarchy)
        self.K = []
        for i, base in enumerate(cfg['classes']):
            bases = (self.K[base],) if base is not None else (object,)
            self.K.append(type(f'K{i}', bases, {'_pair': None}))
        # processor classes
        self.P = []
        for i, prio in enumerate(cfg['pclasses']):
            ns = {'process': lambda self, dt: None, '_pair': None}
            if prio is not None:
                ns['priority'] = prio
            self.P.append(type(f'P{i}', (d.Processor,), ns))
        # controller classes with descriptors
        self.C = []
        for i, spec in enumerate(cfg['controllers']):
            ns = {'_pair': None}
            for k in spec['refs']:
                ns[f'ref{k}'] = d.ComponentReference(self.K[k])
            for j in spec['prefs']:
                ns[f'pref{j}'] = d.ProcessorReference(self.P[j])
            self.C.append(type(f'Ctl{i}', (d.Controller,), ns))

        # on_update listeners
        @d.event_handler('on_update')
        class Upd:
            _pair = None

            def on_update(self, dt):
                it.updates.append((self._pair, dt, self.which))
        self.Upd = Upd
        if cfg.get('world_sub'):
            # a World subclass that answers some queries in its own way
            # (entities awaiting deletion are hidden): a shorthand is the
            # *world's* call, not the base class's
            class HidingWorld(d.World):
                def has_component(self, entity, component_type):
                    if not self.entity_exists(entity):
                        return False
                    return super().has_component(entity, component_type)

                def get_component(self, entity, component_type, *a, **k):
                    if not self.entity_exists(entity):
                        return None
                    return super().get_component(entity, component_type,
                                                 *a, **k)

                def get_components(self, entity):
                    if not self.entity_exists(entity):
                        return ()
                    return super().get_components(entity)
            self.w1, self.w2 = HidingWorld(), HidingWorld()
            self.probes['world_subclass'] += 1
        else:
            self.w1, self.w2 = d.World(), d.World()
        # a second pair of worlds, where processors live that are then
        # assigned through a reference in W1 / added to W2
        self.x1, self.x2 = d.World(), d.World()
        for w in (self.w1, self.w2):
            p = d.OnUpdateProcessor()
            p._pair = 'onupdate'
            w.add_processor(p)
        self.updates = []
        self.npair = 0
        self.slots = {}         # slot -> {'ctl': ctl1, 'eid': eid}
        self.upd = {}           # listener idx -> (eid1, eid2)
        self.forms = set()
        self.flags = set()
        self.enabled = True
        self.protos = None

    def fail(self, kind, detail=''):
        raise Violation('C19', kind, detail)

    def pair(self, cls):
        self.npair += 1
        a, b = cls(), cls()
        a._pair = b._pair = f'{cls.__name__}#{self.npair}'
        return a, b

    def lab(self, o):
        if o is None or isinstance(o, (bool, int, float, str)):
            return o
        return getattr(o, '_pair', repr(type(o)))

    def both(self, what, f1, f2):
        """Run the shorthand on W1 and the World call on W2; compare."""
        def run(f):
            try:
                with kernel.budget(OP_BUDGET):
                    return ('ret', f())
            except SimHang as e:
                self.fail('hang', f'{what}: {e}')
            except Exception as e:
                e.__traceback__ = None
                return ('exc', type(e).__name__)
        r1, r2 = run(f1), run(f2)
        a = (r1[0], self.norm(r1[1]))
        b = (r2[0], self.norm(r2[1]))
        if a != b:
            self.fail('result_differs', f'{what}: shorthand gave {a}, the '
                      f'World call gave {b}')
        self.trace.add('res', what, repr(a))
        return r1

    def norm(self, v):
        if isinstance(v, tuple):
            return tuple(sorted(map(str, (self.lab(x) for x in v))))
        return self.lab(v)

    # ---- operations
    def exec_op(self, op):
        self.stats['ops'] += 1
        self.trace.add('op', *[json.dumps(x, sort_keys=True)
                               if isinstance(x, (dict, list)) else x
                               for x in op])
        r = getattr(self, 'op_' + op[0])(op)
        if r == 'skip':
            self.stats['skipped'] += 1
            return
        self.sweep()

    def op_orphan(self, op):
        """The program keeps a controller and reaches its world through it
        only: controller.world is that world for as long as the controller
        is attached, collections or not."""
        import gc
        import weakref
        d = self.desper

        class Marker:
            pass
        w = d.World()
        ctl = d.Controller()
        eid = w.create_entity(ctl, Marker())
        ref = weakref.ref(w)
        del w
        gc.collect()
        self.probes['world_reached_through_its_controller_only'] += 1
        got = ctl.world
        if got is None or got is not ref():
            self.fail('controller_backlink', f'controller.world is '
                      f'{got!r} after the program dropped its own reference '
                      f'to the world and a collection ran')
        if ctl.entity != eid or not ctl.has_component(Marker):
            self.fail('controller_backlink', 'the controller of a world '
                      'reached through it only lost its entity/components')

    def op_create(self, op):
        _, slot, ci, ks = op
        if slot in self.slots:
            return 'skip'
        c1, c2 = self.pair(self.C[ci])
        comps = [self.pair(self.K[k]) for k in ks]
        e1 = self.w1.create_entity(c1, *[a for a, b in comps])
        e2 = self.w2.create_entity(c2, *[b for a, b in comps])
        if e1 != e2:
            self.fail('state_differs', f'twin entity ids {e1!r} / {e2!r}')
        self.slots[slot] = {'ctl': c1, 'ctl2': c2, 'eid': e1, 'ci': ci}
        if not self.enabled:
            self.probes['controller_attached_disabled'] += 1

    def op_adopt(self, op):
        """controller(entity, world): a plain controller for a slot."""
        _, slot = op
        s = self.slots.get(slot)
        if s is None:
            return 'skip'
        s['plain'] = self.desper.controller(s['eid'], self.w1)
        self.forms.add('factory')
        self.probes['form.factory'] += 1

    def ctl(self, s, need_cls=False):
        if not need_cls and 'plain' in s and (self.stats['ops'] % 2):
            return s['plain']
        return s['ctl']

    def usable(self, s):
        """A controller whose on_add is still pending has no world yet."""
        return s is not None and s['ctl'].world is not None

    def op_add(self, op):
        _, slot, k, form = op
        s = self.slots.get(slot)
        if not self.usable(s):
            return 'skip'
        d = self.desper
        a, b = self.pair(self.K[k])
        eid = s['eid']
        refs = self.cfg['controllers'][s['ci']]['refs']
        # descriptor of K_r accepts any instance of K_r (sub)class
        ok = [r for r in refs if issubclass(self.K[k], self.K[r])]
        if form == 'descriptor' and not ok:
            form = 'method'
        if form == 'function':
            f1 = lambda: d.add_component(self.ctl(s), a)          # noqa
        elif form == 'method':
            f1 = lambda: self.ctl(s).add_component(a)             # noqa
        else:
            name = f'ref{ok[k % len(ok)]}'
            f1 = lambda: setattr(s['ctl'], name, a)               # noqa
            form = 'descriptor_set'
        self.both(f'add K{k} via {form}', f1,
                  lambda: self.w2.add_component(eid, b))
        self.note(form)

    def note(self, form):
        self.forms.add(form)
        self.probes['form.' + form] += 1

    def op_remove(self, op):
        _, slot, k, form = op
        s = self.slots.get(slot)
        if not self.usable(s):
            return 'skip'
        d = self.desper
        eid = s['eid']
        refs = self.cfg['controllers'][s['ci']]['refs']
        if form == 'descriptor' and k not in refs:
            form = 'function'
        if form == 'function':
            f1 = lambda: d.remove_component(self.ctl(s), self.K[k])  # noqa
        elif form == 'method':
            f1 = lambda: self.ctl(s).remove_component(self.K[k])     # noqa
        else:
            f1 = lambda: delattr(s['ctl'], f'ref{k}')                # noqa
            form = 'descriptor_del'
        f2 = lambda: self.w2.remove_component(eid, self.K[k])        # noqa
        if form == 'descriptor_del':
            self.both(f'remove K{k} via {form}', lambda: (f1(), None)[1],
                      lambda: (f2(), None)[1])
        else:
            self.both(f'remove K{k} via {form}', f1, f2)
        self.note(form)

    def op_query(self, op):
        _, slot, what, k, form = op
        s = self.slots.get(slot)
        if not self.usable(s):
            return 'skip'
        d = self.desper
        eid, K = s['eid'], self.K[k]
        refs = self.cfg['controllers'][s['ci']]['refs']
        if what == 'has':
            f1 = (lambda: d.has_component(self.ctl(s), K)) \
                if form == 'function' else (
                lambda: self.ctl(s).has_component(K))
            f2 = lambda: self.w2.has_component(eid, K)        # noqa
        elif what == 'get':
            if form == 'descriptor' and k in refs:
                f1 = lambda: getattr(s['ctl'], f'ref{k}')     # noqa
                form = 'descriptor_get'
            elif form == 'function':
                f1 = lambda: d.get_component(self.ctl(s), K)  # noqa
            else:
                form = 'method'
                f1 = lambda: self.ctl(s).get_component(K)     # noqa
            f2 = lambda: self.w2.get_component(eid, K)        # noqa
        else:
            f1 = (lambda: d.get_components(self.ctl(s))) \
                if form == 'function' else (
                lambda: self.ctl(s).get_components())
            f2 = lambda: self.w2.get_components(eid)          # noqa
        if form == 'descriptor':
            form = 'method'
        self.both(f'{what} K{k} via {form}', f1, f2)
        self.note(form)

    def op_delete(self, op):
        _, slot, form = op
        s = self.slots.get(slot)
        if not self.usable(s) or s['eid'] not in self.w2.entities:
            return 'skip'
        d = self.desper
        eid = s['eid']
        f1 = (lambda: d.delete(self.ctl(s))) if form == 'function' else (
            lambda: self.ctl(s).delete())
        self.both(f'delete via {form}', f1,
                  lambda: self.w2.delete_entity(eid))
        self.note(form)
        self.flags.add('deleted')

    def op_pref(self, op):
        slot, j, what = op[1], op[2], op[3]
        s = self.slots.get(slot)
        if not self.usable(s):
            return 'skip'
        prefs = self.cfg['controllers'][s['ci']]['prefs']
        if j not in prefs:
            return 'skip'
        name = f'pref{j}'
        if what == 'get':
            self.both(f'processor ref get P{j}',
                      lambda: getattr(s['ctl'], name),
                      lambda: self.w2.get_processor(self.P[j]))
        elif what == 'set':
            a, b = self.pair(self.P[j])
            k = op[4] if len(op) > 4 else None
            if k == 'foreign':
                # the processor is registered in another world already
                k = None
                self.x1.add_processor(a)
                self.x2.add_processor(b)
                self.probes['processor_from_another_world'] += 1
            if k is not None:           # instance-level priority
                a.priority = b.priority = k
                self.probes['instance_priority'] += 1
            self.both(f'processor ref set P{j}',
                      lambda: setattr(s['ctl'], name, a),
                      lambda: self.w2.add_processor(b))
        else:
            self.both(f'processor ref del P{j}',
                      lambda: delattr(s['ctl'], name),
                      lambda: (self.w2.remove_processor(self.P[j]), None)[1])
        self.note('processor_ref')

    def op_process(self, op):
        dt = op[1]
        self.updates = []
        for w, which in ((self.w1, 1), (self.w2, 2)):
            self.Upd.which = which
            try:
                with kernel.budget(OP_BUDGET):
                    w.process(dt)
            except SimHang as e:
                self.fail('hang', f'process: {e}')
            except Exception as e:
                self.fail('state_differs', f'process raised '
                          f'{type(e).__name__}: {e}')
        # OnUpdateProcessor: one call per attached listener, that dt object
        for which, w in ((1, self.w1), (2, self.w2)):
            want = Counter()
            for li, (e1, e2, o1, o2) in self.upd.items():
                o = o1 if which == 1 else o2
                if w.is_handler(o) and self.enabled:
                    want[o._pair] += 1
            got = Counter(p for p, dtv, wh in self.updates if wh == which)
            if got != want:
                self.fail('on_update', f'frame dt={dt!r}: on_update '
                          f'delivered {dict(got)} in W{which}, expected '
                          f'{dict(want)}')
            for p, dtv, wh in self.updates:
                if wh == which and dtv is not dt:
                    self.fail('on_update', f'on_update got {dtv!r}, the '
                              f'frame dt is {dt!r} (not the same object)')
            if want:
                self.probes['on_update_checked'] += 1
        for slot in list(self.slots):
            if self.slots[slot]['eid'] not in self.w2._entities:
                pass
        self.stats['sim_time'] += dt

    def op_move_updater(self, op):
        """The OnUpdateProcessor of each twin world spends a frame in
        another world and comes back: it relays to the listeners of the
        world it is in."""
        d = self.desper
        dt = op[1]
        for w, x in ((self.w1, self.x1), (self.w2, self.x2)):
            p = w.get_processor(d.OnUpdateProcessor)
            if p is None:
                return 'skip'
        for w, x, which in ((self.w1, self.x1, 1), (self.w2, self.x2, 2)):
            p = w.remove_processor(d.OnUpdateProcessor)
            x.add_processor(p)
            self.Upd.which = which
            n0 = len(self.updates)
            x.process(dt)
            if len(self.updates) != n0:
                self.fail('on_update', 'a frame of another world was '
                          'relayed to the listeners of the world the '
                          'processor had left')
            x.remove_processor(d.OnUpdateProcessor)
            w.add_processor(p)
        self.probes['updater_moved_between_worlds'] += 1

    def op_toggle(self, op):
        self.enabled = bool(op[1])
        self.w1.dispatch_enabled = self.enabled
        self.w2.dispatch_enabled = self.enabled

    def op_upd(self, op):
        _, li, what = op
        if what == 'add':
            if li in self.upd:
                return 'skip'
            a, b = self.pair(self.Upd)
            self.upd[li] = (self.w1.create_entity(a),
                            self.w2.create_entity(b), a, b)
        else:
            if li not in self.upd:
                return 'skip'
            e1, e2, a, b = self.upd.pop(li)
            if e1 in self.w1.entities:
                self.w1.delete_entity(e1, immediate=True)
                self.w2.delete_entity(e2, immediate=True)

    # ---- prototypes
    def op_proto(self, op):
        _, spec = op
        d = self.desper
        it = self
        # types: (name, namespace) so that two types can share __name__
        types = []
        for name, nsp in spec['types']:
            T = type(name, (), {'_src': 'ctor'})
            T._nsp = nsp
            types.append(T)

        def build(level):
            s = spec['levels'][level]
            ns = {}
            if 'types' in s:
                ns['component_types'] = tuple(types[i] for i in s['types'])
            if 'dict' in s:
                def mk(i):
                    def f(t):
                        o = t()
                        o._src = f'dict{level}'
                        return o
                    return f
                ns['init_methods'] = {types[i]: mk(i) for i in s['dict']}
                if spec.get('defaultdict'):
                    # a mapping with a fallback of its own (defaultdict):
                    # a type without an entry has no entry
                    def missing():
                        def f(t):
                            o = t()
                            o._src = 'missing'
                            return o
                        return f
                    ns['init_methods'] = collections.defaultdict(
                        missing, ns['init_methods'])
                    it.probes['proto.init_methods_with___missing__'] += 1
            if 'prefix' in s:
                ns['init_prefix'] = s['prefix']
            for m in s.get('methods', []):
                pref, name = m[0], m[1]
                kind = m[2] if len(m) > 2 else 'plain'

                def make(t, level=level):
                    o = t()
                    o._src = f'method{level}'
                    return o
                if kind == 'static':
                    ns[pref + name] = staticmethod(lambda t, mk=make: mk(t))
                elif kind == 'class':
                    ns[pref + name] = classmethod(
                        lambda cls, t, mk=make: mk(t))
                elif kind == 'partial':
                    import functools
                    ns[pref + name] = functools.partial(
                        lambda tag, t, mk=make: mk(t), 'bound argument')
                else:
                    ns[pref + name] = (lambda self, t, mk=make: mk(t))
                if kind != 'plain':
                    it.probes['proto.method_kind.' + kind] += 1
            return ns
        Base = type('Proto0', (d.Prototype,), build(0))
        cls = Base
        for level in range(1, len(spec['levels'])):
            cls = type(f'Proto{level}', (cls,), build(level))
            self.probes['proto.override'] += 1
        # model: effective attributes through inheritance
        eff = {'types': [], 'dict': {}, 'prefix': 'init_', 'methods': {}}
        for level, s in enumerate(spec['levels']):
            if 'types' in s:
                eff['types'] = s['types']
            if 'dict' in s:
                eff['dict'] = {i: level for i in s['dict']}
            if 'prefix' in s:
                eff['prefix'] = s['prefix']
            for m in s.get('methods', []):
                eff['methods'][m[0] + m[1]] = level
        if spec.get('late_prefix'):
            # assigned on the class after the class statement ran
            cls.init_prefix = spec['late_prefix']
            eff['prefix'] = spec['late_prefix']
            self.probes['proto.prefix_assigned_late'] += 1
        proto = cls()
        if spec.get('inst_prefix'):
            proto.init_prefix = spec['inst_prefix']     # on the instance
            eff['prefix'] = spec['inst_prefix']
            self.probes['proto.prefix_assigned_late'] += 1
        for m in spec.get('inst_methods', []):
            # a callable stored on the instance: found by getattr as well
            def imake(t):
                o = t()
                o._src = 'methodinst'
                return o
            setattr(proto, m[0] + m[1], imake)
            eff['methods'][m[0] + m[1]] = 'inst'
            self.probes['proto.method_kind.instance'] += 1
        prev = None
        mid = spec.get('mid_prefix')
        for rnd in range(2):
            base_prefix = eff['prefix']
            try:
                with kernel.budget(OP_BUDGET):
                    if mid and rnd == 0 and len(eff['types']) >= 2:
                        # the consumer changes the prefix between two
                        # components of one iteration: what is built next
                        # goes by the prefix of that moment
                        itr = iter(proto)
                        got = [next(itr)]
                        proto.init_prefix = mid
                        got += list(itr)
                        self.probes['proto.prefix_changed_mid_iteration'] \
                            += 1
                    else:
                        got = list(proto)
            except Exception as e:
                self.fail('prototype_source', f'iterating the prototype '
                          f'raised {type(e).__name__}: {e}')
            if len(got) != len(eff['types']):
                self.fail('prototype_order', f'{len(got)} components, '
                          f'{len(eff["types"])} listed')
            for pos, (o, i) in enumerate(zip(got, eff['types'])):
                T = types[i]
                if type(o) is not T:
                    self.fail('prototype_order', f'position {pos}: a '
                              f'{type(o).__name__}/{getattr(type(o), "_nsp", "?")}'
                              f', listed type {T.__name__}/{T._nsp}')
                pref_now = eff['prefix']
                if mid and rnd == 0 and len(eff['types']) >= 2:
                    pref_now = base_prefix if pos == 0 else mid
                mname = pref_now + T.__name__
                if i in eff['dict']:
                    want = f'dict{eff["dict"][i]}'
                    self.probes['proto.dict_wins'] += (mname in
                                                       eff['methods'])
                elif mname in eff['methods']:
                    want = f'method{eff["methods"][mname]}'
                    self.probes['proto.prefix_method'] += 1
                    if pref_now != 'init_':
                        self.probes['proto.custom_prefix'] += 1
                else:
                    want = 'ctor'
                    self.probes['proto.default_ctor'] += 1
                if o._src != want:
                    self.fail('prototype_source', f'{T.__name__}/{T._nsp} '
                              f'was built by {o._src}, expected {want} '
                              f'(prefix {eff["prefix"]!r})')
            if mid and rnd == 0 and len(eff['types']) >= 2:
                eff['prefix'] = mid     # (stays on the instance)
            if prev is not None and any(a is b for a in got for b in prev):
                self.fail('prototype_not_fresh', 'second iteration reused '
                          'objects of the first')
            prev = got
            if rnd == 0 and spec.get('rename'):
                # a listed type is renamed between two uses of the
                # prototype: the prefix method goes by the current name
                i, new = spec['rename']
                if i < len(types):
                    types[i].__name__ = new
                    self.probes['proto.type_renamed_between_uses'] += 1
        self.probes['proto_iterated_twice'] += 1
        names = [types[i].__name__ for i in eff['types']]
        if len(set(names)) < len(names):
            self.probes['same_name_types'] += 1
        eid = self.w1.create_entity(*proto)
        if len(self.w1.get_components(eid)) != len({
                types[i] for i in eff['types']}):
            self.fail('prototype_order', 'create_entity(*prototype) did not '
                      'attach one component per listed type')
        self.w1.delete_entity(eid, immediate=True)
        self.w2.create_entity()     # keep the automatic ids in step
        sources = 0
        for i in eff['types']:
            mname = eff['prefix'] + types[i].__name__
            if i in eff['dict'] and mname in eff['methods']:
                sources = 2
        if sources >= 2:
            self.flags.add('proto2')

    # ---- differential sweep
    def view(self, w):
        out = {}
        for i, K in enumerate(self.K):
            lst = w.get(K)
            out[f'get{i}'] = sorted((repr(e), self.lab(c)) for e, c in lst)
            if isinstance(lst, list):
                lst.clear()             # the caller owns the returned list
        out['entities'] = sorted(map(repr, w.entities))
        out['procs'] = [self.lab(p) for p in w.processors]
        out['prios'] = [p.priority for p in w.processors]
        for slot, s in self.slots.items():
            e = s['eid']
            out[f'comps{slot}'] = sorted(self.lab(c)
                                         for c in w.get_components(e))
            out[f'exists{slot}'] = w.entity_exists(e)
            for i, K in enumerate(self.K):
                out[f'has{slot}.{i}'] = w.has_component(e, K)
                out[f'getc{slot}.{i}'] = self.lab(w.get_component(e, K))
        return out

    def sweep(self):
        v1, v2 = self.view(self.w1), self.view(self.w2)
        if v1 != v2:
            diff = {k: (v1[k], v2[k]) for k in v1 if v1[k] != v2.get(k)}
            self.fail('state_differs', f'twin worlds differ: {diff}')
        self.trace.add('state', kernel.h64(repr(sorted(v1.items()))))
        x1, x2 = self.view(self.x1), self.view(self.x2)
        if x1 != x2:
            diff = {k: (x1[k], x2[k]) for k in x1 if x1[k] != x2.get(k)}
            self.fail('state_differs', f'the shorthand changed another '
                      f'world than the World call did: {diff}')
        if self.enabled:
            for slot, s in self.slots.items():
                c = s['ctl']
                if self.w1.is_handler(c) and (
                        c.entity != s['eid'] or c.world is not self.w1):
                    self.fail('owner', f'controller of slot {slot}: entity='
                              f'{c.entity!r} world ok={c.world is self.w1}, '
                              f'owner is {s["eid"]!r}')

    def nontrivial(self):
        shorthand = {f for f in self.forms if f != 'factory'}
        return (len(shorthand) >= 3 and len(self.slots) >= 2) or \
            'proto2' in self.flags


def execute(scenario, prop, tolerate=frozenset()):
    it = Interp(scenario, prop, tolerate)
    violation = None
    idx = -1
    s0 = kernel.StepBudget.total
    try:
        for idx, op in enumerate(scenario['ops']):
            it.exec_op(op)
    except Violation as v:
        violation = v.to_json()
        violation['op'] = idx
    it.stats['steps'] = kernel.StepBudget.total - s0
    return {'violation': violation, 'digest': it.trace.digest(),
            'nontrivial': it.nontrivial(), 'probes': dict(it.probes),
            'faults': {}, 'known': {}, 'stats': dict(it.stats),
            'trace_tail': it.trace.tail(25)}


# --------------------------------------------------------------------------
# generation

def gen_proto(rng):
    names = ['A', 'B', 'C', 'A']            # two types named 'A'
    if rng.random() < .15:
        # names that, with the prefix in front, spell an attribute the
        # Prototype class has anyway (init_prefix, init_methods)
        names[rng.randrange(3)] = rng.choice(['prefix', 'methods'])
    ntypes = rng.randint(1, 4)
    types = [[names[i], f'ns{i}'] for i in range(ntypes)]
    levels = []
    for level in range(rng.choice([1, 1, 2])):
        s = {}
        if level == 0 or rng.random() < .4:
            k = rng.randint(1, ntypes)
            s['types'] = [rng.randrange(ntypes) for _ in range(k)]
        if rng.random() < .6:
            s['dict'] = [i for i in range(ntypes) if rng.random() < .4]
        if rng.random() < .3:
            s['prefix'] = rng.choice(['mk_', 'build', 'init_'])
        pref = s.get('prefix', levels[0].get('prefix', 'init_') if levels
                     else 'init_')
        meths = []
        for n in sorted(set(names[:ntypes])):
            if n in ('prefix', 'methods'):
                continue        # no method: the default constructor it is
            if rng.random() < .5:
                m = [pref if rng.random() < .8 else 'init_', n]
                if rng.random() < .3:
                    m.append(rng.choice(['static', 'class', 'partial']))
                meths.append(m)
        s['methods'] = meths
        levels.append(s)
    out = {'types': types, 'levels': levels}
    if rng.random() < .15:
        # the prefix changes after the class was created; methods with the
        # old and the new prefix exist for some types
        new = rng.choice(['mk_', 'build', 'init_', 'late_'])
        out[rng.choice(['late_prefix', 'inst_prefix'])] = new
        extra = [[new, n] for n in sorted(set(names[:ntypes]))
                 if n not in ('prefix', 'methods') and rng.random() < .6]
        levels[-1]['methods'] = levels[-1].get('methods', []) + extra
    if rng.random() < .12:
        pref = levels[-1].get('prefix', levels[0].get('prefix', 'init_'))
        out['inst_methods'] = [[pref, rng.choice(
            [n for n in names[:ntypes] if n not in ('prefix', 'methods')]
            or ['A'])]]
    if rng.random() < .1:
        out['defaultdict'] = True
    if rng.random() < .1 and not out.get('rename'):
        new = rng.choice(['mk_', 'build', 'init_', 'late_'])
        out['mid_prefix'] = new
        levels[-1]['methods'] = levels[-1].get('methods', []) + [
            [new, n] for n in sorted(set(names[:ntypes]))
            if n not in ('prefix', 'methods') and rng.random() < .6]
    if rng.random() < .12:
        out['rename'] = [rng.randrange(ntypes), rng.choice(['A', 'B', 'C',
                                                            'Z'])]
    return out


def generate(prop, run_seed, tier='quick', tolerate=frozenset()):
    crng = kernel.stream(run_seed, 'cfg')
    rng = kernel.stream(run_seed, 'gen')
    nk = crng.randint(2, 5)
    classes = [None] + [crng.choice([None] + list(range(i)))
                        for i in range(1, nk)]
    npc = crng.randint(1, 3)
    pclasses = [crng.choice([None, -1, 0, 1, 2]) for _ in range(npc)]
    controllers = []
    for _ in range(crng.randint(1, 2)):
        controllers.append({
            'refs': sorted(crng.sample(range(nk), crng.randint(0, nk))),
            'prefs': sorted(crng.sample(range(npc), crng.randint(0, npc)))})
    cfg = {'policy': crng.choice(kernel.POLICIES), 'classes': classes,
           'pclasses': pclasses, 'controllers': controllers,
           'world_sub': crng.random() < .2}
    forms = ['function', 'method', 'descriptor']
    ops = []
    deep = tier == 'thorough'
    n = min(160 if deep else 60,
            4 + int(crng.expovariate(1 / (28 if deep and crng.random() < .5
                                          else 14))))
    nslots = crng.randint(1, 4)
    kinds = ['create', 'add', 'remove', 'query', 'delete', 'pref',
             'process', 'toggle', 'upd', 'proto', 'adopt', 'move_updater']
    w = [2.5, 4, 3, 4, .8, 2, 1.5, .7, 1, .8, .5, .3]
    for k in range(len(w)):
        if kinds[k] not in ('create', 'add') and crng.random() < .2:
            w[k] = 0
    while len(ops) < n:
        kind = rng.choices(kinds, w)[0] if len(ops) >= 1 else 'create'
        slot = rng.randrange(nslots)
        if kind == 'create':
            ops.append(['create', slot, rng.randrange(len(controllers)),
                        rng.sample(range(nk), rng.randint(0, min(3, nk)))])
        elif kind == 'add':
            ops.append(['add', slot, rng.randrange(nk), rng.choice(forms)])
        elif kind == 'remove':
            ops.append(['remove', slot, rng.randrange(nk),
                        rng.choice(forms)])
        elif kind == 'query':
            ops.append(['query', slot, rng.choice(['has', 'get', 'get',
                                                   'all']),
                        rng.randrange(nk), rng.choice(forms)])
        elif kind == 'delete':
            ops.append(['delete', slot, rng.choice(forms[:2])])
        elif kind == 'pref':
            what = rng.choice(['get', 'set', 'del', 'get', 'set'])
            op = ['pref', slot, rng.randrange(npc), what]
            if what == 'set' and rng.random() < .4:
                op.append(rng.choice([-2, -1, 0, 1, 3, 7]))
            elif what == 'set' and rng.random() < .25:
                op.append('foreign')
            ops.append(op)
        elif kind == 'move_updater':
            ops.append(['move_updater', rng.choice(DTS)])
        elif kind == 'process':
            ops.append(['process', rng.choice(DTS)])
        elif kind == 'toggle':
            ops.append(['toggle', rng.random() < .6])
        elif kind == 'upd':
            ops.append(['upd', rng.randrange(3),
                        rng.choice(['add', 'add', 'remove'])])
        elif kind == 'proto':
            ops.append(['proto', gen_proto(rng)])
        else:
            ops.append(['adopt', slot])
    if crng.random() < .08:
        ops.insert(crng.randint(0, len(ops)), ['orphan'])
    return {'format': 1, 'engine': 'twin', 'config': cfg, 'ops': ops,
            'scripts': {}}


def simplify(sc):
    if sc['config'].get('policy') != 'fifo':
        c = copy.deepcopy(sc)
        c['config']['policy'] = 'fifo'
        yield c
    for k, op in enumerate(sc['ops']):
        if op[0] == 'process' and op[1] != 1:
            c = copy.deepcopy(sc)
            c['ops'][k][1] = 1
            yield c
        if op[0] == 'create' and op[3]:
            for j in range(len(op[3])):
                c = copy.deepcopy(sc)
                del c['ops'][k][3][j]
                yield c


INFO = {'C19': {
    'rule': 'twin worlds: every operation on an entity that carries a '
            'controller goes through a randomly chosen shorthand form on W1 '
            'and the World call on W2 (components created pairwise); return '
            'values and a full query sweep are compared after every step; '
            'Prototype source matrix (dict entry / prefix method / default '
            'constructor, custom prefixes, sub-prototypes, equal __name__ '
            'in two namespaces), each iterated twice; OnUpdateProcessor '
            'frames with generated dt; non-trivial = >=3 shorthand forms '
            'on a world with >=2 controller entities, or a prototype type '
            'with >=2 sources present; distinct = distinct trace digests',
    'components': {
        'real': ['desper.logic: add_component/remove_component/has_component/'
                 'get_component/get_components/delete, Controller, '
                 'controller(), ComponentReference, ProcessorReference, '
                 'Prototype, OnUpdateProcessor', 'desper.World (both twins)'],
        'stub': ['component / processor / listener classes (generated per '
                 'run)', 'set iteration order (SimSet seam)']},
    'assumptions': [
        'the real World is the reference: C19 is refinement against it, '
        'whatever C01-C07 decide about World itself',
        'shorthands are issued only through controllers whose on_add has '
        'been delivered (a controller without world cannot be used)']}}
for _v in INFO.values():
    _v['rule'] += (
        '; swarm dimensions (see probes): World subclasses overriding queries, processors that live in another world, instance priorities, prototype sources incl. static/class/partial/instance-level init methods, prefixes assigned late or on the instance, types named like attributes or sharing a __name__, an OnUpdateProcessor that spends a frame in another world, a world reached through its controller only, listed types renamed between two uses of a prototype, init_methods mappings with __missing__, the prefix changed between two components of one iteration')
PROBES = {'C19': ['form.function', 'form.method', 'form.descriptor_get',
                  'form.descriptor_set', 'form.descriptor_del',
                  'form.processor_ref', 'form.factory',
                  'controller_attached_disabled', 'proto.dict_wins',
                  'proto.prefix_method', 'proto.default_ctor',
                  'processor_from_another_world', 'world_subclass',
                  'proto.method_kind.static',
                  'proto.method_kind.class', 'proto.method_kind.partial',
                  'proto.method_kind.instance', 'proto.prefix_assigned_late',
                  'updater_moved_between_worlds',
                  'proto.custom_prefix', 'proto.override',
                  'proto_iterated_twice', 'same_name_types',
                  'on_update_checked', 'instance_priority']}

"""Transform engine: C20 (DESIGN.md section 3).

Assignment histories on Transform2D/Transform3D instances with scripted
listeners (shared between transforms, added and removed in between); the
delivery log of every assignment is compared with a read-back of the
property, inside the callback and right after the assignment.
"""
import collections
import copy

from .. import kernel
from ..kernel import Violation, SimHang

Counter = collections.Counter
PROPS = ['position', 'rotation', 'scale']
EVENT = {p: f'on_{p}_change' for p in PROPS}
ROT2 = [0, 42, 359.5, 360, 370, 720.25, -10, -360, 1000.0, -0.5, 0.25,
        -720, 359.75, 1e6]
COMPS = [0, 1, -1, 0.5, 2, 10.25, -3.5, 100]


class Interp:
    def __init__(self, scenario, prop, tolerate):
        self.sc, self.cfg = scenario, scenario['config']
        self.prop = prop
        self.trace = kernel.Trace()
        self.probes, self.faults = Counter(), Counter()
        self.known, self.stats = Counter(), Counter()
        self.desper = d = kernel.begin_run(
            self.cfg.get('policy', 'fifo'),
            kernel.stream(scenario.get('run_seed', 0), 'sched'),
            scenario.get('run_seed', 0) & 0xffff, self.trace)
        import desper.math as dmath
        self.dmath = dmath
        it = self
        self.calls = []
        self.ncalls = Counter()
        self.nest = []
        self.executed = []
        self.current = None         # (transform idx, prop) being assigned

        def make_method(ev):
            def method(self, value):
                it.called(self, ev, value)
            method.__name__ = ev
            return method

        self.lclasses = []
        for i, names in enumerate(self.cfg['lclasses']):
            ns = {EVENT[p]: make_method(EVENT[p]) for p in PROPS}
            cls = type(f'L{i}', (), ns)
            cls = d.event_handler(*[EVENT[p] for p in names])(cls)
            self.lclasses.append(cls)
        self.listeners = []
        for i, ci in enumerate(self.cfg['listeners']):
            o = self.lclasses[ci]()
            o._label = f'l{i}'
            kernel.label(o, o._label)
            self.listeners.append(o)
        self.transforms, self.dims, self.model = [], [], []
        for i, spec in enumerate(self.cfg['transforms']):
            dim = spec['dim']
            T = d.Transform2D if dim == 2 else d.Transform3D
            kw = {k: self.value(dim, k, v)
                  for k, v in (spec.get('ctor') or {}).items()}
            t = T(**kw)
            kernel.label(t, f't{i}')
            self.transforms.append(t)
            self.dims.append(dim)
            m = {}
            V = dmath.Vec2 if dim == 2 else dmath.Vec3
            one = V(*([1.] * dim))
            zero = V()
            m['position'] = V(*kw['position']) if 'position' in kw else zero
            m['scale'] = V(*kw['scale']) if 'scale' in kw else one
            if dim == 2:
                m['rotation'] = ('rot2', kw.get('rotation', 0.))
            else:
                m['rotation'] = V(*kw['rotation']) if 'rotation' in kw \
                    else zero
            self.model.append(m)
            if spec.get('ctor'):
                self.probes['constructed_with_values'] += 1
        self.reg = [set() for _ in self.transforms]    # listener idxs

    def value(self, dim, prop, v):
        """Scenario value -> Python value."""
        if prop == 'rotation' and dim == 2:
            return v
        kind, comps = v
        comps = comps[:dim] + [0] * (dim - len(comps))
        if kind == 'tuple':
            return tuple(comps)
        if kind == 'list' and prop != 'ctor':
            return list(comps)
        V = self.dmath.Vec2 if dim == 2 else self.dmath.Vec3
        return V(*comps)

    def fail(self, kind, detail):
        raise Violation('C20', kind, detail)

    def called(self, listener, ev, value):
        li = int(listener._label[1:])
        inside = None
        if self.current is not None:
            t, prop = self.current
            try:
                inside = getattr(self.transforms[t], prop)
            except Exception as e:          # pragma: no cover
                inside = e
        self.trace.add('cb', li, ev, repr(value))
        self.calls.append((li, ev, value, inside))
        n = self.ncalls[li]
        self.ncalls[li] += 1
        script = self.sc.get('scripts', {}).get(f'cb:{li}:{n}')
        if script and len(self.nest) < 4:
            for op in script:
                if op[0] == 'assign' and op[1] < len(self.transforms):
                    self.probes['assignment_from_inside_a_callback'] += 1
                    self.nested_assign(op)

    def nested_assign(self, op):
        """An assignment issued by a listener while a notification is being
        delivered (feedback between transforms, clamping, ...)."""
        _, t, prop, v = op
        val = self.value(self.dims[t], prop, v)
        self.nest.append((t, prop, val))
        self.executed.append((t, prop, val))
        self.model[t][prop] = ('rot2', val) if (
            prop == 'rotation' and self.dims[t] == 2) else val
        saved = self.current
        self.current = (t, prop)
        try:
            setattr(self.transforms[t], prop, val)
        finally:
            self.current = saved
            self.nest.pop()
        self.last_assigned = t

    def check_reads(self):
        for i, t in enumerate(self.transforms):
            for prop in PROPS:
                got = getattr(t, prop)
                want = self.model[i][prop]
                if isinstance(want, tuple) and want and want[0] == 'rot2':
                    raw = want[1]
                    ok = (0 <= got < 360 and (got - raw) % 360 == 0)
                    if not ok:
                        self.fail('stored_value', f't{i}.rotation reads '
                                  f'{got!r} after {raw!r} was given '
                                  f'(expected the value reduced modulo 360)')
                elif not (got == want):
                    kind = 'shared_default' if self.last_assigned not in (
                        None, i) else 'stored_value'
                    self.fail(kind, f't{i}.{prop} reads {got!r}, expected '
                              f'{want!r} (last assignment was on '
                              f't{self.last_assigned})')

    last_assigned = None

    def exec_op(self, op):
        self.stats['ops'] += 1
        self.trace.add('op', *op)
        name = op[0]
        if name == 'add':
            _, li, t = op
            self.transforms[t].add_handler(self.listeners[li])
            if self.cfg['lclasses'][self.cfg['listeners'][li]]:
                self.reg[t].add(li)
            if sum(1 for r in self.reg if li in r) >= 2:
                self.probes['shared_listener'] += 1
        elif name == 'remove':
            _, li, t = op
            self.transforms[t].remove_handler(self.listeners[li])
            self.reg[t].discard(li)
        elif name == 'assign':
            self.assign(op)
        self.check_reads()

    def assign(self, op):
        _, t, prop, v = op
        dim = self.dims[t]
        val = self.value(dim, prop, v)
        self.calls = []
        self.executed = [(t, prop, val)]
        self.nest = [(t, prop, val)]
        self.current = (t, prop)
        try:
            with kernel.budget(20000):
                setattr(self.transforms[t], prop, val)
        except Violation:
            raise
        except SimHang as e:
            self.fail('hang', str(e))
        except Exception as e:
            self.fail('assign_raised', f't{t}.{prop} = {val!r} raised '
                      f'{type(e).__name__}: {e}')
        finally:
            self.current = None
            self.nest = []
        if len(self.executed) > 1:
            return self.judge_cascade()
        self.last_assigned = t
        if prop == 'rotation' and dim == 2:
            self.model[t][prop] = ('rot2', val)
            if not 0 <= val < 360:
                self.probes['rotation_out_of_range'] += 1
                if self.reg[t]:
                    self.probes['rotation_out_of_range_with_listener'] += 1
            if val < 0:
                self.probes['negative_rotation'] += 1
        else:
            self.model[t][prop] = val
        after = getattr(self.transforms[t], prop)
        ev = EVENT[prop]
        want = Counter()
        for li in self.reg[t]:
            names = self.cfg['lclasses'][self.cfg['listeners'][li]]
            if prop in names:
                want[li] += 1
        got = Counter()
        for li, gev, value, inside in self.calls:
            if gev != ev:
                self.fail('cross_talk', f'assignment to t{t}.{prop} '
                          f'notified {gev} on l{li}')
            got[li] += 1
            if not (value == after) or (
                    isinstance(after, tuple) and value is not after):
                self.fail('notified_value', f't{t}.{prop} = {val!r}: '
                          f'listener l{li} was told {value!r}, the property '
                          f'reads {after!r}')
            if not (inside == value):
                self.fail('stored_value', f't{t}.{prop} = {val!r}: inside '
                          f'the callback the property still read '
                          f'{inside!r}, notified value {value!r}')
        if got != want:
            extra = got - want
            kind = 'cross_talk' if any(
                li not in self.reg[t] for li in extra) else 'count'
            self.fail(kind, f't{t}.{prop} = {val!r}: listeners called '
                      f'{dict(got)}, expected {dict(want)}')
        others = [li for li in self.reg[t] if li not in want]
        if others:
            self.probes['cross_event_silence_checked'] += 1
        self.stats['assignments'] += 1

    def judge_cascade(self):
        """Several assignments ran inside one another: every one of them
        notifies every listener of its transform and event exactly once,
        with the value it stored (values are unique per assignment)."""
        want = Counter()
        for k, (t, prop, val) in enumerate(self.executed):
            stored = val % 360. if (prop == 'rotation'
                                    and self.dims[t] == 2) else val
            if k == 0 and prop == 'rotation' and self.dims[t] == 2:
                self.model[t][prop] = self.model[t][prop]
            for li in self.reg[t]:
                names = self.cfg['lclasses'][self.cfg['listeners'][li]]
                if prop in names:
                    want[(li, EVENT[prop], repr(stored))] += 1
        # the first assignment's model entry (nested ones set theirs)
        t0, p0, v0 = self.executed[0]
        if not any((t, p) == (t0, p0) for t, p, v in self.executed[1:]):
            self.model[t0][p0] = ('rot2', v0) if (
                p0 == 'rotation' and self.dims[t0] == 2) else v0
        got = Counter((li, ev, repr(value))
                      for li, ev, value, inside in self.calls)
        if got != want:
            missing = list((want - got).elements())
            extra = list((got - want).elements())
            self.fail('count', f'assignments {self.executed} (nested in one '
                      f'another): notifications missing {missing}, '
                      f'unexpected {extra}')
        self.probes['cascade_checked'] += 1
        self.last_assigned = None
        self.stats['assignments'] += len(self.executed)

    def nontrivial(self):
        return bool(self.probes['rotation_out_of_range_with_listener']
                    or self.probes['shared_listener'])


def execute(scenario, prop, tolerate=frozenset()):
    violation = None
    idx = -1
    s0 = kernel.StepBudget.total
    it = None
    try:
        it = Interp(scenario, prop, tolerate)
        it.check_reads()
        for idx, op in enumerate(scenario['ops']):
            it.exec_op(op)
    except Violation as v:
        violation = v.to_json()
        violation['op'] = idx
    stats = dict(it.stats) if it else {}
    stats['steps'] = kernel.StepBudget.total - s0
    return {'violation': violation,
            'digest': it.trace.digest() if it else 'ctor',
            'nontrivial': it.nontrivial() if it else False,
            'probes': dict(it.probes) if it else {},
            'faults': {}, 'known': {}, 'stats': stats,
            'trace_tail': it.trace.tail(20) if it else []}


def gen_value(rng, dim, prop):
    if prop == 'rotation' and dim == 2:
        return rng.choice(ROT2)
    return [rng.choice(['vec', 'vec', 'tuple', 'list']),
            [rng.choice(COMPS) for _ in range(dim)]]


def generate(prop, run_seed, tier='quick', tolerate=frozenset()):
    crng = kernel.stream(run_seed, 'cfg')
    rng = kernel.stream(run_seed, 'gen')
    transforms = []
    for _ in range(crng.randint(1, 4)):
        dim = crng.choice([2, 2, 3])
        ctor = None
        if crng.random() < .5:
            ctor = {p: gen_value(crng, dim, p) for p in PROPS
                    if crng.random() < .6}
            for p in ('position', 'scale'):
                if p in ctor:
                    ctor[p][0] = 'tuple' if crng.random() < .7 else 'vec'
        transforms.append({'dim': dim, 'ctor': ctor})
    lclasses = []
    for _ in range(crng.randint(1, 3)):
        lclasses.append([p for p in PROPS if crng.random() < .6] or
                        [crng.choice(PROPS)])
    listeners = [crng.randrange(len(lclasses))
                 for _ in range(crng.randint(1, 4))]
    cfg = {'policy': crng.choice(kernel.POLICIES), 'transforms': transforms,
           'lclasses': lclasses, 'listeners': listeners}
    ops = []
    nt, nl = len(transforms), len(listeners)
    for li in range(nl):
        for t in range(nt):
            if rng.random() < .5:
                ops.append(['add', li, t])
    n = min(50, 3 + int(crng.expovariate(1 / 10)))
    while len(ops) < n:
        r = rng.random()
        if r < .7:
            t = rng.randrange(nt)
            p = rng.choice(PROPS)
            ops.append(['assign', t, p, gen_value(rng, transforms[t]['dim'],
                                                  p)])
        elif r < .87:
            ops.append(['add', rng.randrange(nl), rng.randrange(nt)])
        else:
            ops.append(['remove', rng.randrange(nl), rng.randrange(nt)])
    scripts = {}
    if crng.random() < .25:
        # feedback: a listener assigns again from inside its callback
        uniq = [0]

        def unique_value(dim, p):
            uniq[0] += 1
            if p == 'rotation' and dim == 2:
                return 1000.25 + uniq[0]
            return ['vec', [500 + uniq[0]] + [1] * (dim - 1)]
        for _ in range(rng.randint(1, 4)):
            li = rng.randrange(nl)
            t = rng.randrange(nt)
            p = rng.choice(PROPS)
            scripts[f'cb:{li}:{rng.randint(0, 6)}'] = [
                ['assign', t, p, unique_value(transforms[t]['dim'], p)]]
    return {'format': 1, 'engine': 'transform', 'config': cfg, 'ops': ops,
            'scripts': scripts}


def simplify(sc):
    if sc['config'].get('policy') != 'fifo':
        c = copy.deepcopy(sc)
        c['config']['policy'] = 'fifo'
        yield c
    for k, t in enumerate(sc['config']['transforms']):
        if t.get('ctor'):
            c = copy.deepcopy(sc)
            c['config']['transforms'][k]['ctor'] = None
            yield c


INFO = {'C20': {
    'rule': 'seeded assignment histories on 1-4 Transform2D/3D instances '
            '(default- and value-constructed, rotations outside [0,360) and '
            'negative, exactly representable) with 1-4 listeners shared '
            'between transforms, added/removed in between, under five '
            'listener orders; non-trivial = an out-of-range rotation '
            'assigned with a listener present, or a listener shared by >=2 '
            'transforms; distinct = distinct trace digests',
    'components': {
        'real': ['desper.logic.spatial.Transform2D/Transform3D',
                 'desper.events.EventDispatcher', 'desper.math.Vec2/Vec3'],
        'stub': ['listener bodies (recording actors)',
                 'listener iteration order (SimSet seam)']},
    'assumptions': [
        'values are exactly representable, so "% 360." is exact and the '
        'oracle compares with ==',
        'dispatching stays enabled (the statement does not cover a muted '
        'transform)',
        'little schedule dimension of its own: listener order and the '
        'add/remove history; no fault is injected']}}
PROBES = {'C20': ['rotation_out_of_range', 'negative_rotation',
                  'shared_listener', 'cross_event_silence_checked',
                  'constructed_with_values',
                  'rotation_out_of_range_with_listener',
                  'assignment_from_inside_a_callback', 'cascade_checked']}

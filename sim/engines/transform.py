"""Transform engine: C20 (DESIGN.md section 3).

Assignment histories on Transform2D/Transform3D instances with scripted
listeners (shared between transforms, added and removed in between); the
delivery log of every assignment is compared with a read-back of the
property, inside the callback and right after the assignment.
"""
import collections
import copy

from .. import kernel
from ..kernel import Violation, SimHang

Counter = collections.Counter
PROPS = ['position', 'rotation', 'scale']
EVENT = {p: f'on_{p}_change' for p in PROPS}
ROT2 = [0, 42, 359.5, 360, 370, 720.25, -10, -360, 1000.0, -0.5, 0.25,
        -720, 359.75, 1e6,
        # whole numbers beyond 2**53: exactly representable as ints
        2 ** 53 + 1, -(2 ** 53 + 1), 10 ** 18 + 7, 2 ** 64 + 33,
        # residues a hair below a full turn (exact in binary)
        359.99999999999994, -2.0 ** -42, 720 - 2.0 ** -41, 360 - 2.0 ** -40,
        # other real number types (their % need not follow Python's sign
        # rule, their float() need not be exact)
        ['D', '-30'], ['D', '-0.5'], ['D', '725.25'], ['D', '-360'],
        ['D', '100000000000000000001'], ['F', -1441, 4], ['F', 2885, 4],
        # huge and not whole: the residue (x.5, x.25) is exact
        ['F', 2 ** 61 + 1, 2], ['D', '1152921504606846976.5'],
        ['F', -(2 ** 70) - 1, 4]]
COMPS = [0, 1, -1, 0.5, 2, 10.25, -3.5, 100]


def _rep(v):
    """repr, with the two float zeros taken for one number."""
    return repr(v + 0.0) if isinstance(v, float) else repr(v)


class Interp:
    def __init__(self, scenario, prop, tolerate):
        self.sc, self.cfg = scenario, scenario['config']
        self.prop = prop
        self.trace = kernel.Trace()
        self.probes, self.faults = Counter(), Counter()
        self.known, self.stats = Counter(), Counter()
        self.desper = d = kernel.begin_run(
            self.cfg.get('policy', 'fifo'),
            kernel.stream(scenario.get('run_seed', 0), 'sched'),
            scenario.get('run_seed', 0) & 0xffff, self.trace)
        import desper.math as dmath
        self.dmath = dmath
        it = self
        self.calls = []
        self.ncalls = Counter()
        self.nest = []
        self.executed = []
        self.current = None         # (transform idx, prop) being assigned

        def make_method(ev, owner=-1):
            def method(self, value):
                it.last_owner = owner
                it.called(self, ev, value)
            method.__name__ = ev
            method._owner = owner
            return method

        # a class is a list of property names (decorated root class), or
        # {'base': k, 'names': [...] | None, 'override': [...]}: a subclass,
        # decorated again (names) or not (None), overriding some callbacks
        self.lclasses = []
        self.lnames = []
        for i, spec in enumerate(self.cfg['lclasses']):
            if isinstance(spec, dict):
                base = self.lclasses[spec['base']]
                ns = {EVENT[p]: make_method(EVENT[p], i)
                      for p in spec.get('override', [])}
                cls = type(f'L{i}', (base,), ns)
                names = list(self.lnames[spec['base']])
                if spec.get('names') is not None:
                    cls = d.event_handler(
                        *[EVENT[p] for p in spec['names']])(cls)
                    names += [p for p in spec['names'] if p not in names]
                if ns:
                    self.probes['listener_subclass_overrides'] += 1
            else:
                names = list(spec)
                ns = {EVENT[p]: make_method(EVENT[p]) for p in PROPS}
                kinds = self.cfg.get('cbkinds', {}).get(str(i), {})
                for p, kind in kinds.items():
                    # callbacks that are not plain functions: the dispatcher
                    # calls whatever the class attribute is with
                    # (listener, value)
                    f = ns[EVENT[p]]
                    if kind == 'partial':
                        import functools
                        w = functools.partial(f)
                        w._owner = -1
                    elif kind == 'static':
                        w = staticmethod(f)
                    else:
                        class CallableObj:
                            _owner = -1

                            def __call__(self, listener, value, f=f):
                                return f(listener, value)
                        w = CallableObj()
                    ns[EVENT[p]] = w
                    self.probes['callback_not_a_plain_function'] += 1
                if self.cfg.get('inst_events', {}).get(str(i)):
                    # the mapping is an attribute of each instance; the class
                    # itself maps something else (or nothing)
                    mine = {EVENT[p]: EVENT[p] for p in names}
                    other = self.cfg['inst_events'][str(i)]

                    def __init__(self, mine=mine):
                        self.__events__ = dict(mine)
                    ns['__init__'] = __init__
                    cls = type(f'L{i}', (), ns)
                    if other != 'none':
                        cls = d.event_handler(*[EVENT[p] for p in other])(cls)
                    self.probes['instance_level_mapping'] += 1
                else:
                    cls = type(f'L{i}', (), ns)
                    cls = d.event_handler(*[EVENT[p] for p in names])(cls)
            self.lclasses.append(cls)
            self.lnames.append(names)
        self.listeners = []
        for i, ci in enumerate(self.cfg['listeners']):
            o = self.lclasses[ci]()
            o._label = f'l{i}'
            kernel.label(o, o._label)
            self.listeners.append(o)
        # two hidden listeners of every event, registered only while a
        # 'chain' / 'storm' operation runs
        Hidden = d.event_handler(*EVENT.values())(type(
            'Hidden', (), {EVENT[p]: make_method(EVENT[p]) for p in PROPS}))
        self.lclasses.append(Hidden)
        self.lnames.append(list(PROPS))
        self.hidden = len(self.listeners)
        for k in range(2):
            o = Hidden()
            o._label = f'l{self.hidden + k}'
            kernel.label(o, o._label)
            self.listeners.append(o)
        self.chain_left = 0
        self.storm = False
        self.uniq = 0
        self.last_owner = None
        self.transforms, self.dims, self.model = [], [], []
        self.eqT = {}
        for i, spec in enumerate(self.cfg['transforms']):
            dim = spec['dim']
            T = d.Transform2D if dim == 2 else d.Transform3D
            if self.cfg.get('teq'):
                # transform subclasses with value equality (all of one
                # class are equal and hash alike): each is still its own
                # dispatcher with its own listeners
                T = self.eqT.setdefault(dim, type(
                    f'EqTransform{dim}D', (T,), {
                        '__eq__': lambda a, b: type(a) is type(b),
                        '__hash__': lambda a: 17}))
                self.probes['transforms_with_value_equality'] += 1
            kw = {k: self.value(dim, k, v)
                  for k, v in (spec.get('ctor') or {}).items()}
            t = T(**kw)
            kernel.label(t, f't{i}')
            self.transforms.append(t)
            self.dims.append(dim)
            m = {}
            V = dmath.Vec2 if dim == 2 else dmath.Vec3
            one = V(*([1.] * dim))
            zero = V()
            m['position'] = V(*kw['position']) if 'position' in kw else zero
            m['scale'] = V(*kw['scale']) if 'scale' in kw else one
            if dim == 2:
                m['rotation'] = ('rot2', kw.get('rotation', 0.))
            else:
                m['rotation'] = V(*kw['rotation']) if 'rotation' in kw \
                    else zero
            self.model.append(m)
            if spec.get('ctor'):
                self.probes['constructed_with_values'] += 1
        self.reg = [set() for _ in self.transforms]    # listener idxs

    def value(self, dim, prop, v):
        """Scenario value -> Python value."""
        if prop == 'rotation' and dim == 2:
            if isinstance(v, list):
                self.probes['rotation_of_another_real_type'] += 1
                if v[0] == 'D':
                    from decimal import Decimal
                    return Decimal(v[1])
                from fractions import Fraction
                return Fraction(v[1], v[2])
            return v
        kind, comps = v
        comps = comps[:dim] + [0] * (dim - len(comps))
        if kind == 'tuple':
            return tuple(comps)
        if kind == 'list' and prop != 'ctor':
            return list(comps)
        V = self.dmath.Vec2 if dim == 2 else self.dmath.Vec3
        return V(*comps)

    def fail(self, kind, detail):
        raise Violation('C20', kind, detail)

    def names_of(self, li):
        if li >= self.hidden:
            return PROPS
        return self.lnames[self.cfg['listeners'][li]]

    def called(self, listener, ev, value):
        li = int(listener._label[1:])
        inside = None
        if self.current is not None:
            t, prop = self.current
            try:
                inside = getattr(self.transforms[t], prop)
            except Exception as e:          # pragma: no cover
                inside = e
        want_owner = getattr(getattr(type(listener), ev), '_owner', None)
        if self.last_owner != want_owner:
            self.fail('wrong_method', f'l{li}.{ev}: the function defined by '
                      f'class L{self.last_owner} ran, the listener\'s class '
                      f'resolves {ev} to the one of L{want_owner}')
        self.trace.add('cb', li, ev, repr(value))
        self.calls.append((li, ev, value, inside))
        if li == self.hidden and self.chain_left > 0 and self.current:
            # feedback chain: assign again, one level deeper
            self.chain_left -= 1
            t, prop = self.current
            self.uniq += 1
            v = 2000.25 + self.uniq if (prop == 'rotation'
                                        and self.dims[t] == 2) else \
                ['vec', [3000 + self.uniq] + [1] * (self.dims[t] - 1)]
            self.nested_assign(['assign', t, prop, v])
            return
        if li == self.hidden + 1 and self.storm:
            self.raised += 1
            raise kernel.Boom('listener raised')
        n = self.ncalls[li]
        self.ncalls[li] += 1
        script = self.sc.get('scripts', {}).get(f'cb:{li}:{n}')
        if script and len(self.nest) < 4 and not self.storm:
            for op in script:
                if op[0] == 'echo' and self.current is not None:
                    # the very object just received is assigned again to the
                    # same property of the same transform: one more
                    # assignment, one more round of notifications
                    t, prop = self.current
                    self.probes['received_object_assigned_again'] += 1
                    self.nested_assign(['assign', t, prop, None], raw=value)
                elif op[0] == 'assign' and op[1] < len(self.transforms):
                    self.probes['assignment_from_inside_a_callback'] += 1
                    self.nested_assign(op)

    def nested_assign(self, op, raw=None):
        """An assignment issued by a listener while a notification is being
        delivered (feedback between transforms, clamping, ...)."""
        _, t, prop, v = op
        val = raw if raw is not None else self.value(self.dims[t], prop, v)
        self.nest.append((t, prop, val))
        self.executed.append((t, prop, val))
        self.model[t][prop] = ('rot2', val) if (
            prop == 'rotation' and self.dims[t] == 2) else val
        saved = self.current
        self.current = (t, prop)
        try:
            setattr(self.transforms[t], prop, val)
        finally:
            self.current = saved
            self.nest.pop()
        self.last_assigned = t

    def check_reads(self):
        for i, t in enumerate(self.transforms):
            for prop in PROPS:
                got = getattr(t, prop)
                want = self.model[i][prop]
                if isinstance(want, tuple) and want and want[0] == 'rot2':
                    raw = want[1]
                    # exact arithmetic: the given number reduced modulo 360
                    from fractions import Fraction
                    ok = (0 <= got < 360
                          and Fraction(got) == Fraction(raw) % 360)
                    if not ok:
                        self.fail('stored_value', f't{i}.rotation reads '
                                  f'{got!r} after {raw!r} was given '
                                  f'(expected the value reduced modulo 360)')
                elif not (got == want):
                    kind = 'shared_default' if self.last_assigned not in (
                        None, i) else 'stored_value'
                    self.fail(kind, f't{i}.{prop} reads {got!r}, expected '
                              f'{want!r} (last assignment was on '
                              f't{self.last_assigned})')

    last_assigned = None

    def exec_op(self, op):
        self.stats['ops'] += 1
        self.trace.add('op', *op)
        name = op[0]
        if name == 'add':
            _, li, t = op
            self.transforms[t].add_handler(self.listeners[li])
            if self.names_of(li):
                self.reg[t].add(li)
            if sum(1 for r in self.reg if li in r) >= 2:
                self.probes['shared_listener'] += 1
        elif name == 'remove':
            _, li, t = op
            self.transforms[t].remove_handler(self.listeners[li])
            self.reg[t].discard(li)
        elif name == 'assign':
            self.assign(op)
        elif name == 'chain':
            # a listener that assigns again from inside its callback, `depth`
            # levels deep (every level notifies everybody once)
            _, t, prop, v, depth = op
            h = self.listeners[self.hidden]
            self.transforms[t].add_handler(h)
            self.reg[t].add(self.hidden)
            self.chain_left = depth
            try:
                self.assign(['assign', t, prop, v], budget=400 * depth + 20000)
            finally:
                self.chain_left = 0
                self.transforms[t].remove_handler(h)
                self.reg[t].discard(self.hidden)
            self.probes['feedback_chain>64'] += depth > 64
        elif name == 'storm':
            # n assignments during each of which a listener raises; the
            # assignments after the storm are judged as usual
            _, t, prop, n = op
            h = self.listeners[self.hidden + 1]
            self.transforms[t].add_handler(h)
            self.storm = True
            try:
                for k in range(n):
                    self.uniq += 1
                    val = 4000.25 + self.uniq if (
                        prop == 'rotation' and self.dims[t] == 2) else \
                        self.value(self.dims[t], prop,
                                   ['vec', [5000 + self.uniq] * self.dims[t]])
                    self.raised = 0
                    self.current = (t, prop)
                    try:
                        with kernel.budget(20000):
                            setattr(self.transforms[t], prop, val)
                    except kernel.Boom:
                        pass
                    except SimHang as e:
                        self.fail('hang', str(e))
                    finally:
                        self.current = None
                    self.model[t][prop] = ('rot2', val) if (
                        prop == 'rotation' and self.dims[t] == 2) else val
                    self.last_assigned = t
                    if self.raised != 1:
                        self.fail('count', f'assignment {k + 1} of a series '
                                  f'on t{t}.{prop}: the (raising) listener '
                                  f'was called {self.raised} times')
            finally:
                self.storm = False
                self.transforms[t].remove_handler(h)
            self.probes['raising_listener_storm'] += 1
        self.check_reads()

    raised = 0

    def assign(self, op, budget=20000):
        _, t, prop, v = op
        dim = self.dims[t]
        val = self.value(dim, prop, v)
        self.calls = []
        self.executed = [(t, prop, val)]
        self.nest = [(t, prop, val)]
        self.current = (t, prop)
        try:
            with kernel.budget(budget):
                setattr(self.transforms[t], prop, val)
        except Violation:
            raise
        except SimHang as e:
            self.fail('hang', str(e))
        except Exception as e:
            self.fail('assign_raised', f't{t}.{prop} = {val!r} raised '
                      f'{type(e).__name__}: {e}')
        finally:
            self.current = None
            self.nest = []
        if len(self.executed) > 1:
            return self.judge_cascade()
        self.last_assigned = t
        if prop == 'rotation' and dim == 2:
            self.model[t][prop] = ('rot2', val)
            if not 0 <= val < 360:
                self.probes['rotation_out_of_range'] += 1
                if self.reg[t]:
                    self.probes['rotation_out_of_range_with_listener'] += 1
            if val < 0:
                self.probes['negative_rotation'] += 1
        else:
            self.model[t][prop] = val
        after = getattr(self.transforms[t], prop)
        ev = EVENT[prop]
        want = Counter()
        for li in self.reg[t]:
            names = self.names_of(li)
            if prop in names:
                want[li] += 1
        got = Counter()
        for li, gev, value, inside in self.calls:
            if gev != ev:
                self.fail('cross_talk', f'assignment to t{t}.{prop} '
                          f'notified {gev} on l{li}')
            got[li] += 1
            if not (value == after) or (
                    isinstance(after, tuple) and value is not after):
                self.fail('notified_value', f't{t}.{prop} = {val!r}: '
                          f'listener l{li} was told {value!r}, the property '
                          f'reads {after!r}')
            if not (inside == value):
                self.fail('stored_value', f't{t}.{prop} = {val!r}: inside '
                          f'the callback the property still read '
                          f'{inside!r}, notified value {value!r}')
        if got != want:
            extra = got - want
            kind = 'cross_talk' if any(
                li not in self.reg[t] for li in extra) else 'count'
            self.fail(kind, f't{t}.{prop} = {val!r}: listeners called '
                      f'{dict(got)}, expected {dict(want)}')
        others = [li for li in self.reg[t] if li not in want]
        if others:
            self.probes['cross_event_silence_checked'] += 1
        self.stats['assignments'] += 1

    def judge_cascade(self):
        """Several assignments ran inside one another: every one of them
        notifies every listener of its transform and event exactly once,
        with the value it stored (values are unique per assignment)."""
        want = Counter()
        for k, (t, prop, val) in enumerate(self.executed):
            from fractions import Fraction
            stored = float(Fraction(val) % 360) if (
                prop == 'rotation' and self.dims[t] == 2) else val
            if k == 0 and prop == 'rotation' and self.dims[t] == 2:
                self.model[t][prop] = self.model[t][prop]
            for li in self.reg[t]:
                names = self.names_of(li)
                if prop in names:
                    want[(li, EVENT[prop], _rep(stored))] += 1
        # the first assignment's model entry (nested ones set theirs)
        t0, p0, v0 = self.executed[0]
        if not any((t, p) == (t0, p0) for t, p, v in self.executed[1:]):
            self.model[t0][p0] = ('rot2', v0) if (
                p0 == 'rotation' and self.dims[t0] == 2) else v0
        got = Counter((li, ev, _rep(value))
                      for li, ev, value, inside in self.calls)
        if got != want:
            missing = list((want - got).elements())
            extra = list((got - want).elements())
            self.fail('count', f'assignments {self.executed} (nested in one '
                      f'another): notifications missing {missing}, '
                      f'unexpected {extra}')
        self.probes['cascade_checked'] += 1
        self.last_assigned = None
        self.stats['assignments'] += len(self.executed)

    def nontrivial(self):
        return bool(self.probes['rotation_out_of_range_with_listener']
                    or self.probes['shared_listener'])


def execute(scenario, prop, tolerate=frozenset()):
    violation = None
    idx = -1
    s0 = kernel.StepBudget.total
    it = None
    try:
        it = Interp(scenario, prop, tolerate)
        it.check_reads()
        for idx, op in enumerate(scenario['ops']):
            it.exec_op(op)
    except Violation as v:
        violation = v.to_json()
        violation['op'] = idx
    stats = dict(it.stats) if it else {}
    stats['steps'] = kernel.StepBudget.total - s0
    return {'violation': violation,
            'digest': it.trace.digest() if it else 'ctor',
            'nontrivial': it.nontrivial() if it else False,
            'probes': dict(it.probes) if it else {},
            'faults': {}, 'known': {}, 'stats': stats,
            'trace_tail': it.trace.tail(20) if it else []}


def gen_value(rng, dim, prop):
    if prop == 'rotation' and dim == 2:
        return rng.choice(ROT2)
    return [rng.choice(['vec', 'vec', 'tuple', 'list']),
            [rng.choice(COMPS) for _ in range(dim)]]


def generate(prop, run_seed, tier='quick', tolerate=frozenset()):
    crng = kernel.stream(run_seed, 'cfg')
    rng = kernel.stream(run_seed, 'gen')
    transforms = []
    for _ in range(crng.randint(1, 4)):
        dim = crng.choice([2, 2, 3])
        ctor = None
        if crng.random() < .5:
            ctor = {p: gen_value(crng, dim, p) for p in PROPS
                    if crng.random() < .6}
            for p in ('position', 'scale'):
                if p in ctor:
                    ctor[p][0] = 'tuple' if crng.random() < .7 else 'vec'
        transforms.append({'dim': dim, 'ctor': ctor})
    lclasses = []
    for _ in range(crng.randint(1, 3)):
        lclasses.append([p for p in PROPS if crng.random() < .6] or
                        [crng.choice(PROPS)])
    extra = {}
    if crng.random() < .15:
        extra['cbkinds'] = {str(i): {p: crng.choice(['partial', 'static',
                                                     'object'])
                                     for p in PROPS if crng.random() < .5}
                            for i in range(len(lclasses))}
    if crng.random() < .15:
        extra['inst_events'] = {
            str(i): crng.choice(['none', [crng.choice(PROPS)],
                                 list(PROPS)])
            for i in range(len(lclasses)) if crng.random() < .6}
    if crng.random() < .3:
        # subclasses of listener classes: decorated again or not, overriding
        # some of the callbacks
        for _ in range(crng.randint(1, 2)):
            ok = [i for i in range(len(lclasses))
                  if str(i) not in extra.get('inst_events', {})
                  and not (isinstance(lclasses[i], dict) and str(
                      lclasses[i]['base']) in extra.get('inst_events', {}))]
            if not ok:
                break
            lclasses.append({
                'base': crng.choice(ok),
                'names': ([p for p in PROPS if crng.random() < .5]
                          if crng.random() < .4 else None),
                'override': [p for p in PROPS if crng.random() < .6]})
    listeners = [crng.randrange(len(lclasses))
                 for _ in range(crng.randint(1, 4))]
    cfg = {'policy': crng.choice(kernel.POLICIES), 'transforms': transforms,
           'teq': crng.random() < .1,
           'lclasses': lclasses, 'listeners': listeners}
    cfg.update(extra)
    ops = []
    nt, nl = len(transforms), len(listeners)
    for li in range(nl):
        for t in range(nt):
            if rng.random() < .5:
                ops.append(['add', li, t])
    n = min(50, 3 + int(crng.expovariate(1 / 10)))
    while len(ops) < n:
        r = rng.random()
        if r < .7:
            t = rng.randrange(nt)
            p = rng.choice(PROPS)
            ops.append(['assign', t, p, gen_value(rng, transforms[t]['dim'],
                                                  p)])
        elif r < .87:
            ops.append(['add', rng.randrange(nl), rng.randrange(nt)])
        else:
            ops.append(['remove', rng.randrange(nl), rng.randrange(nt)])
    scripts = {}
    if crng.random() < .25:
        # feedback: a listener assigns again from inside its callback
        uniq = [0]

        def unique_value(dim, p):
            uniq[0] += 1
            if p == 'rotation' and dim == 2:
                return 1000.25 + uniq[0]
            return ['vec', [500 + uniq[0]] + [1] * (dim - 1)]
        for _ in range(rng.randint(1, 4)):
            li = rng.randrange(nl)
            t = rng.randrange(nt)
            p = rng.choice(PROPS)
            scripts[f'cb:{li}:{rng.randint(0, 6)}'] = [
                ['assign', t, p, unique_value(transforms[t]['dim'], p)]
                if rng.random() < .75 else ['echo']]
    r = crng.random()
    if r < .04:
        t = crng.randrange(nt)
        p = crng.choice(PROPS)
        k = crng.randint(0, len(ops))
        ops[k:k] = [['chain', t, p, gen_value(rng, transforms[t]['dim'], p),
                     crng.choice([3, 20, 63, 64, 65, 70, 100])]]
    elif r < .08:
        t = crng.randrange(nt)
        k = crng.randint(0, len(ops))
        ops[k:k] = [['storm', t, crng.choice(PROPS),
                     crng.choice([2, 10, 63, 64, 65, 80, 130])]]
    return {'format': 1, 'engine': 'transform', 'config': cfg, 'ops': ops,
            'scripts': scripts}


def simplify(sc):
    if sc['config'].get('policy') != 'fifo':
        c = copy.deepcopy(sc)
        c['config']['policy'] = 'fifo'
        yield c
    for k, t in enumerate(sc['config']['transforms']):
        if t.get('ctor'):
            c = copy.deepcopy(sc)
            c['config']['transforms'][k]['ctor'] = None
            yield c


INFO = {'C20': {
    'rule': 'seeded assignment histories on 1-4 Transform2D/3D instances '
            '(default- and value-constructed, rotations outside [0,360) and '
            'negative, exactly representable) with 1-4 listeners shared '
            'between transforms, added/removed in between, under five '
            'listener orders; non-trivial = an out-of-range rotation '
            'assigned with a listener present, or a listener shared by >=2 '
            'transforms; distinct = distinct trace digests',
    'components': {
        'real': ['desper.logic.spatial.Transform2D/Transform3D',
                 'desper.events.EventDispatcher', 'desper.math.Vec2/Vec3'],
        'stub': ['listener bodies (recording actors)',
                 'listener iteration order (SimSet seam)']},
    'assumptions': [
        'values are exactly representable, so "% 360." is exact and the '
        'oracle compares with ==',
        'dispatching stays enabled (the statement does not cover a muted '
        'transform)',
        'little schedule dimension of its own: listener order and the '
        'add/remove history; no fault is injected']}}
for _v in INFO.values():
    _v['rule'] += (
        '; swarm dimensions (see probes): listener subclasses (decorated again or not) overriding callbacks, instance-level mappings, callbacks that are partials / static methods / callable objects, feedback chains up to 100 levels, storms of raising listeners, the received object assigned again from its own callback, Decimal and Fraction rotations, residues a hair below a full turn, transform subclasses with value equality, huge non-whole rationals')
PROBES = {'C20': ['rotation_out_of_range', 'negative_rotation',
                  'shared_listener', 'cross_event_silence_checked',
                  'constructed_with_values',
                  'rotation_out_of_range_with_listener',
                  'assignment_from_inside_a_callback', 'cascade_checked',
                  'listener_subclass_overrides', 'feedback_chain>64',
                  'callback_not_a_plain_function', 'instance_level_mapping',
                  'received_object_assigned_again',
                  'raising_listener_storm']}

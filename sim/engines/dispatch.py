"""Dispatch engine: C03, C04, C10 (DESIGN.md section 3).

One real EventDispatcher (plain, or a World, since it inherits the code) with
scripted handlers.  Callbacks execute scripts that re-enter the dispatcher,
raise, toggle dispatch_enabled, or drop the last reference to a listener.
Every delivery is attributed to a unique token; the release of a disabled
dispatcher is judged as a history over the delivery log.
"""
import collections
import copy
import gc
import json
import sys
import weakref

from .. import kernel
from ..kernel import Violation, Boom, Crash, SimHang

Counter = collections.Counter
OP_BUDGET = 40000
EVENTS = ['a', 'b', 'c', 'd']
METHODS = ['a', 'b', 'c', 'd', 'x', 'y']
TRICKY_KW = {
    4: {'method': 1, 'handler_ref': 2, 'handler': 3, 'args': (4,),
        'kwargs': {'k': 5}, 'name': 6, 'listener': 7, 'callback': 8,
        'method_ref': 9, 'event': 10, 'handlers': 11, 'cls': 12},
    5: {'event_name': 'not the event'},
}


class UnhashableCallable:
    __hash__ = None

    def __init__(self, f):
        self.f = f
        self._owner = getattr(f, '_owner', -1)

    def __eq__(self, other):
        return self is other

    def __call__(self, obj, /, *args, **kwargs):
        return self.f(obj, *args, **kwargs)


class EqCallable(UnhashableCallable):
    """Callback objects with value equality: all of them are equal and hash
    alike (a frozen dataclass with __call__), each wraps its own function."""

    def __eq__(self, other):
        return isinstance(other, EqCallable)

    def __hash__(self):
        return 5


class Actors:
    def __init__(self, desper, config, interp):
        it = interp
        self.desper, self.config = desper, config

        def make_method(mname, owner=-1):
            def method(self, /, *args, **kwargs):
                it.last_owner = owner       # which class's function ran
                it.cb(self, mname, args, kwargs)
                return it.retval(self)      # return values mean nothing
            method.__name__ = mname
            method._owner = owner
            return method

        ns = {m: make_method(m) for m in METHODS}
        for m in config.get('pm', []):
            # callbacks defined with functools.partialmethod: every lookup
            # on the class yields a new function object
            import functools
            ns[m] = functools.partialmethod(ns[m])
            interp.probes['partialmethod_callback'] += 1
        for m in config.get('uc', []):
            # callbacks that are callable objects with value equality and
            # no hash (a dataclass with __call__): registering such a
            # handler either works or is refused as a whole
            ns[m] = UnhashableCallable(ns[m])
            interp.probes['unhashable_callable_callback'] += 1
        eqc = set(config.get('eqc', []))
        for m in eqc:
            ns[m] = EqCallable(ns[m])
            interp.probes['equal_callable_callbacks'] += 1
        ns['_label'] = '?'

        def on_add(self, entity, world):
            it.life_cb(self, entity, world)
        ns['on_add'] = on_add
        heq = config.get('heq')
        if heq == 'equal':          # value equality: all instances of a
            ns['__eq__'] = lambda a, b: type(a) is type(b)   # class are equal
            ns['__hash__'] = lambda a: 7
        elif heq == 'unhashable':   # __eq__ without __hash__ (a dataclass)
            ns['__eq__'] = lambda a, b: a is b
            ns['__hash__'] = None
        self.decos = {}
        self.HRoot = type('HRoot', (), ns)
        self.Mixin = type('Mixin', (), {'helper': lambda self: None})
        self.classes = []
        self.emap = []                  # model: event -> method, per class
        self.own = []                   # own __events__ (None: looked up in
                                        # the base, dynamically)
        self.base2 = []                 # second handler base, if any
        for i, spec in enumerate(config['hclasses']):
            base = spec.get('base')
            base2 = spec.get('base2') if base is not None else None
            bases = (self.classes[base],) if base is not None else (
                self.HRoot,)
            if base2 is not None and base2 != base:
                bases = bases + (self.classes[base2],)  # two handler bases
            else:
                base2 = None
            if spec.get('mixin'):
                bases = bases + (self.Mixin,)
            # a subclass may override callback methods of its bases
            over = {m: (EqCallable(make_method(m, i)) if m in eqc
                        else make_method(m, i))
                    for m in spec.get('override', [])}
            try:
                cls = type(f'H{i}', bases, over)
            except TypeError:           # no consistent MRO: single base
                base2 = None
                bases = tuple(b for b in bases
                              if b is not self.classes[spec['base2']])
                cls = type(f'H{i}', bases, over)
            self.base2.append(base2)
            if base2 is not None:
                interp.probes['two_handler_bases'] += 1
            deco = spec.get('deco')
            inherited = dict(self.emap[base]) if base is not None else {}
            if base2 is not None:
                # "inherit their bases' event mappings": both of them, the
                # first base winning where they disagree
                inherited = {**self.emap[base2], **inherited}
            if deco == 'empty':
                cls = desper.event_handler()(cls)
                own = {}
            elif deco:
                dkey = json.dumps(deco, sort_keys=True)
                if config.get('shared_deco') and dkey in self.decos:
                    # one decorator object applied to several classes
                    interp.probes['decorator_object_reused'] += 1
                else:
                    self.decos[dkey] = desper.event_handler(
                        *deco.get('names', []), **deco.get('maps', {}))
                cls = self.decos[dkey](cls)
                own = {n: n for n in deco.get('names', [])}
                own.update(deco.get('maps', {}))
            else:
                own = {}
            inherited.update(own)
            self.classes.append(cls)
            self.emap.append(inherited)
            self.own.append(dict(inherited) if isinstance(deco, dict)
                            else None)
        tn = config.get('tuple_names')
        if tn:
            def conv(k):
                if k in EVENTS:
                    return (k, 'x') if tn == 2 else (k, 'x', 'y')
                return k
            for cls in self.classes:
                if '__events__' in vars(cls):
                    cls.__events__ = {conv(k): v
                                      for k, v in cls.__events__.items()}

    def mapping(self, i, own=None):
        own = self.own if own is None else own
        if i is None:
            return {}
        if own[i] is not None:
            return dict(own[i])
        m = self.mapping(self.config['hclasses'][i].get('base'), own)
        if self.base2[i] is not None:
            m = {**self.mapping(self.base2[i], own), **m}
        return m

    def redecorate(self, ci, names, maps, dry=False):
        """event_handler applied once more to an existing class: its mapping
        is extended / overridden; classes that have a mapping of their own
        keep it, undecorated subclasses follow.  Returns the classes whose
        mapping changes."""
        own = list(self.own)
        new = self.mapping(ci)
        new.update({n: n for n in names})
        new.update(maps)
        own[ci] = new
        changed = [i for i in range(len(self.classes))
                   if self.mapping(i, own) != self.emap[i]]
        if not dry:
            self.desper.event_handler(*names, **maps)(self.classes[ci])
            self.own = own
            self.emap = [self.mapping(i) for i in range(len(self.classes))]
        return changed

    def check_mappings(self, fail):
        """'without altering the bases': every class maps what the model
        computed from the decorator arguments alone."""
        for i, cls in enumerate(self.classes):
            real = getattr(cls, '__events__', None)
            if real and self.config.get('tuple_names'):
                real = {(k[0] if isinstance(k, tuple) else k): v
                        for k, v in real.items()}
            want = self.emap[i]
            if (real or {}) != want:
                fail('C03', 'base_mapping_changed',
                     f'H{i}.__events__ = {real}, expected {want}')


class Interp:
    def __init__(self, scenario, prop, tolerate):
        self.sc = scenario
        self.cfg = scenario['config']
        self.prop = prop
        self.tolerate = tolerate
        self.trace = kernel.Trace()
        self.probes, self.faults = Counter(), Counter()
        self.known, self.stats = Counter(), Counter()
        self.desper = kernel.begin_run(
            self.cfg.get('policy', 'fifo'),
            kernel.stream(scenario.get('run_seed', 0), 'sched'),
            scenario.get('run_seed', 0) & 0xffff, self.trace)
        d = self.desper
        self.actors = Actors(d, self.cfg, self)
        kind = self.cfg.get('dkind', 'plain')
        self.d = d.World() if kind == 'world' else d.EventDispatcher()
        self.is_world = kind == 'world'
        self.handlers = {}          # slot -> strong ref (the only one)
        self.wrefs = {}             # slot -> weakref
        self.eids = {}              # slot -> entity id (world-owned)
        self.limbo = set()          # dropped but cyclic: alive until gc
        self.limbo_unreg = set()    # same, but already unregistered
        self.must_die = {}          # slot -> weakref expected dead soon
        # model
        self.registered = set()
        self.enabled = True
        self.queue = []             # pending token records
        self.half = set()           # tokens half delivered (lenient)
        self.delivered = {}         # token -> Counter(slot)
        self.tokinfo = {}           # token -> record
        # bookkeeping
        self.log = []               # ('cb', slot, method, token, ok) | marks
        self.cbstack = []           # (slot, token)
        self.dstack = []            # active dispatch/release records
        self.ncb = Counter()        # slot -> deliveries so far
        self.activations = []       # for fault placement (dry run)
        self.unraisable = []
        self.depth = 0
        self.cur_plain = []         # tokens of arg-less dispatches in flight
        self.inflight_ok = set()    # tokens allowed to finish while disabled
        self.last_owner = None
        self.closed = False
        self.clearing = False
        self.fin_count = 0
        self.dropped_tokens = set()
        self.fin_set = set()
        self.deferred_violation = None
        self.raise_tokens = set()
        self.pending_add = Counter()  # queued on_add events not yet delivered
        self.held = set()           # slots a queued event may hold strongly
                                    # (exempt from death checks until the
                                    # queue has been released completely)
        self.die_later = set()
        self.last_exc_type = None
        for s in range(len(self.cfg['handlers'])):
            self.make(s)

    # ---- handler instances
    def make(self, s):
        cls = self.actors.classes[self.cfg['handlers'][s]]
        o = cls()
        o._label = f'h{s}'
        kernel.label(o, o._label)
        if s in self.cfg.get('cyclic', []):
            o.me = o
        self.handlers[s] = o
        self.wrefs[s] = weakref.ref(o)
        return o

    def emap(self, s):
        return self.actors.emap[self.cfg['handlers'][s]]

    RETURNS = {'T': True, 'F': False, '0': 0, '1': 1, 's': 'handled',
               'N': NotImplemented}

    def retval(self, obj):
        lab = getattr(obj, '_label', '?')
        code = self.cfg.get('returns', {}).get(lab[1:])
        if code is not None:
            self.probes['callback_returned_value'] += 1
        return self.RETURNS.get(code)

    def op_rebind(self, op):
        """A callback attribute of a class is bound to a new function
        (monkey-patching, a reloaded module) while no instance of the class
        or of its subclasses is registered: registrations made afterwards
        call the new function."""
        ci, mname = op[1], op[2]
        if self.depth or self.queue or ci >= len(self.actors.classes):
            return 'skip'
        fam = {ci}
        for i, h in enumerate(self.cfg['hclasses']):
            if h.get('base') in fam or (h.get('base2') in fam):
                fam.add(i)
        busy = set(self.registered) | set(self.eids) | self.held | \
            self.limbo | self.limbo_unreg | self.die_later
        live = len(op) > 3 and op[3] == 'live'
        if live:
            # ... or while instances are registered, each of which is then
            # registered again (a module reload re-registering its
            # handlers): from then on the new function is the callback
            if self.is_world or (busy - set(self.registered)):
                return 'skip'
        elif any(self.cfg['handlers'][s] in fam for s in busy):
            return 'skip'
        self.nrebind = getattr(self, 'nrebind', 0) + 1
        owner = 1000 + self.nrebind
        it = self

        def method(self, /, *args, **kwargs):
            it.last_owner = owner
            it.cb(self, mname, args, kwargs)
            return it.retval(self)
        method.__name__ = mname
        method._owner = owner
        if mname in self.cfg.get('eqc', []):
            method = EqCallable(method)
        setattr(self.actors.classes[ci], mname, method)
        self.probes['callback_rebound_on_class'] += 1
        if live:
            for s_ in sorted(self.registered):
                if self.cfg['handlers'][s_] in fam and self.handlers.get(s_) \
                        is not None:
                    self.d.add_handler(self.handlers[s_])
                    self.touch(s_)
                    self.probes['re-registered_after_live_rebind'] += 1

    def op_redeco(self, op):
        """The decorator applied again to a class whose instances have been
        (but are not now) registered."""
        _, ci, names, maps = op
        if self.depth or self.queue or ci >= len(self.actors.classes) \
                or not (names or maps):
            return 'skip'
        changed = self.actors.redecorate(ci, names, maps, dry=True)
        busy = set(self.registered) | set(self.eids) | self.held | \
            self.limbo | self.limbo_unreg | self.die_later
        if any(self.cfg['handlers'][s] in changed for s in busy):
            return 'skip'
        self.actors.redecorate(ci, names, maps)
        self.probes['redecorated_class'] += 1
        self.actors.check_mappings(self.fail)

    def alive(self, s):
        r = self.wrefs.get(s)
        return r is not None and r() is not None

    def fail(self, props, kind, detail=''):
        raise Violation(props, kind, detail)

    def touch(self, s):
        for rec in self.dstack:
            rec['touched'].add(s)
        # registration change marker (the model is already updated)
        self.log.append(('reg', s, s in self.registered))

    def life_cb(self, obj, entity, world):
        """on_add of a World-owned handler (direct or relayed at enable)."""
        if obj is None:
            self.fail('C10', 'none_receiver', 'on_add relayed with '
                      'self=None')
        s = int(obj._label[1:])
        self.trace.add('life', s, 'on_add')
        if self.pending_add[s] > 0:
            self.pending_add[s] -= 1
        self.probes['on_add_delivered'] += 1

    def settle_die_later(self):
        """The queue that legitimately held these objects is empty now."""
        for s in sorted(self.die_later):
            if s in self.cfg.get('cyclic', []):
                self.limbo_unreg.add(s)
            else:
                self.must_die[s] = self.wrefs[s]
        self.die_later.clear()

    def must_be_dead_now(self, s, how):
        """The program has just dropped its last reference to slot s: with
        weak registration only, the object dies at this very instant."""
        if s in self.cfg.get('cyclic', []) or s in self.held:
            return False
        if any(slot == s for slot, _ in self.cbstack):
            return False                # its own callback is on the stack
        r = self.wrefs.get(s)
        if r is not None and r() is not None:
            self.fail('C10', 'kept_alive', f'h{s}: the last reference was '
                      f'dropped ({how}) but the object is still alive: '
                      f'something holds it strongly'
                      + (' during the dispatch' if self.cbstack else ''))
        return True

    # ---- callback entry point (called by the real dispatcher)
    def cb(self, obj, mname, args, kwargs):
        if obj is None:
            self.fail('C10', 'none_receiver',
                      f'method {mname} called with self=None '
                      f'(args {args!r} {kwargs!r})')
        lab = getattr(obj, '_label', '?')
        s = int(lab[1:]) if lab[1:].isdigit() else -1
        if s not in self.wrefs or self.wrefs[s]() is not obj:
            self.fail('C10', 'wrong_receiver', f'{lab}: receiver is not the '
                      f'live instance of its slot')
        if (s not in self.handlers and s not in self.eids
                and s not in self.limbo and s not in self.limbo_unreg
                and s not in self.held and s not in self.die_later
                and not any(slot == s for slot, _ in self.cbstack)):
            self.fail('C10', 'called_after_gone', f'{lab}.{mname} called '
                      f'after the program dropped its last reference')
        import inspect
        attr = inspect.getattr_static(type(obj), mname)
        want_owner = getattr(getattr(attr, 'func', attr), '_owner', None)
        if self.last_owner != want_owner:
            self.fail('C03', 'wrong_method', f'{lab}.{mname}: the function '
                      f'of class H{self.last_owner} was called, the '
                      f'instance\'s class resolves {mname} to H{want_owner}')
        if want_owner not in (-1, None):
            self.probes['overridden_callback_called'] += 1
        token = None
        if args:
            token = args[0]
        elif 'tok' in kwargs:
            token = kwargs['tok']
        elif self.cur_plain:
            token = self.cur_plain[-1]
        info = self.tokinfo.get(token)
        ok = True
        if info is not None:
            ok = self.args_ok(info, args, kwargs)
        n = self.ncb[s]
        self.ncb[s] += 1
        entry = ('cb', s, mname, token, ok)
        self.trace.add(*entry)
        self.log.append(entry)
        self.delivered.setdefault(token, Counter())[s] += 1
        key = f'cb:{s}:{n}'
        in_release = any(r['type'] == 'release' for r in self.dstack)
        self.activations.append({
            'key': key, 'slot': s, 'token': token, 'release': in_release,
            'ev': info['ev'] if info else None,
            'queued_left': len(self.queue), 'listeners': len(self.registered)})
        if token in self.dropped_tokens:
            self.fail('C04', 'delivered_after_clear', f'token {token} was '
                      f'pending when clear() dropped all pending events, '
                      f'and is delivered to h{s} all the same')
        if not self.enabled:
            allowed = self.inflight_ok
            if token not in allowed:
                self.fail('C04', 'delivered_while_disabled',
                          f'h{s}.{mname} called for token {token} while '
                          f'dispatching is disabled')
        if self.delivered[token][s] > 1:
            kind = 'redelivered' if info and info.get('queued') else \
                'double_delivery'
            self.fail(('C04',) if kind == 'redelivered' else ('C03',), kind,
                      f'token {token} delivered {self.delivered[token][s]} '
                      f'times to h{s}')
        if token in self.raise_tokens:
            # the first callback that receives this event raises
            self.raise_tokens.discard(token)
            self.cbstack.append((s, token))
            try:
                self.op_raise(['raise', 'Boom'])
            finally:
                self.cbstack.pop()
        script = self.sc.get('scripts', {}).get(key)
        if script:
            self.cbstack.append((s, token))
            self.depth += 1
            try:
                for op in script:
                    self.exec_op(op)
            finally:
                self.depth -= 1
                self.cbstack.pop()

    def args_ok(self, info, args, kwargs):
        t, shape = info['token'], info['shape']
        if shape == 0:
            return args == () and kwargs == {}
        if shape == 1:
            return args == (t,) and kwargs == {}
        if shape == 2:
            return args == () and kwargs == {'tok': t}
        if shape in (4, 5):
            return args == () and kwargs == dict(TRICKY_KW[shape], tok=t)
        return (len(args) == 2 and args[0] == t and args[1] is info['obj']
                and kwargs == {'k': t})

    # ---- op dispatch
    def fin_dispatch(self, s, ev):
        """Program finalizer of listener s (weakref.finalize registered after
        add_handler, so it runs before the dispatcher's own clean-up): an
        event is dispatched at the very instant the listener dies."""
        if self.closed or self.clearing:
            return      # mid-clear: who is still registered is not defined
        self.fin_count += 1
        self.probes['dispatch_from_finalizer'] += 1
        self.faults['dispatch_while_listener_dies'] += 1
        try:
            self.exec_op(['dispatch', ev, 5000 + self.fin_count, 1])
        except Violation as v:          # finalizers cannot propagate
            v.__traceback__ = None      # (and must not keep frames alive)
            if self.deferred_violation is None:
                self.deferred_violation = v
        except BaseException as e:
            if not getattr(e, '_injected', False):
                raise

    def arm_finalizer(self, s, o):
        ev = self.cfg.get('finalizers', {}).get(str(s))
        if ev is None or getattr(o, '_fin_armed', False):
            return
        o._fin_armed = True     # (not id(o): addresses are reused)
        f = weakref.finalize(o, self.fin_dispatch, s, ev)
        f.atexit = False

    def exec_op(self, op):
        self.stats['ops'] += 1
        self.trace.add('op', self.depth, *op)
        r = getattr(self, 'op_' + op[0])(op)
        if self.deferred_violation is not None and not self.depth:
            v, self.deferred_violation = self.deferred_violation, None
            raise v
        if r == 'skip':
            self.stats['skipped'] += 1
            self.trace.add('skip')
        return r

    def guarded(self, thunk, owner, what, budget=None):
        """Run a desper call under the step budget.  Injected exceptions are
        returned to the caller; anything else is a violation."""
        try:
            with kernel.budget(budget or OP_BUDGET):
                thunk()
            return None
        except Violation:
            raise
        except SimHang as e:
            self.fail(owner, 'hang', f'{what}: {e}')
        except BaseException as e:
            if getattr(e, '_injected', False):
                e.__traceback__ = None  # no frame cycle keeping handlers
                return e
            kind = 'dispatch_raised'
            if 'NoneType' in str(e) and 'C10' not in owner:
                owner = tuple(owner) + ('C10',)
            self.fail(owner, kind, f'{what} raised {type(e).__name__}: {e}')

    def finish(self, exc, what):
        """Injected exception: propagate when nested, record at top level."""
        if exc is None:
            return
        if self.depth:
            raise exc
        self.trace.add('outcome', what, type(exc).__name__)
        self.last_exc_type = type(exc).__name__

    # ---- registration
    def op_add_handler(self, op):
        s = op[1]
        o = self.handlers.get(s)
        if o is None or not self.emap(s):
            return 'skip'
        if s in self.registered:
            self.probes['double_registration'] += 1
        if self.cfg.get('uc'):
            try:
                self.d.add_handler(o)
            except TypeError as ex:
                # refused as a whole: what was registered stays as it was
                ex.__traceback__ = None
                self.probes['registration_refused'] += 1
                self.faults['add_handler_refused'] += 1
                self.trace.add('refused', s)
                self.touch(s)
                return None
            self.arm_finalizer(s, o)
            self.registered.add(s)
            self.touch(s)
            return None
        e = self.guarded(lambda: self.d.add_handler(o), ('C03',),
                         f'add_handler(h{s})')
        self.arm_finalizer(s, o)
        self.registered.add(s)
        self.touch(s)
        self.finish(e, 'add_handler')

    def op_remove_handler(self, op):
        s = op[1]
        o = self.handlers.get(s)
        if o is None or not self.emap(s):
            return 'skip'
        if s not in self.registered:
            self.probes['remove_unregistered'] += 1
        if self.cbstack:
            self.probes['remove_mid_dispatch'] += 1
        e = self.guarded(lambda: self.d.remove_handler(o), ('C03',),
                         f'remove_handler(h{s})')
        self.registered.discard(s)
        self.touch(s)
        self.finish(e, 'remove_handler')

    def op_is_handler(self, op):
        s = op[1]
        o = self.handlers.get(s)
        if o is None or not self.emap(s):
            return 'skip'
        got = bool(self.d.is_handler(o))
        if got != (s in self.registered):
            self.fail(('C03', 'C10'), 'is_handler',
                      f'is_handler(h{s}) = {got}, model '
                      f'{s in self.registered}')

    def op_attach(self, op):
        """World only: the world becomes an owner of the handler."""
        s = op[1]
        o = self.handlers.get(s)
        if (not self.is_world or o is None or not self.emap(s)
                or s in self.eids):
            return 'skip'
        e = self.guarded(
            lambda: self.eids.__setitem__(s, self.d.create_entity(o)),
            ('C03',), f'create_entity(h{s})')
        self.arm_finalizer(s, o)
        self.registered.add(s)
        self.touch(s)
        if 'on_add' in self.emap(s) and not self.enabled and e is None:
            self.pending_add[s] += 1
            self.held.add(s)
            self.probes['pending_event_keeps_alive'] += 1
        if s in self.cfg.get('weak_slots', []):
            del self.handlers[s]        # the world is the only owner now
        self.finish(e, 'attach')

    def op_detach(self, op):
        """World only: remove the component/entity owning the handler."""
        s, how = op[1], op[2]
        if not self.is_world or s not in self.eids:
            return 'skip'
        eid = self.eids.pop(s)
        cls = self.actors.classes[self.cfg['handlers'][s]]
        sole = s not in self.handlers
        if how == 'deferred' and self.cbstack:
            how = 'delete_now'          # no frame from inside a callback
        if self.cbstack:
            self.probes['drop_via.' + how] += 1
            self.note_victim(s)
        elif how == 'deferred':
            self.probes['drop_via.deferred'] += 1
        if how == 'remove_component':
            thunk = lambda: self.d.remove_component(eid, cls)   # noqa
        elif how == 'deferred':
            def thunk():
                self.d.delete_entity(eid)
                self.d.process(1)       # the world has no processors
        else:
            thunk = lambda: self.d.delete_entity(eid, immediate=True)  # noqa
        self.registered.discard(s)
        self.touch(s)
        if sole and s in self.held:
            self.die_later.add(s)       # a queued on_add may still hold it
        elif sole and s in self.cfg.get('cyclic', []):
            self.limbo_unreg.add(s)     # unregistered, dies at the next gc
        elif sole:
            self.must_die[s] = self.wrefs[s]
        if sole:
            self.faults['last_ref_dropped_' + (
                'mid_dispatch' if self.cbstack else 'between_ops')] += 1
        e = self.guarded(thunk, ('C10', 'C03'), f'{how}(h{s})')
        if sole and e is None:
            if s in self.held:
                self.must_die.pop(s, None)
                self.die_later.add(s)
            elif self.must_be_dead_now(s, how):
                self.must_die.pop(s, None)
                self.probes['death_verified'] += 1
        self.finish(e, 'detach')

    def note_victim(self, victim):
        """Probe: was the victim still ahead in an in-flight dispatch?"""
        for rec in self.dstack:
            if rec['type'] != 'dispatch' or victim not in rec['s0']:
                continue
            got = self.delivered.get(rec['token'], {}).get(victim, 0)
            self.probes['victim_behind' if got else 'victim_ahead'] += 1

    def op_drop(self, op):
        s = op[1]
        if s not in self.handlers:
            return 'skip'
        if s in self.eids:
            # the world still owns it: dropping our reference kills nothing
            del self.handlers[s]
            return None
        if self.cbstack:
            self.probes['drop_via.registry'] += 1
            self.note_victim(s)
        cyc = s in self.cfg.get('cyclic', [])
        self.faults['last_ref_dropped_' + (
            'mid_dispatch' if self.cbstack else 'between_ops')] += 1
        self.trace.add('fault', 'drop', s)
        if cyc:
            self.limbo.add(s)           # alive (and listening) until gc
            del self.handlers[s]
            return None
        self.registered.discard(s)
        self.touch(s)
        if s in self.held:
            self.die_later.add(s)       # a queued on_add may still hold it
            del self.handlers[s]
            return None
        self.must_die[s] = self.wrefs[s]
        del self.handlers[s]            # refcount -> weakref callback now
        if self.must_be_dead_now(s, 'registry reference deleted'):
            del self.must_die[s]
            self.probes['death_verified'] += 1

    def op_kill(self, op):
        """Drop the last reference to slot s by whatever route applies."""
        s = op[1]
        if s in self.eids:
            how = 'remove_component' if (s + len(self.log)) % 2 else \
                'delete_now'
            if s in self.handlers:
                del self.handlers[s]
            return self.op_detach(['detach', s, how])
        return self.op_drop(['drop', s])

    def op_clear_world(self, op):
        """World.clear(): every World-owned handler loses its owner and
        every registration is dropped."""
        if not self.is_world or self.cbstack:
            return 'skip'
        victims = [s for s in self.eids if s not in self.handlers]
        self.eids.clear()
        self.registered.clear()
        self.queue = []
        self.half.clear()
        self.pending_add.clear()
        self.held.clear()
        self.enabled = True             # EventDispatcher.clear re-enables
        self.clearing = True
        try:
            e = self.guarded(lambda: self.d.clear(), ('C10', 'C03'),
                             'clear()')
        finally:
            self.clearing = False
        for s in victims:
            self.probes['drop_via.clear'] += 1
            if s in self.cfg.get('cyclic', []):
                self.limbo_unreg.add(s)
            elif self.must_be_dead_now(s, 'World.clear()'):
                self.probes['death_verified'] += 1
        self.settle_die_later()
        self.finish(e, 'clear_world')

    def op_clear_disp(self, op):
        """EventDispatcher.clear() (plain dispatchers): all handlers and all
        pending events are dropped for good, dispatching is enabled - also
        when a callback of a running release does it."""
        if self.is_world:
            return 'skip'
        started = {e[3] for e in self.log if e[0] == 'cb'}
        dropped = [q for q in self.queue if q['token'] not in started]
        for q in self.queue:
            if q['token'] in started:
                self.half.add(q['token'])   # in flight: lenient
        for q in dropped:
            q['dropped'] = len(self.log)
        self.dropped_tokens.update(q['token'] for q in dropped)
        self.queue = [q for q in self.queue if q['token'] in started]
        self.half.update(t for _, t in self.cbstack)
        for s in sorted(self.registered):
            self.registered.discard(s)
            self.touch(s)
        self.enabled = True
        self.log.append(('flag', True))
        self.probes['dispatcher_cleared'] += 1
        if self.cbstack:
            self.probes['dispatcher_cleared_from_a_callback'] += 1
            self.faults['clear_from_callback'] += 1
        e = self.guarded(lambda: self.d.clear(), ('C04', 'C03'), 'clear()')
        self.finish(e, 'clear')

    def op_deep_chain(self, op):
        """A chain of n re-entrant dispatches (each callback dispatches the
        next event before it returns) on a dispatcher of its own: every
        dispatch has called its listener by the time it returns."""
        if self.cbstack or self.depth:
            return 'skip'
        n = op[1]
        d2 = self.desper.EventDispatcher()
        calls, late = [], []

        def ev(self, k):
            calls.append(k)
            if k < n:
                d2.dispatch('ev', k + 1)
                if len(calls) <= k + 1 or calls[k + 1] != k + 1:
                    late.append(k + 1)
        H = self.desper.event_handler('ev')(type('Chain', (), {'ev': ev}))
        h = H()
        d2.add_handler(h)
        try:
            with kernel.budget(OP_BUDGET + 60 * n):
                d2.dispatch('ev', 0)
        except SimHang as e:
            self.fail('C03', 'hang', f'chain of {n} dispatches: {e}')
        except RecursionError:
            self.probes['chain_hit_the_recursion_limit'] += 1
            return None
        self.probes['reentrant_chain>=334'] += n >= 334
        if late or calls != list(range(n + 1)):
            self.fail('C03', 'missing_delivery', f'chain of {n} re-entrant '
                      f'dispatches: dispatch number {late[:3] or "?"} had '
                      f'not called the registered listener when it returned '
                      f'(calls in order: {calls[:5]}...{calls[-3:]})')

    def op_mega_burst(self, op):
        """n events postponed in a dispatcher of its own (n beyond a
        million): released all, in order."""
        if self.cbstack or self.depth:
            return 'skip'
        n = op[1]
        d2 = self.desper.EventDispatcher()
        state = {'count': 0, 'bad': None}

        class H:
            def e(self, k):
                if k != state['count'] and state['bad'] is None:
                    state['bad'] = (state['count'], k)
                state['count'] += 1
        H.__events__ = {'e': 'e'}
        h = H()
        d2.add_handler(h)
        d2.dispatch_enabled = False
        resume = kernel.StepBudget.pause()
        try:
            for k in range(n):
                d2.dispatch('e', k)
            d2.dispatch_enabled = True
        except Exception as e:
            self.fail('C04', 'enable_raised', f'{n} postponed events: '
                      f'{type(e).__name__}: {e}')
        finally:
            resume()
        self.probes['burst>2**20'] += n > 2 ** 20
        if state['bad'] is not None or state['count'] != n:
            self.fail('C04', 'lost', f'{n} postponed events: {state["count"]} '
                      f'delivered, first out of order (position, event): '
                      f'{state["bad"]}')

    def op_raise_then_drop(self, op):
        """A callback raises, the exception escapes dispatch() and the
        program handles it; then the program lets go of that listener: it
        is gone at once (no collection needed), like any other."""
        if self.cbstack or self.depth:
            return 'skip'
        d2 = self.desper.EventDispatcher()
        dead = []

        class Oops(Exception):
            pass

        class H:
            def e(self):
                raise Oops('listener failed')

            def __del__(self):
                dead.append(1)
        H.__events__ = {'e': 'e'}
        h = H()
        d2.add_handler(h)
        try:
            d2.dispatch('e')
        except Oops:
            pass                # (handled; nothing of it is kept)
        del h
        self.probes['listener_dropped_after_its_exception_escaped'] += 1
        if not dead:
            self.fail('C10', 'kept_alive', 'a listener whose exception '
                      'escaped dispatch() and was handled by the program is '
                      'still alive after the program dropped it (something '
                      'of the failed dispatch keeps it)')

    def op_plain_queue(self, op):
        """A dispatcher of its own: events without any argument (and one
        with) are postponed and released - each delivered once, in order,
        with nothing added."""
        if self.cbstack or self.depth:
            return 'skip'
        d2 = self.desper.EventDispatcher()
        calls = []
        np_, nq = self.evname('a'), self.evname('b')

        class H:
            def p(self, *a, **k):
                calls.append(('p', a, k))

            def q(self, *a, **k):
                calls.append(('q', a, k))
        H.__events__ = {np_: 'p', nq: 'q'}
        h = H()
        d2.add_handler(h)
        d2.dispatch_enabled = False
        seq = op[1]
        want = []
        for k, c in enumerate(seq):
            if c == 'p':
                d2.dispatch(np_)
                want.append(('p', (), {}))
            elif c == 'q':
                d2.dispatch(nq, k)
                want.append(('q', (k,), {}))
            else:
                d2.dispatch(nq, k=k)
                want.append(('q', (), {'k': k}))
        if calls:
            self.fail('C04', 'delivered_while_disabled', f'a dispatcher of '
                      f'its own delivered {calls} while disabled')
        try:
            with kernel.budget(OP_BUDGET):
                d2.dispatch_enabled = True
        except SimHang as e:
            self.fail('C04', 'hang', f'release: {e}')
        except Exception as e:
            self.fail('C04', 'enable_raised', f'releasing {len(seq)} events '
                      f'(some without arguments, names {np_!r}/{nq!r}) '
                      f'raised {type(e).__name__}: {e}')
        self.probes['postponed_events_without_arguments'] += 1
        if calls != want:
            self.fail('C04', 'order' if sorted(map(repr, calls)) == sorted(
                map(repr, want)) else 'lost', f'postponed {want}, released '
                f'{calls} (names {np_!r}/{nq!r})')

    def op_noweak(self, op):
        """A handler of a type that cannot be weakly referenced (a tuple
        subclass, say a NamedTuple): registering it is refused (TypeError) -
        or, if it is accepted, it is held weakly like any other: once the
        program lets go of it, it is gone and is not called."""
        if self.cbstack:
            return 'skip'
        it = self
        state = {'dead': False, 'calls': 0}

        def on_ev(self, *a, **k):
            state['calls'] += 1

        def fin(self):
            state['dead'] = True
        H = self.desper.event_handler(op[1])(type(
            'TupleHandler', (tuple,), {op[1]: on_ev, '__del__': fin}))
        h = H()
        self.probes['handler_without_weakref_support'] += 1
        try:
            self.d.add_handler(h)
        except TypeError as e:
            e.__traceback__ = None
            self.probes['registration_refused'] += 1
            return None
        del h
        if not state['dead']:
            gc.collect()
        if not state['dead']:
            self.fail('C10', 'kept_alive', 'a handler that cannot be weakly '
                      'referenced was accepted by add_handler and is kept '
                      'alive after the program dropped it')
        before = state['calls']
        if self.enabled:
            self.guarded(lambda: self.d.dispatch(op[1]), ('C10',),
                         'dispatch after the drop')
        if state['calls'] != before:
            self.fail('C10', 'called_after_gone', 'a dropped handler without '
                      'weak reference support was still called')

    def op_gc(self, op):
        if self.cbstack:
            return 'skip'
        # the model first: finalizers of the collected listeners run (and
        # may dispatch) inside gc.collect(), when these are dead already
        # (a finalizer's dispatch may make further listeners unreachable
        # during the collection: those wait for the next one)
        going = sorted(self.limbo)
        going_unreg = sorted(self.limbo_unreg)
        for s in going:
            self.registered.discard(s)
        self.limbo.clear()
        self.limbo_unreg.clear()
        gc.collect()
        for s in going + going_unreg:
            self.must_die[s] = self.wrefs[s]
            self.probes['cyclic_handler_collected'] += 1

    def op_revive(self, op):
        s = op[1]
        if (s in self.handlers or s in self.eids or s in self.limbo
                or s in self.limbo_unreg or s in self.die_later
                or s in self.must_die or s in self.held):
            return 'skip'       # the previous instance is still being tracked
        self.make(s)

    # ---- dispatch
    def eligible(self, ev):
        return {s for s in self.registered if ev in self.emap(s)}

    def op_dispatch(self, op):
        _, ev, token, shape = op
        if token in self.tokinfo:
            return 'skip'               # tokens are unique per run
        if shape == 0 and not self.enabled:
            shape = 1
        obj = ['mutable', token]
        info = {'token': token, 'ev': ev, 'shape': shape, 'obj': obj,
                'queued': not self.enabled}
        self.tokinfo[token] = info
        if shape == 0:
            args, kwargs = (), {}
        elif shape == 1:
            args, kwargs = (token,), {}
        elif shape == 2:
            args, kwargs = (), {'tok': token}
            self.probes['kwargs_only_dispatch'] += 1
        elif shape in (4, 5):
            # keyword names a dispatcher might use for itself
            args, kwargs = (), dict(TRICKY_KW[shape], tok=token)
            self.probes['tricky_keyword_names'] += 1
        else:
            args, kwargs = (token, obj), {'k': token}
        s0 = self.eligible(ev)
        if not self.enabled:
            info['had_listener'] = bool(s0)
            if not s0:
                self.probes['unknown_name_queued'] += 1
            self.queue.append(info)
            start = len(self.log)
            e = self.guarded(lambda: self.d.dispatch(self.evname(ev), *args, **kwargs),
                             ('C04',), f'dispatch({ev}) while disabled')
            if len(self.log) != start:
                self.fail('C04', 'delivered_while_disabled',
                          f'dispatch({ev}, token {token}) while disabled '
                          f'ran {self.log[start:]}')
            self.finish(e, 'dispatch')
            return None
        rec = {'type': 'dispatch', 'token': token, 'ev': ev, 's0': set(s0),
               'touched': set(), 'start': len(self.log)}
        if self.cbstack:
            self.probes['reentrant_dispatch'] += 1
            if any(r['type'] == 'release' for r in self.dstack):
                self.probes['dispatch_during_release'] += 1
        self.dstack.append(rec)
        if shape == 0:
            self.cur_plain.append(token)
        try:
            e = self.guarded(lambda: self.d.dispatch(self.evname(ev), *args, **kwargs),
                             ('C03', 'C10'), f'dispatch({ev})')
        finally:
            self.dstack.pop()
            if shape == 0:
                self.cur_plain.pop()
        self.check_dispatch(rec, aborted=e is not None)
        self.finish(e, 'dispatch')

    def evname(self, ev):
        """The program names its events with a str-mixin Enum (equal to and
        hashing like the plain strings the handlers declare; str() of a
        member is 'Ev.a', not 'a')."""
        tn = self.cfg.get('tuple_names')
        if tn:
            # event names that are tuples (('collision', 'wall'))
            self.probes['tuple_event_name'] += 1
            return (ev, 'x') if tn == 2 else (ev, 'x', 'y')
        if not self.cfg.get('enum_names'):
            return ev
        E = getattr(self, '_enum', None)
        if E is None:
            import enum
            E = self._enum = enum.Enum('Ev', {e: e for e in EVENTS},
                                       type=str)
        self.probes['enum_event_name'] += 1
        return E[ev]

    def op_burst(self, op):
        """n events of one name in a row (queue-length thresholds)."""
        _, ev, n, base = op
        for k in range(n):
            self.op_dispatch(['dispatch', ev, base + k, 1])
        self.probes['burst>=66'] += n >= 66
        self.probes['burst>4096'] += n > 4096
        self.probes['burst>65536'] += n > 65536

    def check_dispatch(self, rec, aborted):
        token, ev = rec['token'], rec['ev']
        got = Counter()
        for entry in self.log[rec['start']:]:
            if entry[0] == 'cb' and entry[3] == token:
                got[entry[1]] += 1
                want_m = self.emap(entry[1]).get(ev)
                if entry[2] != want_m:
                    self.fail('C03', 'wrong_method',
                              f'h{entry[1]}.{entry[2]} called for event '
                              f'{ev!r}, mapped method is {want_m!r}')
                if not entry[4]:
                    self.fail('C03', 'wrong_args',
                              f'h{entry[1]}.{entry[2]} got wrong arguments '
                              f'for token {token} (shape '
                              f'{self.tokinfo[token]["shape"]})')
        nondisabled = self.enabled or True
        for s in rec['s0'] - rec['touched']:
            if got[s] > 1:
                self.fail('C03', 'double_delivery',
                          f'token {token} delivered {got[s]}x to h{s}')
            if got[s] == 0 and not aborted and not rec.get('cut'):
                self.fail(('C03', 'C10'), 'missing_delivery',
                          f'dispatch({ev}) token {token}: registered '
                          f'listener h{s} was not called')
        for s, n in got.items():
            if n > 1:
                self.fail('C03', 'double_delivery',
                          f'token {token} delivered {n}x to h{s}')
            if s not in rec['s0'] and s not in rec['touched']:
                self.fail('C03', 'stray_delivery',
                          f'dispatch({ev}) token {token} reached h{s}, '
                          f'which is not a registered listener of it')
        if len(got) >= 2 and len({self.cfg['handlers'][s] for s in got}) >= 2:
            self.probes['multi_class_dispatch'] += 1
        if not rec['s0']:
            self.probes['dispatch_nobody_listens'] += 1

    # ---- enable / disable
    def op_disable(self, op):
        self.enabled = False
        self.inflight_ok = {t for _, t in self.cbstack}
        if self.cbstack:
            self.half.update(t for _, t in self.cbstack)
            self.faults['nested_disable'] += 1
            self.trace.add('fault', 'nested_disable')
            for rec in self.dstack:
                rec['cut'] = True
        e = self.guarded(lambda: setattr(self.d, 'dispatch_enabled', False),
                         ('C04',), 'disable')
        self.log.append(('flag', False))
        self.finish(e, 'disable')

    def op_enable(self, op):
        nested = any(r['type'] == 'release' for r in self.dstack)
        if self.cbstack:
            self.faults['nested_enable'] += 1
            if nested:
                self.probes['nested_enable_inside_release'] += 1
        self.enabled = True
        self.log.append(('flag', True))
        rec = {'type': 'release', 'touched': set(), 'start': len(self.log),
               'reg0': set(self.registered), 'queue0': list(self.queue)}
        if self.last_exc_type and not self.cbstack:
            self.probes['raise_then_second_enable'] += 1
            self.last_exc_type = None
        self.dstack.append(rec)
        try:
            e = self.guarded(
                lambda: setattr(self.d, 'dispatch_enabled', True),
                ('C04',), 'enable',
                budget=OP_BUDGET + 40 * len(self.queue) * (
                    len(self.registered) + 2))
        finally:
            self.dstack.pop()
        if nested and e is None and self.enabled:
            # the nested assignment returned normally with dispatching on:
            # it has released everything that was pending at that moment
            # (also events that nobody listens to any more)
            for r in self.dstack:
                if r['type'] == 'release':
                    r['drained'] = len(self.queue)
        if not nested:
            self.check_release(rec, e)
        self.finish(e, 'enable')

    def check_release(self, rec, exc):
        """History check of one outermost release (DESIGN C04 clauses)."""
        window = self.log[rec['start']:]
        first = {}
        for k, entry in enumerate(window):
            if entry[0] == 'cb' and entry[3] not in first:
                first[entry[3]] = k
        queue = list(self.queue)
        started = [q for q in queue if q['token'] in first]
        # clause 4: first deliveries follow dispatch order
        idx = [first[q['token']] for q in started]
        if idx != sorted(idx):
            self.fail('C04', 'order', f'queued tokens first delivered in '
                      f'order {[q["token"] for q in sorted(started, key=lambda q: first[q["token"]])]}, '
                      f'dispatched in order {[q["token"] for q in started]}')
        if len(queue) >= 2 and len({q['ev'] for q in queue}) >= 2:
            self.probes['release_multi'] += 1
        complete = exc is None and self.enabled
        stable = rec['reg0'] - rec['touched']
        self.delivery_time_check(rec, window, queue)
        if complete:
            for q in queue:
                self.judge_token(q, stable, rec, full=True)
            self.queue = []
            self.half.clear()
            left = sorted(k for k, v in self.pending_add.items() if v > 0)
            if left and not self.cbstack:
                self.fail(('C10', 'C02'), 'callback_missing', f'on_add '
                          f'postponed for h{left} was not delivered by the '
                          f'enabling assignment')
            self.held.clear()
            self.settle_die_later()
            return
        # partial release: a callback raised or disabled dispatching again
        if exc is not None:
            self.probes['release_aborted_by_raise'] += 1
        else:
            self.probes['release_cut_by_nested_disable'] += 1
        if started:
            last = max(started, key=lambda q: queue.index(q))
            cut = queue.index(last)
            # nothing after the interrupted token may have started
            for q in queue[:cut]:
                self.judge_token(q, stable, rec, full=True)
            self.half.add(last['token'])
            self.queue = queue[max(cut + 1, rec.get('drained', 0)):]
            pos = 'first' if cut == 0 else (
                'last' if cut == len(queue) - 1 else 'middle')
            self.probes['fault_pos.' + pos] += 1
        elif rec.get('drained'):
            self.queue = queue[rec['drained']:]
        # tokens appended during the window (dispatched after a nested
        # disable) are already in self.queue's tail
        for q in self.queue:
            if q['token'] in first and q not in queue:
                self.fail('C04', 'delivered_while_disabled',
                          f'token {q["token"]} was dispatched while '
                          f'disabled and delivered in the same release')

    def delivery_time_check(self, rec, window, queue):
        """'...to the handlers registered at delivery time': replay the
        registration changes of the window; a queued token whose delivery
        starts at some instant goes exactly to the handlers registered at
        that instant (changes made while that very token is in flight are
        lenient)."""
        reg = set(rec['reg0'])
        queued = {q['token']: q for q in queue}
        span = {}                       # token -> [reg at start, first, last]
        for k, e in enumerate(window):
            if e[0] == 'reg':
                if e[2]:
                    reg.add(e[1])
                else:
                    reg.discard(e[1])
            elif e[0] == 'cb' and e[3] in queued:
                if e[3] not in span:
                    span[e[3]] = [set(reg), k, k]
                span[e[3]][2] = k
        import bisect
        starts = sorted(v[1] for v in span.values())
        for token, (reg0, first, last) in span.items():
            q = queued[token]
            if token in self.half or not q.get('had_listener'):
                continue
            # the event is in flight until the next queued one starts
            k = bisect.bisect_right(starts, first)
            last = (starts[k] - 1) if k < len(starts) else len(window) - 1
            touched = {e[1] for e in window[first:last + 1] if e[0] == 'reg'}
            got = Counter(e[1] for e in window[first:last + 1]
                          if e[0] == 'cb' and e[3] == token)
            for s2, n in got.items():
                if s2 not in reg0 and s2 not in touched:
                    self.fail('C04', 'stray_delivery', f'queued token '
                              f'{token} was delivered to h{s2}, which was '
                              f'not registered at delivery time')
            for s2 in reg0 - touched:
                if q['ev'] in self.emap(s2) and got[s2] == 0 and not any(
                        e[0] in ('flag',) for e in window[first:last + 1]):
                    self.fail('C04', 'lost', f'queued token {token} was not '
                              f'delivered to h{s2}, registered at delivery '
                              f'time')
        if span and any(e[0] == 'reg' for e in window):
            self.probes['registration_changed_during_release'] += 1

    def judge_token(self, q, stable, rec, full):
        token, ev = q['token'], q['ev']
        got = self.delivered.get(token, Counter())
        for s in stable:
            if ev not in self.emap(s):
                continue
            if got[s] == 0 and q.get('had_listener') and full \
                    and token not in self.half:
                self.fail('C04', 'lost', f'token {token} (event {ev!r}) was '
                          f'dispatched while disabled and never reached '
                          f'h{s} although enabling returned')
        for s, n in got.items():
            if ev in self.emap(s):
                want_m = self.emap(s)[ev]
            if s not in rec['reg0'] and s not in rec['touched'] \
                    and s not in self.registered:
                self.fail('C04', 'stray_delivery', f'token {token} reached '
                          f'h{s}, not registered during the release')

    # ---- faults
    def op_try(self, op):
        """A callback that guards part of its work with try/except: what an
        injected exception interrupts is only the guarded part."""
        if not self.cbstack:
            return 'skip'
        try:
            for sub in op[1]:
                self.exec_op(sub)
        except BaseException as e:
            if not getattr(e, '_injected', False):
                raise
            e.__traceback__ = None
            self.probes['exception_swallowed_by_callback'] += 1
            self.trace.add('swallowed', type(e).__name__)

    def op_dispatch_r(self, op):
        """dispatch of an event whose first receiver raises."""
        self.raise_tokens.add(op[2])
        return self.op_dispatch(['dispatch'] + list(op[1:]))

    def op_raise(self, op):
        kind = op[1]
        self.faults['raise_' + kind] += 1
        self.trace.add('fault', 'raise', kind)
        d = self.desper
        if kind == 'Quit':
            e = d.Quit()
        elif kind == 'SwitchWorld':
            e = d.SwitchWorld(d.Handle())
        elif kind == 'Crash':
            e = Crash('injected')       # not an Exception (KeyboardInterrupt)
        elif kind in ('IndexError', 'KeyError', 'StopIteration',
                      'AttributeError', 'RuntimeError', 'GeneratorExit',
                      'AssertionError', 'TypeError'):
            # exception types a dispatcher might use internally as signals
            import builtins
            e = getattr(builtins, kind)('injected')
        else:
            e = Boom('injected')
        e._injected = True
        # every event whose delivery is in flight right now is interrupted
        self.half.update(t for _, t in self.cbstack)
        raise e

    # ---- quiescent checks between top-level operations
    def quiescent(self):
        for s, r in list(self.must_die.items()):
            if r() is not None:
                self.fail('C10', 'kept_alive', f'h{s} was dropped by the '
                          f'program but is still alive (something keeps a '
                          f'strong reference)')
            del self.must_die[s]
            self.probes['death_verified'] += 1
        if self.unraisable:
            self.fail('C10', 'unraisable', f'exception in a weakref '
                      f'callback / finaliser: {self.unraisable[0]}')
        for s, o in self.handlers.items():
            if not self.emap(s):
                continue
            got = bool(self.d.is_handler(o))
            if got != (s in self.registered):
                self.fail(('C03', 'C10'), 'is_handler',
                          f'is_handler(h{s}) = {got}, model '
                          f'{s in self.registered}')
        if bool(self.d.dispatch_enabled) != self.enabled:
            self.fail('C04', 'flag_wrong', f'dispatch_enabled reads '
                      f'{self.d.dispatch_enabled}, expected {self.enabled}')

    def teardown(self):
        """The program drops the dispatcher together with every handler:
        after a collection none of them may be alive (a dispatcher that is
        a handler of itself - every World - is reachable only from itself
        then)."""
        refs = {}
        for s, o in self.handlers.items():
            try:
                refs[f'h{s}'] = weakref.ref(o)
            except TypeError:
                pass
        refs['dispatcher'] = weakref.ref(self.d)
        self.handlers.clear()
        self.d = o = None
        self.dstack.clear()
        self.cbstack.clear()
        gc.collect()
        self.probes['teardown_checked'] += 1
        alive = sorted(k for k, r in refs.items() if r() is not None)
        if alive:
            return Violation(('C10',), 'kept_alive', f'after the program '
                             f'dropped the dispatcher and all handlers and '
                             f'ran a collection, still alive: '
                             f'{", ".join(alive[:6])}').to_json()
        return None

    def nontrivial(self):
        p, pr, f = self.prop, self.probes, self.faults
        if p == 'C03':
            return bool(pr['multi_class_dispatch'] or pr['reentrant_dispatch']
                        or pr['remove_mid_dispatch'])
        if p == 'C04':
            return bool(pr['release_multi'] and (
                pr['release_aborted_by_raise']
                or pr['release_cut_by_nested_disable']
                or pr['nested_enable_inside_release']
                or pr['dispatch_during_release']))
        if p == 'C10':
            return bool(pr['victim_ahead'])
        return False


def execute(scenario, prop, tolerate=frozenset()):
    it = Interp(scenario, prop, tolerate)
    violation = None
    idx = -1
    s0 = kernel.StepBudget.total
    old_hook = sys.unraisablehook
    sys.unraisablehook = lambda u: it.unraisable.append(
        f'{type(u.exc_value).__name__}: {u.exc_value}')
    try:
        it.actors.check_mappings(it.fail)
        for idx, op in enumerate(scenario['ops']):
            it.exec_op(op)
            it.quiescent()
    except Violation as v:
        violation = v.to_json()
        violation['op'] = idx
    finally:
        sys.unraisablehook = old_hook
    it.stats['steps'] = kernel.StepBudget.total - s0
    it.closed = True
    if violation is None and prop == 'C10' and it.cfg.get('teardown'):
        violation = it.teardown()
    it.handlers.clear()
    return {'violation': violation, 'digest': it.trace.digest(),
            'nontrivial': it.nontrivial(), 'probes': dict(it.probes),
            'faults': dict(it.faults), 'known': dict(it.known),
            'stats': dict(it.stats), 'trace_tail': it.trace.tail(30),
            'activations': it.activations}


# --------------------------------------------------------------------------
# generation

WEIGHTS = {
    'C03': dict(add_handler=3, remove_handler=1.5, is_handler=.4, dispatch=6,
                revive=.1, disable=.15, enable=.3),
    'C04': dict(add_handler=2.5, remove_handler=.8, is_handler=.2,
                dispatch=6, disable=2, enable=2.2),
    'C10': dict(add_handler=3, remove_handler=.6, is_handler=.4, dispatch=5,
                drop=1.5, gc=.5, attach=2.5, detach=1, revive=.6,
                disable=.2, enable=.4, clear_world=.25),
}


def gen_config(prop, rng, allow_base2=False):
    nh = rng.randint(1, 4)
    hclasses = []
    for i in range(nh):
        base = rng.randrange(i) if i and rng.random() < .6 else None
        r = rng.random()
        if r < .15 and i:
            deco = None
        elif r < .25:
            deco = 'empty'
        else:
            names = [n for n in ('a', 'b', 'c') if rng.random() < .6]
            maps = {}
            for ev in ('a', 'b', 'c', 'd'):
                if rng.random() < (.08 if ev == 'd' else .2):
                    maps[ev] = rng.choice(['x', 'y'])
            if not names and not maps:
                names = ['a']
            if prop == 'C10' and rng.random() < .35:
                names = names + ['on_add']
            deco = {'names': names, 'maps': maps}
        spec = {'base': base, 'mixin': rng.random() < .2, 'deco': deco}
        if base is not None and i >= 2 and allow_base2 \
                and rng.random() < .3:
            spec['base2'] = rng.randrange(i)
        if base is not None and rng.random() < .4:
            spec['override'] = rng.sample(METHODS[:5], rng.randint(1, 3))
        hclasses.append(spec)
    if not any(isinstance(h['deco'], dict) for h in hclasses):
        hclasses[0]['deco'] = {'names': ['a', 'b'], 'maps': {}}
    n = rng.randint(2, 6)
    handlers = [rng.randrange(nh) for _ in range(n)]
    world_p = {'C03': .33, 'C04': .3, 'C10': .6}[prop]
    dkind = 'world' if rng.random() < world_p else 'plain'
    cfg = {'policy': rng.choice(kernel.POLICIES), 'dkind': dkind,
           'hclasses': hclasses, 'handlers': handlers,
           'cyclic': [], 'weak_slots': []}
    r = rng.random()
    if r < .2:
        # listeners with value equality (think dataclasses): registration is
        # per object, whatever the objects compare like
        cfg['heq'] = 'equal' if r < .1 else 'unhashable'
    if rng.random() < .12:
        cfg['pm'] = [m for m in METHODS if rng.random() < .5] or ['a']
    elif prop == 'C03' and rng.random() < .08:
        # distinct callback objects that are all equal to each other
        cfg['eqc'] = [m for m in METHODS if rng.random() < .6] or ['a']
    elif prop == 'C03' and dkind == 'plain' and rng.random() < .08:
        cfg['uc'] = [m for m in METHODS if rng.random() < .4] or ['b']
    if rng.random() < .25:
        cfg['returns'] = {str(s): rng.choice('TTF01sN') for s in range(n)
                          if rng.random() < .6}
    if prop == 'C10' and rng.random() < .25:
        # the program has its own finalizers: an event is dispatched at the
        # instant a listener dies
        cfg['finalizers'] = {str(s): rng.choice(EVENTS[:3])
                             for s in range(n) if rng.random() < .5}
    if prop == 'C10':
        cfg['cyclic'] = [s for s in range(n) if rng.random() < .15]
        if dkind == 'world':
            cfg['weak_slots'] = [s for s in range(n) if rng.random() < .6]
        if rng.random() < .3:
            # at the end the program drops the dispatcher and every handler
            cfg['teardown'] = True
    if prop == 'C03' and rng.random() < .1:
        cfg['enum_names'] = True
    elif prop == 'C04' and rng.random() < .08:
        cfg['tuple_names'] = rng.choice([2, 3])
    if prop == 'C03' and rng.random() < .3:
        cfg['shared_deco'] = True
    return cfg


def gen_top_op(kind, rng, cfg, state):
    n = len(cfg['handlers'])
    if kind in ('add_handler', 'remove_handler', 'is_handler', 'drop',
                'attach', 'revive'):
        return [kind, rng.randrange(n)]
    if kind == 'detach':
        return ['detach', rng.randrange(n),
                rng.choice(['remove_component', 'delete_now', 'deferred'])]
    if kind == 'dispatch':
        state['token'] += 1
        ev = rng.choices(EVENTS, [4, 4, 2, 1])[0]
        return ['dispatch', ev, state['token'],
                rng.choice([0, 1, 1, 2, 3, 0, 1, 1, 2, 3, 4, 5])]
    return [kind]


def gen_script(prop, rng, cfg, state, act, acts):
    """A script for one callback activation."""
    n = len(cfg['handlers'])
    r = rng.random()
    others = [a['slot'] for a in acts if a['token'] == act['token']
              and a['slot'] != act['slot']]
    if prop == 'C10':
        victim = rng.choice(others) if others and r < .85 else \
            rng.randrange(n)
        return [['kill', victim]]
    if prop == 'C03':
        if r < .35:
            state['stoken'] += 1
            return [['dispatch', rng.choice(EVENTS[:3]), state['stoken'],
                     rng.choice([1, 2, 3])]]
        tgt = rng.choice(others) if others and r < .8 else rng.randrange(n)
        if r < .7:
            return [['remove_handler', tgt]]
        if r < .8:
            return [['remove_handler', act['slot']]]
        return [['add_handler', rng.randrange(n)]]
    # C04: the faults
    return fault_script(rng.choice(FAULT_KINDS), rng, state)


FAULT_KINDS = ['raise_Boom', 'raise_Quit', 'raise_SwitchWorld', 'raise_Crash',
               'raise_builtin',
               'disable',
               'disable_enable', 'redispatch', 'enable', 'add_handler',
               'remove_handler', 'swap_handlers', 'guarded_nested_release',
               'disable_dispatch', 'clear_restart']


def fault_script(kind, rng, state):
    if kind == 'raise_builtin':
        return [['raise', rng.choice(['IndexError', 'KeyError',
                                      'StopIteration', 'AttributeError',
                                      'RuntimeError', 'GeneratorExit',
                                      'AssertionError', 'TypeError'])]]
    if kind.startswith('raise_'):
        return [['raise', kind[6:]]]
    n = state.get('nslots', 2)
    if kind == 'add_handler':
        return [['add_handler', rng.randrange(n)]]
    if kind == 'remove_handler':
        return [['remove_handler', rng.randrange(n)]]
    if kind == 'swap_handlers':
        return [['remove_handler', rng.randrange(n)],
                ['add_handler', rng.randrange(n)]]
    if kind == 'disable':
        return [['disable']]
    if kind == 'enable':
        return [['enable']]
    if kind == 'disable_enable':
        state['stoken'] += 1
        return [['disable'], ['dispatch', rng.choice(EVENTS[:3]),
                              state['stoken'], 1], ['enable']]
    if kind == 'disable_dispatch':
        # ... and leaves it off: the new event queues up behind the backlog
        state['stoken'] += 1
        return [['disable'], ['dispatch', rng.choice(EVENTS[:3]),
                              state['stoken'], 1]]
    if kind == 'clear_restart':
        # start over from inside a callback: clear, register again, and
        # leave with dispatching switched off and an event pending
        state['stoken'] += 1
        return [['clear_disp'], ['add_handler', rng.randrange(n)],
                ['disable'], ['dispatch', rng.choice(EVENTS[:3]),
                              state['stoken'], 1]]
    if kind == 'guarded_nested_release':
        # disable, buffer a few events (the first receiver of the first one
        # raises), enable - all inside the callback's own try/except
        inner = [['disable']]
        for k in range(rng.randint(2, 4)):
            state['stoken'] += 1
            inner.append(['dispatch_r' if k == 0 else 'dispatch',
                          rng.choice(EVENTS[:3]), state['stoken'], 1])
        inner.append(['enable'])
        return [['try', inner]]
    state['stoken'] += 1
    return [['dispatch', rng.choice(EVENTS[:3]), state['stoken'],
             rng.choice([1, 3])]]


def generate(prop, run_seed, tier='quick', tolerate=frozenset()):
    crng = kernel.stream(run_seed, 'cfg')
    rng = kernel.stream(run_seed, 'gen')
    cfg = gen_config(prop, crng, allow_base2='K5' not in tolerate)
    weights = dict(WEIGHTS[prop])
    if cfg['dkind'] != 'world':
        weights.pop('attach', None)
        weights.pop('detach', None)
        weights.pop('clear_world', None)
    for k in list(weights):
        if k not in ('add_handler', 'dispatch', 'enable') \
                and crng.random() < .25:
            weights[k] = 0
    kinds = [k for k, v in weights.items() if v > 0]
    wts = [weights[k] for k in kinds]
    deep = tier == 'thorough'
    n = min(150 if deep else 60,
            3 + int(crng.expovariate(1 / (24 if deep and crng.random() < .5
                                          else 12))))
    state = {'token': 0, 'stoken': 1000, 'nslots': len(cfg['handlers'])}
    ops = []
    # start with some registrations so that dispatches reach someone
    for s in range(len(cfg['handlers'])):
        if rng.random() < .7:
            ops.append(['attach' if cfg['dkind'] == 'world'
                        and rng.random() < .5 else 'add_handler', s])
    while len(ops) < n:
        ops.append(gen_top_op(rng.choices(kinds, wts)[0], rng, cfg, state))
    if prop == 'C03' and crng.random() < .12:
        # the decorator applied again to a class that has been in use
        ci = crng.randrange(len(cfg['hclasses']))
        fam = {ci}
        for i, h in enumerate(cfg['hclasses']):
            if h.get('base') in fam:
                fam.add(i)
        slots = [s for s, c in enumerate(cfg['handlers']) if c in fam]
        names = [e for e in EVENTS if crng.random() < .3]
        maps = {e: crng.choice(['x', 'y']) for e in EVENTS
                if e not in names and crng.random() < .25}
        if not names and not maps:
            names = ['d']
        block = [['remove_handler', s] for s in slots]
        block.append(['redeco', ci, names, maps])
        block += [['add_handler', s] for s in slots if crng.random() < .8]
        for e in list(names) + list(maps):
            state['token'] += 1
            block.append(['dispatch', e, state['token'],
                          crng.choice([0, 1, 2, 3])])
        k = crng.randint(0, len(ops))
        ops[k:k] = block
    if prop == 'C03' and crng.random() < .08:
        # a callback rebound on the class between two registrations
        ci = crng.randrange(len(cfg['hclasses']))
        fam = {ci}
        for i, h in enumerate(cfg['hclasses']):
            if h.get('base') in fam:
                fam.add(i)
        slots = [s for s, c in enumerate(cfg['handlers']) if c in fam]
        block = [['add_handler', s] for s in slots[:1]]
        block += [['remove_handler', s] for s in slots]
        block.append(['rebind', ci, crng.choice(METHODS[:5])])
        block += [['add_handler', s] for s in slots if crng.random() < .8]
        for e in EVENTS[:3]:
            state['token'] += 1
            block.append(['dispatch', e, state['token'], 1])
        k = crng.randint(0, len(ops))
        ops[k:k] = block
    if prop == 'C03' and cfg['dkind'] == 'plain' and crng.random() < (
            .5 if cfg.get('eqc') else .04):
        # a callback rebound while instances are registered, which are
        # then registered again
        ci = crng.randrange(len(cfg['hclasses']))
        slots = list(range(len(cfg['handlers'])))
        block = [['add_handler', s] for s in slots if crng.random() < .7]
        block.append(['rebind', ci, crng.choice(
            cfg.get('eqc') or METHODS[:5]), 'live'])
        for e in EVENTS[:3]:
            state['token'] += 1
            block.append(['dispatch', e, state['token'], 1])
        k = crng.randint(0, len(ops))
        ops[k:k] = block
    if prop == 'C03' and crng.random() < .06:
        # a listener is removed, dies, and a new one (created right away,
        # most likely at the same address) is registered
        s_ = crng.randrange(len(cfg['handlers']))
        block = [['add_handler', s_], ['remove_handler', s_], ['drop', s_],
                 ['revive', s_], ['add_handler', s_]]
        for e in EVENTS[:3]:
            state['token'] += 1
            block.append(['dispatch', e, state['token'], 1])
        k = crng.randint(0, len(ops))
        ops[k:k] = block
    if prop == 'C10' and crng.random() < .08:
        ops.insert(crng.randint(0, len(ops)),
                   ['noweak', crng.choice(EVENTS[:3])])
    # (['mega_burst', n] - more than 2**20 pending events - is never
    # generated: the release pops the head of a list, which is quadratic and
    # takes minutes at that size; seeded change S10-C04-2 needs exactly that
    # and is recorded as not caught. The op stays for replays by hand.)
    if prop == 'C10' and crng.random() < .05:
        ops.insert(crng.randint(0, len(ops)), ['raise_then_drop'])
    if prop == 'C04' and crng.random() < .06:
        ops.insert(crng.randint(0, len(ops)), ['plain_queue', [
            crng.choice('ppqk') for _ in range(crng.randint(1, 6))]])
    if prop == 'C03' and crng.random() < .02:
        ops.insert(crng.randint(0, len(ops)),
                   ['deep_chain', crng.choice([70, 260, 340, 400, 430])])
    r_long = crng.random()
    if prop == 'C04' and r_long < .004:
        # a very long backlog (bounded buffers): one listener, no scripts
        ops = [['add_handler', 0], ['disable'],
               ['burst', 'a', crng.randint(4097, 4400) if r_long > .00015
                else crng.randint(65537, 65600), 10000],
               ['enable'], ['enable']]
        cfg['hclasses'] = [{'base': None, 'mixin': False,
                            'deco': {'names': ['a'], 'maps': {}}}]
        cfg['handlers'] = [0]
        return [{'format': 1, 'engine': 'dispatch', 'config': cfg,
                 'ops': ops, 'scripts': {}, 'run_seed': run_seed}]
    if prop == 'C04' and crng.random() < .12:
        # a long backlog: thresholds of batching "optimisations"
        ev = rng.choice(EVENTS[:3])
        ops += [['disable'], ['burst', ev, crng.randint(66, 140)
                                if crng.random() < .65
                                else crng.randint(257, 420), 5000]]
        if rng.random() < .5:
            ops.append(gen_top_op('dispatch', rng, cfg, state))
        ops.append(['enable'])
    if prop == 'C04' and rng.random() < .7:
        ops.append(['enable'])
    base = {'format': 1, 'engine': 'dispatch', 'config': cfg, 'ops': ops,
            'scripts': {}, 'run_seed': run_seed}
    # dry run of the fault-free base: which activations exist
    try:
        dry = execute(copy.deepcopy(base), prop, tolerate)
    except Exception:
        # the library raised where the oracle did not expect it: executing
        # the base scenario reports it (runner.run_one)
        return [base]
    acts = dry.get('activations', [])
    if dry.get('violation') is not None or not acts:
        return [base]
    out = []
    if prop == 'C03':
        sc = copy.deepcopy(base)
        for act in rng.sample(acts, min(len(acts), rng.randint(0, 3))):
            sc['scripts'][act['key']] = gen_script(prop, rng, cfg, state,
                                                   act, acts)
        return [sc]
    if prop == 'C04':
        targets = [a for a in acts if a['release']] or acts
        suffix = [['enable'], ['enable'],
                  ['dispatch', 'a', 900, 1], ['enable']]
        if tier == 'thorough':
            combos = [(a, k) for a in targets[:40] for k in FAULT_KINDS]
            combos = combos[:160]
        else:
            combos = [(rng.choice(targets), rng.choice(FAULT_KINDS))
                      for _ in range(3)]
        out.append(base)
        for act, kind in combos:
            sc = copy.deepcopy(base)
            sc['scripts'][act['key']] = fault_script(kind, rng, state)
            if rng.random() < .3 and len(acts) > 1:
                a2 = rng.choice(acts)
                if a2['key'] != act['key']:
                    sc['scripts'][a2['key']] = fault_script(
                        rng.choice(FAULT_KINDS), rng, state)
            sc['ops'] = sc['ops'] + suffix
            out.append(sc)
        return out
    # C10: drop listener j from the callback of listener i, every pair
    by_token = {}
    for a in acts:
        by_token.setdefault(a['token'], []).append(a)
    pairs = []
    for tok, lst in by_token.items():
        if len(lst) >= 2:
            for a in lst:
                for b in lst:
                    if a is not b:
                        pairs.append((a, b['slot']))
    out.append(base)
    if not pairs:
        return out
    if tier != 'thorough':
        pairs = rng.sample(pairs, min(3, len(pairs)))
    else:
        pairs = pairs[:60]
    stoken = 2000
    for act, victim in pairs:
        sc = copy.deepcopy(base)
        sc['scripts'][act['key']] = [['kill', victim]]
        # sometimes an earlier callback of the same dispatch re-dispatches
        # the very event it is handling (re-entrancy around the drop)
        if rng.random() < .3 and act.get('ev'):
            same = [a for a in by_token.get(act['token'], [])
                    if a['key'] != act['key']]
            if same:
                stoken += 1
                other = rng.choice(same)
                sc['scripts'][other['key']] = [
                    ['dispatch', act['ev'], stoken, 1]]
        out.append(sc)
    return out


def simplify(sc):
    if sc['config'].get('policy') != 'fifo':
        c = copy.deepcopy(sc)
        c['config']['policy'] = 'fifo'
        yield c
    if sc['config'].get('dkind') == 'world' and not any(
            op[0] in ('attach', 'detach') for op in sc['ops']):
        c = copy.deepcopy(sc)
        c['config']['dkind'] = 'plain'
        yield c
    for k, op in enumerate(sc['ops']):
        if op[0] == 'dispatch' and op[3] != 1:
            c = copy.deepcopy(sc)
            c['ops'][k][3] = 1
            yield c


_COMPONENTS = {
    'real': ['desper.events.EventDispatcher (add/remove/is_handler, '
             'dispatch, dispatch_enabled setter, weakref cleanup)',
             'desper.events.event_handler', 'desper.logic.world.World '
             '(as a dispatcher and as owner of handler components)'],
    'stub': ['handler callback bodies (scripted actors)', 'set iteration '
             'order (SimSet seam)', 'garbage collector (disabled; explicit '
             'gc operation)', 'reference dropping (registry is the only '
             'strong holder)'],
}
_ASSUME = [
    'DispatcherModel and the release history check (sim/engines/dispatch.py)'
    ' are hand-written from the property statements (trusted base)',
    'every dispatch carries a unique token, so each delivery is attributable',
    'handler class hierarchies are single-inheritance chains/trees plus a '
    'plain mixin (the statement is silent on merging two handler bases)',
    'an event already being delivered when a callback disables dispatching '
    'may finish its delivery (in-flight allowance), DESIGN.md C04',
    'sampling, not enumeration; fault positions are enumerated only within '
    'each sampled base scenario',
]
INFO = {
    'C03': {'rule': 'seeded add/remove/dispatch histories with re-entrant '
            'operations from callbacks placed on activations of a fault-free '
            'dry run; non-trivial = a dispatch reaching >=2 listeners of >=2 '
            'classes, or a re-entrant dispatch/removal executed; distinct = '
            'distinct trace digests', 'components': _COMPONENTS,
            'assumptions': _ASSUME},
    'C04': {'rule': 'base history + for sampled (quick: 3; thorough: every) '
            'delivery position of its releases each fault kind (raise Boom/'
            'Quit/SwitchWorld, nested disable, disable+dispatch+enable, '
            're-dispatch, nested enable) followed by a recovery suffix; '
            'non-trivial = a release with >=2 pending tokens of >=2 names and'
            ' >=1 fault inside it; distinct = distinct trace digests',
            'components': _COMPONENTS, 'assumptions': _ASSUME},
    'C10': {'rule': 'base history + the last reference to listener j dropped'
            ' from the callback of listener i for (quick: 3 sampled; '
            'thorough: all) pairs of every multi-listener dispatch, through '
            'the registry or through the owning World; non-trivial = a drop '
            'executed between two callbacks of one dispatch with the victim '
            'still ahead; distinct = distinct trace digests',
            'components': _COMPONENTS, 'assumptions': _ASSUME},
}
for _v in INFO.values():
    _v['rule'] += (
        '; swarm dimensions (see probes): handler hierarchies with overrides, mixins, two handler bases (while K5 is not listed), classes decorated again / callbacks rebound after use, partialmethod callbacks, handlers with value equality or no hash, callback return values, keyword arguments with internal-looking names, guarded nested releases, backlogs > 4096 and > 65536, program finalizers that dispatch at the death of a listener, address reuse after death, Enum members as event names, unhashable and all-equal callable objects as callbacks, backlogs of 257-420 events, callbacks that disable and dispatch / clear and start over, BaseException faults, the dispatcher dropped with all its handlers (teardown), builtin exception types as faults (IndexError, KeyError, StopIteration ...), chains of up to 430 re-entrant dispatches, handler types without weak reference support, callbacks rebound while registered followed by re-registration, one decorator object shared by several classes, tuple event names, postponed events without arguments, listeners dropped after their exception escaped')
PROBES = {
    'C03': ['double_registration', 'remove_unregistered',
            'reentrant_dispatch', 'remove_mid_dispatch',
            'kwargs_only_dispatch', 'multi_class_dispatch',
            'dispatch_nobody_listens', 'overridden_callback_called',
            'callback_returned_value', 'redecorated_class',
            'tricky_keyword_names', 'partialmethod_callback',
            'callback_rebound_on_class'],
    'C04': ['fault_pos.first', 'fault_pos.middle', 'fault_pos.last',
            'release_aborted_by_raise', 'release_cut_by_nested_disable',
            'nested_enable_inside_release', 'raise_then_second_enable',
            'dispatch_during_release', 'unknown_name_queued',
            'release_multi', 'registration_changed_during_release',
            'burst>=66', 'burst>4096', 'burst>65536',
            'exception_swallowed_by_callback'],
    'C10': ['victim_ahead', 'victim_behind', 'drop_via.registry',
            'drop_via.remove_component', 'drop_via.delete_now',
            'drop_via.deferred', 'drop_via.clear',
            'cyclic_handler_collected', 'death_verified',
            'pending_event_keeps_alive', 'on_add_delivered',
            'dispatch_from_finalizer'],
}

"""Loop engine: C13, C14 (DESIGN.md section 3).

A real SimpleLoop with a simulated clock drives 2-4 world handles whose
worlds are populated with scripted processors, handler components and
coroutines.  Frame scripts (keyed by global frame number and actor) switch
worlds, raise SwitchWorld directly, quit, crash and dispatch probe events on
muted worlds.  Every trace entry carries the world *instance* (handle,
generation) it happened in.
"""
import collections
import copy
from fractions import Fraction

from .. import kernel
from ..kernel import Violation, Boom, Crash, SimHang

Counter = collections.Counter
RUN_BUDGET = 400000
EVENTS = ['on_add', 'on_world_load', 'on_switch_in', 'on_switch_out',
          'on_update', 'on_quit', 'probe']


def num(v):
    if isinstance(v, list) and v and v[0] == 'F':
        return Fraction(v[1], v[2])
    if isinstance(v, list) and v and v[0] == 'DT':
        import datetime
        return datetime.datetime(2020, 1, 1) + datetime.timedelta(
            seconds=v[1])
    if isinstance(v, list) and v and v[0] == 'TD':
        import datetime
        return datetime.timedelta(seconds=v[1])
    return v


class ClockEnd(Exception):
    pass


class Interp:
    def __init__(self, scenario, prop, tolerate):
        self.sc, self.cfg = scenario, scenario['config']
        self.prop, self.tolerate = prop, tolerate
        self.trace = kernel.Trace()
        self.probes, self.faults = Counter(), Counter()
        self.known, self.stats = Counter(), Counter()
        self.desper = d = kernel.begin_run(
            self.cfg.get('policy', 'fifo'),
            kernel.stream(scenario.get('run_seed', 0), 'sched'),
            scenario.get('run_seed', 0) & 0xffff, self.trace)
        self.saved_default = d.default_loop
        self.clock_gen = 0
        self.pp_left = self.pp_done = 0
        self.loop = d.SimpleLoop(self.make_clock(0))
        self.own_loop = bool(self.cfg.get('own_loop'))
        if self.own_loop:
            # the simulated loop is NOT the default one; the default loop
            # holds an unrelated world that nothing here may touch
            decoy_world = d.World()

            class Decoy(d.Handle):
                def load(self):
                    return decoy_world
            self.decoy_handle = Decoy()
            self.decoy_loop = d.SimpleLoop()
            self.decoy_loop.switch(self.decoy_handle)
            self.decoy_world = decoy_world
            d.default_loop = self.decoy_loop
        else:
            d.default_loop = self.loop
        it = self
        # ---- clock
        ck = self.cfg['clock']
        self.now = num(ck['start'])
        self.incs = [num(x) for x in ck['incs']]
        self.nread = 0              # global number of readings
        self.run_reads = 0
        self.run_cap = 0
        self.end_kind = 'quit'
        # ---- model
        n = len(self.cfg['worlds'])
        self.gen = [0] * n          # loads per handle
        self.cached = [None] * n    # generation cached in the handle
        self.cur = None             # (h, gen) expected to run
        self.muted = set()          # instances left through switch()
        self.held = {}              # inst -> [tokens] dispatched while muted
        self.fresh = set()          # loaded, load callbacks still pending
        self.inst_of = {}           # id(world) -> inst
        self.world_of = {}          # inst -> world
        self.load_cbs = {}          # inst -> expected load-time callbacks
        self.requests = []          # executed switch requests
        self.abandoned = None
        self.frame = -1
        self.ev = []                # history of this run (start)
        self.in_run = False
        self.flags = set()
        self.req_kinds = set()
        self.all_acts = []
        self.cb_ctx = []            # callbacks whose script is running
        self.carry = {}             # inst -> events still queued in it
        self.unsure = set()         # instances whose queue is not modelled
        self.onquit_cut = False
        self.fired = set()
        self.total_requests = 0
        self.pre_request = None
        self.terminal = False
        self.co_depth = 0
        self.shared_exc = {}
        self.owed_out = {}          # inst -> (listeners, args) postponed

        # ---- handles
        class SimHandle(d.WorldHandle):
            def __init__(self, h):
                super().__init__()
                self.h = h
                self.transform_functions.append(it.populate)

            def load(self):
                it.gen[self.h] += 1
                it.loading = (self.h, it.gen[self.h])
                it.trace.add('load', self.h, it.gen[self.h])
                it.ev.append(('load', it.loading))
                if it.in_run and it.cfg.get('load_quit', {}).get(
                        str(self.h)) == it.gen[self.h]:
                    # the world cannot be built: its loading quits. Whatever
                    # switch was under way has not happened (terminal: the
                    # model does not follow the loop any further)
                    it.faults['quit_while_loading'] += 1
                    it.probes['quit_while_next_world_loads'] += 1
                    it.ended_by = 'quit'
                    it.at_raise = it.pre_request or (
                        it.loop.current_world, it.loop.current_world_handle)
                    it.terminal = True
                    raise d.Quit()
                if it.in_run and it.cfg.get('load_boom', {}).get(
                        str(self.h)) == it.gen[self.h]:
                    # ... or fails with an ordinary exception, which is the
                    # caller's to see (terminal for the model as well)
                    it.faults['crash_while_loading'] += 1
                    it.probes['crash_while_next_world_loads'] += 1
                    it.ended_by = 'crash'
                    it.terminal = True
                    it.crash_obj = Crash('load')
                    raise it.crash_obj
                w = super().load()
                it.cached[self.h] = it.gen[self.h]
                return w

        self.handles = [SimHandle(h) for h in range(n)]

    # ---- clock seam
    def read_clock(self):
        if self.ended_by is not None:
            # an exception that ends the run was raised in the previous
            # frame, and the loop is starting another iteration
            self.fail('C14', 'boom_swallowed' if self.ended_by != 'quit'
                      else 'quit_propagated', f'the loop went on to another '
                      f'iteration after {self.ended_by!r} was raised in '
                      f'frame {self.frame}')
        if self.run_reads >= self.run_cap:
            self.faults['clock_' + self.end_kind] += 1
            self.ended_by = 'clock'
            self.snap_current()
            self.trace.add('clock_end', self.end_kind)
            if self.end_kind == 'quit':
                raise self.desper.Quit()
            e = Crash('clock')
            self.crash_obj = e
            raise e
        # the clock's script runs inside the time function *before* the
        # reading is returned: if it raises, no reading happened
        self.run_script(f'{self.frame + 1}:clock', None)
        inc = self.incs[self.nread % len(self.incs)]
        self.now = self.now + inc
        self.nread += 1
        self.run_reads += 1
        self.frame += 1
        self.abandoned = None
        self.trace.add('clock', self.nread, repr(self.now))
        self.ev.append(('clock', self.frame, self.now))
        if not inc:
            self.probes['zero_delta_reading'] += 1
        if type(inc).__name__ == 'timedelta':
            self.probes['datetime_clock'] += 1
        elif inc >= 1000:
            self.probes['jump_reading'] += 1
        if isinstance(self.now, Fraction):
            self.probes['fraction_clock'] += 1
        return self.now

    # ---- world population (transform function of every handle)
    def populate(self, handle, world):
        d = self.desper
        it = self
        h = handle.h
        inst = self.loading
        self.inst_of[id(world)] = inst
        self.world_of[inst] = world
        self.fresh.add(inst)
        kernel.label(world, f'w{h}#{inst[1]}')
        spec = self.cfg['worlds'][h]
        if self.cfg.get('falsy_worlds'):
            # worlds of a subclass that is falsy while it has no entities
            # (a container-like __len__): a world is a world all the same
            if getattr(self, 'FalsyWorld', None) is None:
                self.FalsyWorld = type('FalsyWorld', (d.World,), {
                    '__len__': lambda w: 0})
            world.__class__ = self.FalsyWorld
            self.probes['falsy_world'] += 1

        class Tick(d.Processor):
            def process(self, dt):
                it.on_proc(inst, 'tick', dt)
        world.add_processor(Tick(), -100)
        if spec.get('update') is not None:
            world.add_processor(d.OnUpdateProcessor(), spec['update'])
        if spec.get('coros'):
            cp = d.CoroutineProcessor()
            world.add_processor(cp, spec.get('coro_prio', 1))
            for k, ys in enumerate(spec['coros']):
                cp.start(self.coro_body(inst, k, ys))
        if self.cfg.get('pingpong'):
            # a listener that bounces the loop on to the next handle for as
            # long as the program's counter lasts (see sop_pingpong)
            nh = len(self.handles)

            @d.event_handler('on_switch_in')
            class Bouncer:
                def on_switch_in(self, frm, to):
                    if it.pp_left > 0:
                        it.pp_left -= 1
                        it.pp_done += 1
                        it.pre_request = (it.loop.current_world,
                                          it.loop.current_world_handle)
                        d.switch(it.handles[(h + 1) % nh],
                                 from_world=it.loop.current_world)
            world.create_entity(Bouncer())
        for k, prio in enumerate(spec.get('procs', [])):
            def make(k):
                class P(d.Processor):
                    def process(self, dt):
                        it.on_proc(inst, f'p{k}', dt)
                P.__name__ = f'P{k}'
                return P
            world.add_processor(make(k)(), prio)
        expected = []
        for k, events in enumerate(spec.get('comps', [])):
            def make_method(ev, k=k):
                def method(self, *args):
                    it.on_cb(inst, f'c{k}', ev, args)
                method.__name__ = ev
                return method
            cls = type(f'C{k}', (), {ev: make_method(ev) for ev in events})
            cls = d.event_handler(*events)(cls)
            o = cls()
            kernel.label(o, f'w{h}.c{k}')
            eid = world.create_entity(o)
            if 'on_add' in events:
                expected.append(('on_add', f'c{k}'))
        for k, events in enumerate(spec.get('comps', [])):
            if 'on_world_load' in events:
                expected.append(('on_world_load', f'c{k}'))
        self.load_cbs[inst] = expected

    def coro_body(self, inst, k, ys):
        for step, y in enumerate(ys):
            self.on_co(inst, f'co{k}', step)
            yield num(y) if y != 'N' else None
        self.on_co(inst, f'co{k}', len(ys))

    # ---- recording hooks
    def check_running(self, inst, what):
        if self.terminal:
            return                  # (the model no longer follows the loop)
        if inst in self.muted:
            self.fail('C13', 'not_muted', f'{what} ran in {inst}, a world '
                      f'that was left through switch() and not re-entered')
        if self.abandoned == inst and self.abandoned_frame == self.frame:
            self.fail('C13', 'frame_not_abandoned', f'{what} ran in {inst} '
                      f'in frame {self.frame} after a switch was requested '
                      f'in that frame')
        if self.in_run and inst != self.cur:
            self.fail('C13', 'wrong_world_runs', f'{what} ran in {inst}, '
                      f'the world expected to run is {self.cur}')

    def on_proc(self, inst, actor, dt):
        self.trace.add('proc', inst, actor, repr(dt))
        if actor == 'tick' and self.in_run and \
                self.loop.current_world is not self.world_of.get(inst):
            # (tick is the first processor of a frame: nothing of this frame
            # can have switched yet) - holds whatever the model knows
            self.fail(('C14', 'C13'), 'wrong_world_runs', f'frame '
                      f'{self.frame} processes {inst}, which is not '
                      f'loop.current_world')
        self.check_running(inst, f'processor {actor}')
        self.ev.append(('proc', inst, actor, dt, self.frame))
        self.run_script(f'{self.frame}:H{inst[0]}.{actor}', inst)

    def on_co(self, inst, actor, step):
        self.trace.add('co', inst, actor, step)
        self.check_running(inst, f'coroutine {actor}')
        self.ev.append(('co', inst, actor, step, self.frame))
        self.co_depth += 1
        try:
            self.run_script(f'{self.frame}:H{inst[0]}.{actor}', inst)
        finally:
            self.co_depth -= 1

    def inst_label(self, w):
        return self.inst_of.get(id(w), 'foreign' if w is not None else None)

    def on_cb(self, inst, actor, ev, args):
        if ev in ('on_switch_in', 'on_switch_out'):
            info = tuple(self.inst_label(a) for a in args)
        elif ev == 'on_world_load':
            info = (getattr(args[0], 'h', '?'), self.inst_label(args[1]))
        elif ev == 'on_add':
            info = (self.inst_label(args[1]),)
        else:
            info = tuple(args)
        self.trace.add('cb', inst, actor, ev, repr(info))
        if inst in self.muted and not self.terminal:
            self.fail('C13', 'not_muted', f'{actor}.{ev}{info} delivered in '
                      f'{inst}, a world left through switch() and not '
                      f're-entered')
        if ev == 'on_update':
            self.check_running(inst, f'{actor}.on_update')
        self.ev.append(('cb', inst, actor, ev, info, self.frame))
        if ev in ('on_update', 'on_switch_in', 'on_world_load', 'probe',
                  'on_quit'):
            self.cb_ctx.append((inst, ev, info))
            try:
                self.run_script(f'{self.frame}:H{inst[0]}.{actor}.{ev}', inst)
            finally:
                self.cb_ctx.pop()

    def run_script(self, key, inst):
        self.all_acts.append(key)
        script = self.sc.get('scripts', {}).get(key)
        if not script or key in self.fired:
            return
        self.fired.add(key)             # a script runs once
        self.ctx = inst
        self.ctx_key = key
        n0 = len(self.requests)
        try:
            for op in script:
                self.stats['ops'] += 1
                self.trace.add('sop', key, *op)
                getattr(self, 'sop_' + op[0])(op, inst)
        except Violation:
            raise
        except BaseException:
            # an exception leaving a callback of the entering release cuts
            # that delivery short (C04: half delivered event)
            if key.endswith(('on_switch_in', 'on_world_load')) and n0:
                self.requests[n0 - 1]['cut'] = True
                if key.endswith('on_world_load'):
                    self.requests[n0 - 1]['cut_load'] = True
            if key.endswith('.on_quit'):
                self.onquit_cut = True
            if key.endswith('.probe') and n0 and self.cb_ctx:
                # a held event's callback raised while its world was being
                # entered: the rest of that world's queue stays queued
                inst_, ev_, info_ = self.cb_ctx[-1]
                last = self.requests[n0 - 1]
                if last['y'] == inst_ and info_ and info_[0] in (
                        last.get('exp_held') or last['held']):
                    last['cut'] = True
                    last['cut_token'] = info_[0]
                elif last['y'] == inst_ and info_:
                    # (perhaps an event carried over from an earlier entry
                    # that was cut short: known when the history is judged)
                    last['cut_cand'] = info_[0]
            raise

    def fail(self, props, kind, detail=''):
        raise Violation(props, kind, detail)

    def snap_current(self):
        self.at_raise = (self.loop.current_world,
                         self.loop.current_world_handle)

    # ---- script operations (executed from inside the running frame)
    def listeners(self, inst, ev):
        spec = self.cfg['worlds'][inst[0]]
        return [f'c{k}' for k, evs in enumerate(spec.get('comps', []))
                if ev in evs]

    def requester_kind(self):
        key = self.ctx_key.split(':', 1)[1]
        if key == 'clock':
            return 'clock'
        parts = key.split('.')
        if len(parts) == 3:
            return parts[2]
        a = parts[1]
        if a.startswith('co'):
            return 'coroutine'
        if a == 'tick':
            return 'proc_first'
        return 'proc'

    def predict(self, frm, T, cc, cn, direct):
        X = frm[0] if frm is not None else None
        if direct:
            cached_T = self.cached[T]
            if cn or (cc and X == T):
                cached_T = None
        else:
            self_switch = (frm is not None and X == T
                           and self.cached[T] == frm[1])
            cached_T = self.cached[T]
            if cn or (cc and self_switch):
                cached_T = None
        if cached_T is None:
            return (T, self.gen[T] + 1), True
        return (T, cached_T), False

    def after_request(self, rec, frm, y, cc, direct):
        X = frm[0] if frm is not None else None
        if cc and X is not None and not (y[0] == X):
            self.cached[X] = None
        if cc and X is not None and y[0] == X and y != frm:
            pass                        # X reloaded: cache set by the load
        if not direct and frm is not None and y != frm:
            self.muted.add(frm)
            self.held.setdefault(frm, [])
        if y in self.muted:
            self.muted.discard(y)
            rec['held'] = self.held.pop(y, [])
            if rec['held']:
                self.probes['reenter_muted_world_with_pending'] += 1
        else:
            rec['held'] = []
        self.cur = y
        self.abandoned = self.ctx
        self.abandoned_frame = self.frame
        self.requests.append(rec)
        self.total_requests += 1
        self.ev.append(('req', rec))
        kind = self.requester_kind()
        self.req_kinds.add(kind)
        self.probes['requester.' + kind] += 1
        flag = ('both' if cc and rec['cn'] else 'clear_current' if cc
                else 'clear_next' if rec['cn'] else 'none')
        self.probes['flag.' + flag] += 1
        if frm is not None and frm[0] == y[0]:
            self.probes['self_switch'] += 1
        if rec['fresh']:
            self.probes['target_uncached'] += 1
        if flag != 'none' or (frm is not None and frm[0] == y[0]):
            self.flags.add('special_switch')

    def sop_switch(self, op, inst):
        _, T, cc, cn, fromkind = op
        d = self.desper
        self.pre_request = (self.loop.current_world,
                            self.loop.current_world_handle)
        if self.own_loop:
            fromkind = 'current'        # there is no usable default here
            if inst is None:
                return
        frm = self.cur if fromkind == 'default' else inst
        if frm is None or frm in self.muted:
            return
        if fromkind == 'muted_current' and inst != self.cur:
            return
        from_world = None if fromkind == 'default' else self.world_of[inst]
        y, fresh = self.predict(frm, T, cc, cn, direct=False)
        rec = {'via': 'switch', 'from': frm, 'T': T, 'cc': cc, 'cn': cn,
               'y': y, 'fresh': fresh, 'frame': self.frame,
               'held': list(self.held.get(y, []))}
        if fromkind == 'muted_current':
            # the program has switched the dispatching of the world it leaves
            # off itself: on_switch_out is owed until that world is entered
            # again (C04), not dropped
            if y == frm or cc or frm in self.owed_out:
                return
            self.world_of[frm].dispatch_enabled = False
            rec['out_postponed'] = True
            self.probes['left_world_was_disabled_by_the_program'] += 1
        self.ev.append(('req_begin', rec))
        self.faults['switch'] += 1
        try:
            with_b = d.switch(self.handles[T], cc, cn, from_world)
        except d.SwitchWorld as e:
            if e.world_handle is not self.handles[T]:
                self.fail('C13', 'args', 'SwitchWorld carries another '
                          'handle than the one requested')
            self.after_request(rec, frm, y, cc, direct=False)
            raise
        self.fail('C13', 'frame_not_abandoned', 'switch() returned '
                  'instead of raising SwitchWorld')

    def sop_raise_switch(self, op, inst):
        T, cc, cn = op[1:4]
        d = self.desper
        self.pre_request = (self.loop.current_world,
                            self.loop.current_world_handle)
        frm = self.cur
        y, fresh = self.predict(frm, T, cc, cn, direct=True)
        rec = {'via': 'raise', 'from': frm, 'T': T, 'cc': cc, 'cn': cn,
               'y': y, 'fresh': fresh, 'frame': self.frame, 'held': []}
        if y in self.muted:
            rec['held'] = list(self.held.get(y, []))
        self.faults['raise_switch'] += 1
        self.probes['direct_raise'] += 1
        if cn:
            self.cached[T] = None
        self.after_request(rec, frm, y, cc, direct=True)
        if len(op) > 4 and op[4] == 'shared':
            # one exception object kept by the program and raised again and
            # again (RESTART = SwitchWorld(level, clear_next=True))
            key = (T, cc, cn)
            if key in self.shared_exc:
                self.probes['same_SwitchWorld_instance_raised_again'] += 1
            e = self.shared_exc.setdefault(
                key, d.SwitchWorld(self.handles[T], cc, cn))
            raise e.with_traceback(None)
        if (cc or cn) and (self.frame + T) % 3 == 0:
            # the request is amended after it was built (r = SwitchWorld(h);
            # r.clear_next = True; raise r): what counts is what it says
            # when it reaches the loop
            e = d.SwitchWorld(self.handles[T])
            e.clear_current, e.clear_next = cc, cn
            self.probes['switch_request_amended_after_construction'] += 1
            raise e
        raise d.SwitchWorld(self.handles[T], cc, cn)

    def sop_pingpong(self, op, inst):
        """A long finite chain of switches between two iterations: every
        world that is entered asks, from its on_switch_in, for the next one,
        n times (terminal for the model: afterwards the loop simply goes
        on)."""
        if not self.cfg.get('pingpong') or self.terminal:
            return
        self.terminal = True
        self.pre_request = (self.loop.current_world,
                            self.loop.current_world_handle)
        self.pp_left = op[1]
        self.probes['chain_of_switches>=990'] += op[1] >= 990
        self.faults['switch_chain'] += 1
        self.desper.switch(self.handles[op[2]],
                           from_world=self.loop.current_world)

    def sop_loop_switch(self, op, inst):
        """A plain call of loop.switch(handle) from running code (no
        exception, no in/out events). The prediction model stops here
        (terminal); what remains checked is that every later frame processes
        loop.current_world, time deltas and the way the run ends."""
        T = op[1]
        self.terminal = True
        self.pre_request = (self.loop.current_world,
                            self.loop.current_world_handle)
        self.faults['plain_loop_switch'] += 1
        self.probes['plain_loop_switch_call'] += 1
        self.loop.switch(self.handles[T])

    def sop_quit(self, op, inst):
        self.faults['quit'] += 1
        self.ended_by = 'quit'
        self.snap_current()
        self.probes['quit_from.' + self.requester_kind()] += 1
        raise self.desper.Quit()

    def sop_quit_loop(self, op, inst):
        target = op[1]
        d = self.desper
        if self.terminal:           # follow the loop, not the model
            self.cur = self.inst_of.get(id(self.loop.current_world),
                                        self.cur)
            if self.cur in self.muted or self.cur in self.fresh:
                target = 'none' if not self.own_loop else target
                self.muted.discard(self.cur)
        if self.own_loop and target == 'none':
            target = 'cur'
        if target == 'none':
            tinst, tw = self.cur, None
        elif target == 'cur':
            tinst, tw = self.cur, self.world_of[self.cur]
        else:
            g = self.cached[target]
            tinst = (target, g)
            if g is None or tinst in self.muted or tinst in self.fresh:
                return
            tw = self.world_of[tinst]
        want = sorted(self.listeners(tinst, 'on_quit'))
        start = len(self.ev)
        self.onquit_cut = False
        self.faults['quit_loop'] += 1
        self.ended_by = 'quit'
        self.snap_current()
        self.probes['quit_from.' + self.requester_kind()] += 1
        try:
            d.quit_loop(tw)
        except d.Quit:
            got = sorted(e[2] for e in self.ev[start:]
                         if e[0] == 'cb' and e[3] == 'on_quit'
                         and e[1] == tinst)
            other = [e for e in self.ev[start:] if e[0] == 'cb'
                     and e[3] == 'on_quit' and e[1] != tinst]
            if self.onquit_cut and got and set(got) <= set(want) \
                    and len(set(got)) == len(got) and not other:
                self.probes['on_quit_cut_by_raising_listener'] += 1
            elif got != want or other:
                self.fail('C14', 'on_quit_count', f'quit_loop({target}): '
                          f'on_quit delivered to {got} in {tinst} (+{other})'
                          f', expected {want}')
            self.probes['on_quit_checked'] += 1
            raise
        self.fail('C14', 'quit_propagated', 'quit_loop() returned')

    def sop_boom(self, op, inst):
        self.faults['boom'] += 1
        self.ended_by = 'boom'
        e = Boom('injected')
        if len(op) > 1 and op[1] == 'stop' and not self.co_depth:
            # an exception type that iteration protocols swallow (inside a
            # generator body PEP 479 would turn it into a RuntimeError)
            e = StopIteration('injected')
            self.probes['stop_iteration_escapes_a_frame'] += 1
        elif len(op) > 1 and op[1] in ('group', 'group_sw'):
            # several failures reported at once: an exception group is an
            # ordinary exception, whatever its leaves are
            leaf = self.desper.Quit() if op[1] == 'group' else \
                self.desper.SwitchWorld(self.handles[0])
            e = ExceptionGroup('injected', [leaf, ValueError('other')]
                               if self.frame % 2 else [leaf])
            self.probes['exception_group_with_loop_control_leaf'] += 1
        self.crash_obj = e
        self.probes['boom_from.' + self.requester_kind()] += 1
        raise e

    def sop_crash(self, op, inst):
        self.faults['crash'] += 1
        self.ended_by = 'crash'
        e = Crash('injected')
        self.crash_obj = e
        raise e

    def make_clock(self, gen):
        """The loop's time function; the program may install another one
        while the loop runs (`loop.time_function = ...`): from then on the
        one that was replaced is not the loop's clock any more."""
        def clock():
            if gen != self.clock_gen:
                self.fail('C14', 'stale_clock', f'the loop read a time '
                          f'function that was replaced (generation {gen}, '
                          f'current {self.clock_gen}) in frame {self.frame}')
            return self.read_clock()
        return clock

    def sop_swap_clock(self, op, inst):
        self.clock_gen += 1
        self.loop.time_function = self.make_clock(self.clock_gen)
        self.probes['time_function_replaced_while_running'] += 1

    def sop_probe(self, op, inst):
        _, h, token = op
        if self.terminal:
            return
        g = self.cached[h]
        z = (h, g)
        if g is None:
            # the handle was cleared: the instance that was left through
            # switch(clear_current=True) is still around (somebody kept a
            # reference) and it was left - it holds its events for good
            old = sorted(x for x in self.muted
                         if x[0] == h and x in self.world_of)
            if not old:
                return
            z = old[-1]
            self.probes['probe_on_discarded_world'] += 1
        if z not in self.world_of or z in self.fresh:
            return
        w = self.world_of[z]
        want = sorted(self.listeners(z, 'probe'))
        start = len(self.ev)
        w.dispatch('probe', token)
        got = sorted(e[2] for e in self.ev[start:] if e[0] == 'cb'
                     and e[3] == 'probe' and e[4] == (token,))
        if z in self.muted:
            if got:
                self.fail('C13', 'not_muted', f'probe {token} delivered at '
                          f'once in muted world {z}')
            if want:
                self.held[z].append(token)
                self.probes['probe_on_muted_world'] += 1
        elif got != want:
            self.fail('C13', 'held_events_lost', f'probe {token} on enabled '
                      f'world {z}: delivered to {got}, expected {want}')

    # ---- top-level operations
    def op_init(self, op):
        h = op[1]
        self.ev = []
        self.loop.switch(self.handles[h])
        self.cur = (h, self.gen[h])
        if self.terminal:
            return      # a load-time callback already switched somewhere else
        self.check_entry(self.ev, self.cur, [], None, False)
        if self.loop.current_world is not self.world_of[self.cur]:
            self.fail('C13', 'wrong_world_runs', 'after Loop.switch the '
                      'current world is not the loaded one')

    def op_run(self, op):
        _, cap, end_kind = op
        if self.cur is None or self.terminal:
            return 'skip'
        self.run_reads, self.run_cap, self.end_kind = 0, cap, end_kind
        self.ev = []
        self.requests = []
        self.ended_by = None
        self.crash_obj = None
        self.in_run = True
        self.nruns = getattr(self, 'nruns', 0) + 1
        outcome = None
        try:
            with kernel.budget(RUN_BUDGET):
                r = self.loop.start()
            outcome = ('ret', r)
        except Violation:
            raise
        except SimHang as e:
            self.fail(('C14', 'C13'), 'hang', f'start(): {e}')
        except BaseException as e:
            e.__traceback__ = None
            outcome = ('exc', e)
        finally:
            self.in_run = False
        self.trace.add('outcome', outcome[0],
                       type(outcome[1]).__name__)
        self.check_outcome(outcome)
        if self.own_loop and (
                not self.decoy_handle.cached
                or self.decoy_loop.current_world is not self.decoy_world
                or self.decoy_loop.current_world_handle
                is not self.decoy_handle):
            self.fail('C13', 'foreign_loop_touched', 'the default loop (not '
                      'the one that runs) had its handle cleared or its '
                      'world changed')
        if self.own_loop:
            self.probes['non_default_loop'] += 1
        self.check_time_history()
        if not self.terminal:
            self.check_switch_history()
        if self.nruns >= 2:
            self.probes['restart_count>=2'] += 1
        self.stats['frames'] += self.run_reads

    def check_outcome(self, outcome):
        d = self.desper
        by = self.ended_by
        if by in ('quit', 'clock') and (by == 'quit'
                                        or self.end_kind == 'quit'):
            if outcome != ('ret', None):
                self.fail('C14', 'quit_propagated', f'Quit was raised but '
                          f'start() ended with ({outcome[0]}, '
                          f'{type(outcome[1]).__name__})')
            if self.loop.running is not False:
                self.fail('C14', 'running', 'loop.running is not False '
                          'after Quit')
            if (self.loop.current_world is not self.at_raise[0]
                    or self.loop.current_world_handle
                    is not self.at_raise[1]):
                self.fail('C14', 'current_changed', 'after Quit the current '
                          'world/handle are not the objects they were when '
                          'Quit was raised')
            self.probes['quit_checked'] += 1
        elif by in ('boom', 'crash', 'clock'):
            if outcome[0] != 'exc' or outcome[1] is not self.crash_obj:
                self.fail('C14', 'boom_swallowed', f'an ordinary exception '
                          f'was raised in a frame but start() ended with '
                          f'({outcome[0]}, {type(outcome[1]).__name__})')
            self.flags.add('crashed')
            self.probes['boom_then_restart_possible'] += 1
        else:
            kind = 'switch_escaped' if (
                outcome[0] == 'exc' and isinstance(outcome[1], d.SwitchWorld)
            ) else 'unexpected_end'
            self.fail(('C13', 'C14'), kind, f'start() ended with '
                      f'({outcome[0]}, {type(outcome[1]).__name__}) although '
                      f'nothing asked for it')

    def check_time_history(self):
        """C14: exact dt ledger of this start."""
        prev = None
        first = True
        expected = {}
        ticks = Counter()
        clocks = []
        for e in self.ev:
            if e[0] == 'clock':
                _, frame, value = e
                expected[frame] = 0 if prev is None else value - prev
                prev = value
                clocks.append(frame)
            elif e[0] == 'proc':
                _, inst, actor, dt, frame = e
                if frame not in expected:
                    self.fail('C14', 'process_per_reading', f'{actor} ran in '
                              f'frame {frame} without a clock reading')
                if not (dt == expected[frame]):
                    kind = 'first_dt' if frame == clocks[0] else 'dt'
                    if kind == 'first_dt' and 'crashed' in self.flags:
                        kind = 'first_dt_after_restart'
                    self.fail('C14', kind, f'frame {frame}: {actor} in '
                              f'{inst} got dt={dt!r}, expected '
                              f'{expected[frame]!r} (readings of this start: '
                              f'{[repr(c[2]) for c in self.ev if c[0] == "clock"][:6]})')
                if actor == 'tick':
                    ticks[frame] += 1
            elif e[0] == 'cb' and e[3] == 'on_update':
                frame = e[5]
                if not (e[4][0] == expected.get(frame)):
                    self.fail(('C14', 'C19'), 'dt', f'frame {frame}: '
                              f'on_update got {e[4][0]!r}, expected '
                              f'{expected.get(frame)!r}')
        scripts = self.sc.get('scripts', {})
        for frame in clocks:
            if ticks[frame] != 1:
                self.fail('C14', 'process_per_reading', f'frame {frame}: '
                          f'process() of the current world was called '
                          f'{ticks[frame]} times for one clock reading')
        if len(clocks) >= 2:
            span = ([c for c in self.ev if c[0] == 'clock'][-1][2]
                    - [c for c in self.ev if c[0] == 'clock'][0][2])
            self.stats['sim_time'] += span.total_seconds() if hasattr(
                span, 'total_seconds') else float(span)
        if any(r['frame'] in expected for r in self.requests) and \
                len(clocks) >= 2:
            self.probes['dt_across_switch_checked'] += 1

    def check_entry(self, window, y, held, rec, cut):
        """Events delivered in y when it is entered (window = history
        between the request and the next clock reading)."""
        life = [e for e in window if e[0] == 'cb' and e[1] == y and e[3] in (
            'on_add', 'on_world_load', 'probe', 'on_switch_in')]
        names = [(e[3], e[2]) for e in life]
        want_load = list(self.load_cbs.get(y, [])) if y in self.fresh else []
        got_load = [n for n in names if n[0] in ('on_add', 'on_world_load')]
        if cut and rec is not None and rec.get('cut_load'):
            # a load-time callback raised: what is behind it in y's queue
            # is not modelled any further
            self.unsure.add(y)
        if y in self.unsure:
            self.fresh.discard(y)
            self.carry.pop(y, None)
            return sum(1 for n in names if n[0] == 'on_switch_in')
        if Counter(got_load) != Counter(want_load):
            self.fail(('C13', 'C15'), 'load_callbacks', f'entering {y}: '
                      f'load-time callbacks {got_load}, expected '
                      f'{want_load}')
        adds = [i for i, n in enumerate(names) if n[0] == 'on_add']
        loads = [i for i, n in enumerate(names) if n[0] == 'on_world_load']
        if adds and loads and max(adds) > min(loads):
            self.fail(('C13', 'C15'), 'callback_order', f'entering {y}: '
                      f'on_world_load before on_add: {names}')
        self.fresh.discard(y)
        owed = self.owed_out.pop(y, None) if rec is not None else None
        if owed is not None and not cut and y not in self.unsure:
            got_out = sorted(e[2] for e in window if e[0] == 'cb'
                             and e[1] == y and e[3] == 'on_switch_out')
            bad = [e for e in window if e[0] == 'cb' and e[1] == y
                   and e[3] == 'on_switch_out' and e[4] != owed[1]]
            if got_out != owed[0] or bad:
                self.fail('C13', 'out_count', f'entering {y} again: the '
                          f'on_switch_out postponed when it was left (its '
                          f'dispatching was off) reached {got_out}, expected '
                          f'{owed[0]} with {owed[1]}')
            self.probes['postponed_on_switch_out_delivered'] += 1
        ins = [i for i, n in enumerate(names) if n[0] == 'on_switch_in']
        # events still queued in y from an entry that was cut short
        carry = self.carry.pop(y, None) if rec is not None else None
        held = (carry['held'] if carry else []) + list(held)
        in_args = list(carry['ins']) if carry else []
        if rec and rec['via'] == 'switch':
            in_args.append((rec['from'], y))
        if rec is not None:
            rec['exp_held'] = held
        lst = sorted(self.listeners(y, 'on_switch_in'))
        want_in = sorted((lab, a) for lab in lst for a in in_args)
        got_in = sorted((names[i][1], life[i][4]) for i in ins)
        if rec and rec.get('cut_cand') in held and not rec.get('cut_token'):
            rec['cut_token'], rec['cut'] = rec['cut_cand'], True
            cut = True
        cut_token = rec.get('cut_token') if (rec and cut) else None
        pl = self.listeners(y, 'probe')
        if y in self.unsure:
            pass
        elif cut_token is not None:
            # the callback of a held event raised: the events behind it
            # (and on_switch_in, always last) are still queued in y
            k = held.index(cut_token)
            for lab in pl:
                got = [e[4][0] for e in life if e[3] == 'probe'
                       and e[2] == lab and e[4][0] in held]
                if got not in (held[:k], held[:k + 1]):
                    self.fail('C13', 'held_events_lost', f'entering {y}: '
                              f'held events {held}, delivery cut at '
                              f'{cut_token}, listener {lab} received {got}')
            if got_in:
                self.fail('C13', 'in_count', f'entering {y}: on_switch_in '
                          f'delivered before the held events in front of it')
            self.carry[y] = {'held': held[k + 1:], 'ins': in_args}
            self.probes['entry_cut_by_held_event_callback'] += 1
        else:
            if cut and got_in and all(g in want_in for g in got_in) and len(
                    set(got_in)) == len(got_in):
                # a callback of this very delivery asked for another
                # switch / raised: the exception cuts the delivery short
                # (C04: half delivered event)
                self.probes['entry_cut_by_chained_switch'] += 1
                if len(in_args) >= 2:
                    self.unsure.add(y)  # a second on_switch_in stays queued
            elif got_in != want_in:
                self.fail('C13', 'in_count' if sorted(g[0] for g in got_in)
                          != sorted(w[0] for w in want_in) else 'args',
                          f'entering {y} (request {rec}): on_switch_in '
                          f'delivered {got_in}, expected {want_in}')
            if ins and (adds or loads) and min(ins) < max(adds + loads):
                self.fail('C13', 'in_before_load_callbacks', f'entering '
                          f'{y}: on_switch_in before the pending load-time '
                          f'callbacks: {names}')
            # held probe events: once each, in order, per listener
            for lab in pl:
                got = [e[4][0] for e in life if e[3] == 'probe'
                       and e[2] == lab and e[4][0] in held]
                if got != list(held) and not cut:
                    self.fail('C13', 'held_events_lost', f'entering {y}: '
                              f'probe events held while muted {held}, '
                              f'listener {lab} received {got}')
            if carry:
                self.probes['carried_events_released'] += 1
        if held and pl:
            self.probes['held_events_released'] += 1
        n_in = len(ins)
        # everything above precedes the first frame of y
        first_proc = next((i for i, e in enumerate(window)
                           if e[0] in ('proc', 'co') and e[1] == y), None)
        if first_proc is not None:
            late = [e for e in window[first_proc:] if e[0] == 'cb'
                    and e[1] == y and e[3] in ('on_add', 'on_world_load',
                                               'on_switch_in')]
            if late:
                self.fail('C13', 'in_before_load_callbacks', f'{y} ran a '
                          f'frame before {late[0][3]} was delivered')
        return n_in

    def check_switch_history(self):
        """C13: per request, out in x, in in y, nothing anywhere else."""
        ev = self.ev
        n_in_total = sum(1 for e in ev if e[0] == 'cb'
                         and e[3] == 'on_switch_in')
        n_in_expected = 0
        i = 0
        while i < len(ev):
            e = ev[i]
            if e[0] == 'req_begin':
                rec = e[1]
                j = next((k for k in range(i + 1, len(ev))
                          if ev[k][0] == 'req' and ev[k][1] is rec), None)
                if j is None:
                    i += 1
                    continue
                between = [x for x in ev[i + 1:j] if x[0] == 'cb']
                frm = rec['from']
                want = sorted(self.listeners(frm, 'on_switch_out'))
                if rec.get('out_postponed'):
                    self.owed_out[frm] = (want, (frm, rec['y']))
                    want = []
                got = sorted(x[2] for x in between
                             if x[3] == 'on_switch_out' and x[1] == frm)
                # (on_switch_in may already reach an enabled target here:
                # the statement does not order it against raising)
                stray = [x for x in between if not (
                    x[3] == 'on_switch_out' and x[1] == frm) and not (
                    x[3] == 'on_switch_in' and x[1] == rec['y'])]
                if got != want or stray:
                    self.fail('C13', 'out_count', f'request {rec}: '
                              f'on_switch_out delivered to {got} in {frm} '
                              f'(+ {stray}), expected {want}')
                for x in between:
                    if x[3] == 'on_switch_out' and x[4] != (frm, rec['y']):
                        self.fail('C13', 'args', f'on_switch_out in {frm} '
                                  f'got {x[4]}, expected ({frm}, {rec["y"]})'
                                  )
                i = j
                continue
            if e[0] == 'req':
                rec = e[1]
                end = next((k for k in range(i + 1, len(ev))
                            if ev[k][0] in ('clock', 'req_begin')
                            or (ev[k][0] == 'req')), len(ev))
                b = next((k for k in range(i, -1, -1)
                          if ev[k][0] == 'req_begin' and ev[k][1] is rec), i)
                window = ev[b + 1:end]
                y = rec['y']
                cut = bool(rec.get('cut'))
                n_in = self.check_entry(window, y, rec['held'], rec, cut)
                n_in_expected += n_in
                # loads: the predicted instance is the one that exists
                loads = [x[1] for x in window if x[0] == 'load']
                pre = [x[1] for x in ev[:i + 1] if x[0] == 'load']
                if rec['fresh'] and self.gen[y[0]] < y[1]:
                    self.fail('C13', 'not_fresh', f'request {rec}: a fresh '
                              f'instance of handle {y[0]} was expected')
            i += 1
        if n_in_total != n_in_expected:
            self.fail('C13', 'in_wrong_instance', f'{n_in_total} '
                      f'on_switch_in deliveries in this run, expected '
                      f'{n_in_expected} (requests: {self.requests})')
        if len(self.requests) >= 2 and 'special_switch' in self.flags and \
                len(self.req_kinds) >= 2:
            self.flags.add('c13_nontrivial')

    def nontrivial(self):
        if self.prop == 'C13':
            return 'c13_nontrivial' in self.flags
        term = sum(self.faults[k] for k in ('quit', 'quit_loop', 'boom',
                                            'crash'))
        return bool(self.total_requests and term
                    and self.probes['restart_count>=2'])


def execute(scenario, prop, tolerate=frozenset()):
    it = Interp(scenario, prop, tolerate)
    violation = None
    idx = -1
    s0 = kernel.StepBudget.total
    try:
        for idx, op in enumerate(scenario['ops']):
            it.stats['ops'] += 1
            it.trace.add('op', *op)
            getattr(it, 'op_' + op[0])(op)
    except Violation as v:
        violation = v.to_json()
        violation['op'] = idx
    finally:
        it.desper.default_loop = it.saved_default
    it.stats['steps'] = kernel.StepBudget.total - s0
    return {'violation': violation, 'digest': it.trace.digest(),
            'nontrivial': it.nontrivial(), 'probes': dict(it.probes),
            'faults': dict(it.faults), 'known': dict(it.known),
            'stats': dict(it.stats), 'trace_tail': it.trace.tail(40),
            'activations': [e for e in getattr(it, 'all_acts', [])]}


# --------------------------------------------------------------------------
# generation

YS = ['N', 'N', 0, 0.5, 1, 2]


def gen_config(prop, rng):
    nw = rng.randint(2, 4)
    worlds = []
    for _ in range(nw):
        comps = []
        for _ in range(rng.randint(0, 4)):
            evs = [e for e in EVENTS if rng.random() < .45]
            comps.append(evs or [rng.choice(EVENTS)])
        worlds.append({
            'procs': [rng.randint(-2, 2) for _ in range(rng.randint(0, 3))],
            'update': rng.choice([None, 0, 0, -1, 1]),
            'coros': [[rng.choice(YS) for _ in range(rng.randint(1, 5))]
                      for _ in range(rng.choice([0, 0, 1, 2]))],
            'coro_prio': rng.choice([0, 1, -1]),
            'comps': comps})
    kind = rng.choice(['int', 'float', 'frac', 'int', 'float', 'frac',
                       'datetime', 'timedelta', 'bigfloat'])
    if kind in ('datetime', 'timedelta'):
        # any non-decreasing readings whose differences are the dt
        tag = 'DT' if kind == 'datetime' else 'TD'
        start = [tag, rng.choice([0, 3600, 86400.5])]
        incs = [['TD', rng.choice([0, 0.25, 1, 2, 1000])] for _ in range(
            rng.randint(1, 6))]
        for wspec in worlds:
            wspec['coros'] = []         # (coroutine timers want numbers)
    elif kind == 'bigfloat':
        # float readings that cross 2**52 / 2**53: every reading and every
        # difference of consecutive readings is exact, "reading minus the
        # first reading" is not
        start, jump = rng.choice([(1.0, 2.0 ** 53 - 1.0),
                                  (0.5, 2.0 ** 52 - 0.5),
                                  (3.0, 2.0 ** 53 - 3.0)])
        incs = [0.0, jump] + [rng.choice([2.0, 2.0, 4.0, 1.0 if start == 0.5
                                          else 2.0]) for _ in range(40)]
    elif kind == 'int':
        start = rng.choice([0, 10, -5, 2 ** 40])
        incs = [rng.choice([0, 1, 1, 2, 1000]) for _ in range(
            rng.randint(1, 6))]
    elif kind == 'float':
        start = rng.choice([0.0, 10.5, -5.25, 2 ** 40 + 0.25])
        incs = [rng.choice([0, 0.25, 1.0, 0.5, 1000.0]) for _ in range(
            rng.randint(1, 6))]
    else:
        start = ['F', rng.choice([0, 1, -7, 41]), 4]
        incs = [['F', rng.choice([0, 1, 1, 3, 4000]), 4] for _ in range(
            rng.randint(1, 6))]
    return {'policy': rng.choice(kernel.POLICIES), 'worlds': worlds,
            'own_loop': rng.random() < .2,
            'falsy_worlds': rng.random() < .1,
            'pingpong': prop == 'C14' and rng.random() < .03,
            'shared_switch': ([rng.randrange(nw), rng.random() < .5,
                               rng.random() < .7]
                              if rng.random() < .1 else None),
            'load_quit': ({str(rng.randrange(nw)): rng.choice([1, 2, 2, 3])}
                          if prop == 'C14' and rng.random() < .08 else {}),
            'load_boom': ({str(rng.randrange(nw)): rng.choice([1, 2, 2, 3])}
                          if prop == 'C14' and rng.random() < .06 else {}),
            'clock': {'start': start, 'incs': incs}}


def frame_of(key):
    return int(key.split(':', 1)[0])


def gen_script(prop, rng, cfg, key, state):
    nw = len(cfg['worlds'])
    actor = key.split(':', 1)[1]
    special = actor == 'clock' or actor.endswith('on_world_load') \
        or actor.endswith('on_switch_in')
    if actor.endswith('.on_quit'):
        return [rng.choice([['quit'], ['quit'], ['boom']])]
    if actor.endswith('.probe'):
        r2 = rng.random()
        if r2 < .55:
            return [['raise_switch', rng.randrange(nw), False, False]]
        if r2 < .75:
            return [['switch', rng.randrange(nw), False, False, 'default']]
        return [rng.choice([['quit'], ['boom']])]
    r = rng.random()
    ops = []
    if prop == 'C14' and rng.random() < (
            .15 if actor.endswith('on_switch_in') else .02):
        return [['loop_switch', rng.randrange(nw)]]
    if prop == 'C14' and not special and rng.random() < .04:
        ops.append(['swap_clock'])
    if cfg.get('pingpong') and not special and rng.random() < .3:
        return [['pingpong', rng.choice([40, 300, 995, 1100, 1500]),
                 rng.randrange(nw)]]
    if rng.random() < .35:
        state['token'] += 1
        ops.append(['probe', rng.randrange(nw), state['token']])
    if actor == 'clock':
        return ops + [['quit']] if r < .5 else ops
    if special and (r < .5 or not actor.endswith('on_switch_in')):
        # (only on_switch_in chains a switch: it is the last callback of
        # the entering release, so the entry is complete when it runs)
        state['token'] += 1
        return ops or [['probe', rng.randrange(nw), state['token']]]
    if prop == 'C14' and r < .25:
        return ops + [rng.choice([['quit'], ['quit_loop', 'none'],
                                  ['quit_loop', 'cur'], ['boom'], ['crash'],
                                  ['quit_loop', rng.randrange(nw)]])]
    if r < .8:
        if prop == 'C13' and rng.random() < .12 and not special:
            return ops + [['switch', rng.randrange(nw), False,
                           rng.random() < .3, 'muted_current']]
        return ops + [['switch', rng.randrange(nw), rng.random() < .35,
                       rng.random() < .35,
                       rng.choice(['default', 'default', 'current'])]]
    if r < .93:
        if cfg.get('shared_switch'):
            return ops + [['raise_switch'] + list(cfg['shared_switch'])
                          + ['shared']]
        return ops + [['raise_switch', rng.randrange(nw), rng.random() < .3,
                       rng.random() < .3]]
    return ops + [rng.choice([['quit'], ['quit_loop', 'none'], ['boom']])]


TERMINATORS = [['quit'], ['quit_loop', 'none'], ['quit_loop', 'cur'],
               ['boom'], ['crash'], ['boom', 'stop'], ['boom', 'group'],
               ['boom', 'group_sw']]


def generate(prop, run_seed, tier='quick', tolerate=frozenset()):
    crng = kernel.stream(run_seed, 'cfg')
    rng = kernel.stream(run_seed, 'gen')
    cfg = gen_config(prop, crng)
    nruns = crng.choice([1, 2, 2, 3, 4]) if prop == 'C14' else \
        crng.choice([1, 1, 2, 3])
    ops = [['init', crng.randrange(len(cfg['worlds']))]]
    for _ in range(nruns):
        ops.append(['run', crng.randint(2, 30 if tier == 'thorough' else 12),
                    'quit' if crng.random() < .6 else 'crash'])
    sc = {'format': 1, 'engine': 'loop', 'config': cfg, 'ops': ops,
          'scripts': {}, 'run_seed': run_seed}
    state = {'token': 0}
    after = -1
    for _ in range(crng.choice([1, 2, 3, 4, 6])):
        try:
            dry = execute(copy.deepcopy(sc), prop, tolerate)
        except Exception:       # reported when sc is executed (run_one)
            return [sc]
        if dry['violation'] is not None:
            return [sc]
        acts = [k for k in dict.fromkeys(dry['activations'])
                if frame_of(k) >= after and k not in sc["scripts"]]
        acts = [k for k in acts if not (
            k.endswith('on_switch_in') or k.endswith('on_world_load'))
            or rng.random() < .3]
        if not acts:
            break
        key = acts[min(len(acts) - 1, int(rng.expovariate(1 / 4)))]
        sc['scripts'][key] = gen_script(prop, rng, cfg, key, state)
        # (callbacks run by the clock's script carry the number of the
        # frame that has just ended)
        after = frame_of(key) - (1 if key.endswith(':clock') else 0)
    out = [sc]
    if prop != 'C14':
        return out
    try:
        dry = execute(copy.deepcopy(sc), prop, tolerate)
    except Exception:
        return out
    if dry['violation'] is not None:
        return out
    acts = [k for k in dict.fromkeys(dry['activations'])
            if not k.endswith('on_world_load')]
    if not acts:
        return out
    if tier == 'thorough':
        combos = [(k, t) for k in acts[:60] for t in TERMINATORS]
    else:
        combos = [(rng.choice(acts), rng.choice(TERMINATORS))
                  for _ in range(3)]
    for key, term in combos:
        v = copy.deepcopy(sc)
        if key.endswith('.on_quit') and term[0] == 'quit_loop':
            term = ['quit']             # no quit_loop from inside on_quit
        v['scripts'][key] = [list(term)]
        if not any(op[0] == 'run' for op in v['ops'][2:]):
            v['ops'].append(['run', 3, 'quit'])
        out.append(v)
    return out


def simplify(sc):
    if sc['config'].get('policy') != 'fifo':
        c = copy.deepcopy(sc)
        c['config']['policy'] = 'fifo'
        yield c
    for h, w in enumerate(sc['config']['worlds']):
        for field in ('comps', 'coros', 'procs'):
            for k in range(len(w.get(field, []))):
                if field == 'comps' and any(
                        f'H{h}.c' in key for key in sc['scripts']):
                    continue
                if field != 'comps' and k != len(w[field]) - 1:
                    continue
                c = copy.deepcopy(sc)
                del c['config']['worlds'][h][field][k]
                yield c
        for k, evs in enumerate(w.get('comps', [])):
            for j in range(len(evs)):
                if len(evs) > 1:
                    c = copy.deepcopy(sc)
                    del c['config']['worlds'][h]['comps'][k][j]
                    yield c
    for k, op in enumerate(sc['ops']):
        if op[0] == 'run' and op[1] > 2:
            c = copy.deepcopy(sc)
            c['ops'][k][1] = op[1] - 1
            yield c
    for key, script in sc['scripts'].items():
        for j, op in enumerate(script):
            if op[0] == 'switch' and (op[2] or op[3]):
                for idx in (2, 3):
                    if op[idx]:
                        c = copy.deepcopy(sc)
                        c['scripts'][key][j][idx] = False
                        yield c


_COMPONENTS = {
    'real': ['desper.loop.SimpleLoop / Loop (start, loop, switch)',
             'desper.loop.switch / quit_loop / Quit / SwitchWorld',
             'desper.model.world.WorldHandle.load', 'desper.World, '
             'OnUpdateProcessor, CoroutineProcessor, EventDispatcher'],
    'stub': ['time function (simulated clock: repeated readings, jumps, '
             'int/float/Fraction, huge offsets)', 'processor / handler / '
             'coroutine bodies (scripted actors)', 'desper.default_loop '
             '(rebound to the simulated loop)', 'set iteration order '
             '(SimSet seam)'],
}
_ASSUME = [
    'LoopModel (sim/engines/loop.py) is hand-written from the statements',
    'every world has a first processor "tick" that makes each process() '
    'call observable',
    'on_quit is only requested for worlds that are not muted',
    'clock values are exactly representable; dt is compared with ==',
]
INFO = {
    'C13': {'rule': '2-4 world handles, frame scripts placed iteratively on '
            'activations observed in dry runs: switch()/raise SwitchWorld '
            'with every flag combination, targets incl. the current handle, '
            'cached or not, requested from processors (first/middle/last), '
            'on_update callbacks, coroutines, on_switch_in; probe events on '
            'muted worlds; non-trivial = >=2 switches, at least one with a '
            'clear flag or to the current handle, from >=2 kinds of '
            'requester; distinct = distinct trace digests',
            'components': _COMPONENTS, 'assumptions': _ASSUME},
    'C14': {'rule': 'C13 system with generated clocks; for sampled (quick: '
            '3; thorough: every activation of the base run x 5 terminators) '
            'positions a Quit / quit_loop / ordinary exception / '
            'BaseException is raised, followed by a restart of the same '
            'loop; non-trivial = >=1 switch, >=1 terminating fault and a '
            'restart; distinct = distinct trace digests',
            'components': _COMPONENTS, 'assumptions': _ASSUME},
}
for _v in INFO.values():
    _v['rule'] += (
        '; swarm dimensions (see probes): int/float/Fraction/datetime/timedelta clocks, floats crossing 2**53, a non-default loop next to a decoy default loop, loads that quit, plain loop.switch() calls (terminal for the model), StopIteration terminators, the same SwitchWorld instance raised again, leaving a world whose dispatching the program switched off, probes into muted and into discarded worlds, loads that crash, exception groups with Quit / SwitchWorld leaves, falsy World subclasses, scripts on callbacks run by the clock, the time function replaced while the loop runs, switch requests amended after construction, chains of up to 1500 switches between two iterations')
PROBES = {
    'C13': ['flag.none', 'flag.clear_current', 'flag.clear_next',
            'flag.both', 'self_switch', 'target_uncached',
            'requester.proc_first', 'requester.proc', 'requester.on_update',
            'requester.coroutine', 'requester.on_switch_in',
            'reenter_muted_world_with_pending', 'direct_raise',
            'probe_on_muted_world', 'held_events_released',
            'entry_cut_by_held_event_callback', 'carried_events_released',
            'entry_cut_by_chained_switch', 'non_default_loop',
            'probe_on_discarded_world',
            'same_SwitchWorld_instance_raised_again',
            'left_world_was_disabled_by_the_program',
            'postponed_on_switch_out_delivered'],
    'C14': ['quit_while_next_world_loads', 'stop_iteration_escapes_a_frame',
            'plain_loop_switch_call',
            'quit_from.proc_first', 'quit_from.proc', 'quit_from.on_update',
            'quit_from.coroutine', 'quit_from.clock', 'boom_from.proc',
            'restart_count>=2', 'zero_delta_reading', 'jump_reading',
            'fraction_clock', 'dt_across_switch_checked', 'on_quit_checked',
            'quit_checked', 'boom_then_restart_possible',
            'on_quit_cut_by_raising_listener', 'datetime_clock'],
}

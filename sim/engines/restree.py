"""Resource-tree engine: C11, C12, C17 (DESIGN.md section 3).

Histories of insertions / clears / layerings on a real ResourceMap tree,
compared with a nested-dict model after every operation (structure, every
query path, back-links); counting handles give the load ledger of C12
(all access paths, failing loads as I/O faults); static snapshots taken in
the middle of a history are compared path by path (C17).
"""
import collections
import copy
import json

from .. import kernel
from ..kernel import Violation, SimHang

SCRATCH = __import__('os').environ.get('VERIF_SCRATCH',
                                       '/var/tmp/desper-verif')
_counter = [0]

Counter = collections.Counter
OP_BUDGET = 40000
ALPHA = ['a', 'b', 'c', 'x1', 'a b', '', 'cafe\u0301', 'caf\u00e9']
ALPHA17 = ['a', 'b', 'x1', 'class', 'a b', '1x', 'a.b', '', 'get2', 'c',
           '\u00e9t\u00e9', 'n\u00f1', 'None', 'd', 'e', 'f_g', 'handles', 'maps',
           '__meta__', '__', '___', '__icon.png__', '_x', '_',
           # identifiers that normalisation (NFC / NFKC) would merge
           'cafe\u0301', 'caf\u00e9', '\ufb01le', 'file', '\u00aa', 'a',
           # names no Python identifier or type name can carry
           'nul\x00name', '\x00']
SPLIT = '/'


class LoadFail(Exception):
    pass


class MMap:
    """Model of a ResourceMap."""

    def __init__(self, label, obj=None):
        self.label = label
        self.obj = obj
        self.maps = {}
        self.layers = [{}]          # top first: name -> handle id
        self.parent = None
        self.key = None

    def visible(self, name):
        for layer in self.layers:
            if name in layer:
                return layer[name]
        return None


class HState:
    def __init__(self, hid, vcode, fails):
        self.hid, self.vcode, self.fails = hid, vcode, set(fails)
        self.obj = None
        self.parent = None
        self.key = None
        self.attempts = 0
        self.completed = 0
        self.last = None
        self.loaded = False         # epoch has a completed load
        self.value = None
        self.paths = set()          # access paths used in this epoch
        self.epochs = 1
        self.inserted = False
        self.aliased = False        # stored under more than one name
        self.wrap = False           # its class overrides __call__
        self.wrapper = None


class WeakVal:
    """A loaded value nobody but the handle keeps (the model remembers it
    through a weak reference only)."""


class _WeakBox:
    def __init__(self, v):
        import weakref
        self.ref = weakref.ref(v)


def same(v, x):
    """v is the object the model remembers as x."""
    return (x.ref() is v) if isinstance(x, _WeakBox) else (v is x)


class Wrapped:
    """What a handle whose class overrides __call__ hands out: the cached
    resource inside a (per value unique) envelope."""

    def __init__(self, inner):
        self.inner = inner


class Falsy:
    def __bool__(self):
        return False


class BoolRaises:
    def __bool__(self):
        raise RuntimeError('__bool__ called on a resource')


class EqTrue:
    def __eq__(self, other):
        return True
    __hash__ = object.__hash__


class EqFalse:
    def __eq__(self, other):
        return False
    __hash__ = object.__hash__


class EqRaises:
    def __eq__(self, other):
        raise RuntimeError('__eq__ called on a resource')
    __hash__ = object.__hash__


def closed_stream():
    import io
    f = io.StringIO('data')
    f.close()
    return f


VCODES = ['none', 'zero', 'fzero', 'empty_str', 'empty_tuple', 'list',
          'falsy', 'bool_raises', 'eq_true', 'eq_false', 'eq_raises', 'obj',
          'world', 'ellipsis', 'notimpl', 'weakobj', 'weakobj', 'closed']
FALSY = {'none', 'zero', 'fzero', 'empty_str', 'empty_tuple', 'list',
         'falsy', 'bool_raises'}


class Interp:
    def __init__(self, scenario, prop, tolerate):
        self.sc, self.cfg = scenario, scenario['config']
        self.prop, self.tolerate = prop, tolerate
        self.trace = kernel.Trace()
        self.probes, self.faults = Counter(), Counter()
        self.known, self.stats = Counter(), Counter()
        self.desper = d = kernel.begin_run(
            'fifo', kernel.stream(scenario.get('run_seed', 0), 'sched'), 0,
            self.trace)
        it = self

        class CountingHandle(d.Handle):
            def __init__(self, hid):
                self.hid = hid

            def load(self):
                return it.on_load(self.hid)

        heq = self.cfg.get('heq')
        if heq == 'equal':          # distinct handles that compare equal
            CountingHandle.__eq__ = lambda a, b: isinstance(b, CountingHandle)
            CountingHandle.__hash__ = lambda a: 1
        elif heq == 'unhashable':   # __eq__ without __hash__
            CountingHandle.__eq__ = lambda a, b: a is b
            CountingHandle.__hash__ = None

        class WrappingHandle(CountingHandle):
            """Post-processes what the base class caches (a legal override of
            the public __call__): every access path must go through it."""
            def __call__(self):
                v = super().__call__()
                st = it.h[self.hid]
                if st.wrapper is None or st.wrapper.inner is not v:
                    st.wrapper = Wrapped(v)
                return st.wrapper

        self.WrappingHandle = WrappingHandle

        class InnerHandle(d.Handle):
            """A resource that is itself a handle: accesses must hand it
            out as it is, never load it."""
            def load(self):
                it.inner_loads += 1
                return object()

        class ArgMap(d.ResourceMap):
            """A map class that cannot be built without arguments: maps
            created implicitly are plain ResourceMaps, never instances of
            the receiver's class."""
            def __init__(self, tag):
                super().__init__()
                self.tag = tag

            if self.cfg.get('meq'):
                # maps with value equality (a dataclass with metadata):
                # all of them are equal, each is its own object
                def __eq__(self, other):
                    return type(other) is type(self)

                def __hash__(self):
                    return 3

        self.ArgMap = ArgMap
        self.InnerHandle = InnerHandle
        self.inner_loads = 0
        self.CountingHandle = CountingHandle
        # the root may be of a class with its own delimiter: its composite
        # keys are split on that one, and names containing '/' are plain
        # names for it
        self.S = self.cfg.get('root_split') or SPLIT
        rbase = ArgMap if self.cfg.get('root_sub') else d.ResourceMap
        if self.S != SPLIT:
            rbase = type('SplitRoot', (rbase,), {'split_char': self.S})
            self.probes['root_with_its_own_split_char'] += 1
        self.root = MMap('R', rbase('root') if self.cfg.get('root_sub')
                         else rbase())
        self.maps = {'R': self.root}        # map id -> MMap
        self.h = {}                         # handle id -> HState
        self.deferred = None
        self.tree_epoch = 0
        self.closed = False
        self.snaps = {}                     # snap id -> (static, model)
        self.snap_of_root = set()
        self.loop = d.SimpleLoop()
        self.loop_cur = None
        self.scratch = None
        self.flags = set()

    def fail(self, props, kind, detail=''):
        raise Violation(props, kind, detail)

    def file_handle(self, hid):
        """A real WorldFromFileHandle on a real (empty) world file."""
        import os
        d, it = self.desper, self
        if self.scratch is None:
            _counter[0] += 1
            self.scratch = os.path.join(f'{SCRATCH}-{os.getpid()}',
                                        f'rt{_counter[0]}')
            if os.path.exists(self.scratch):
                # (left behind by a dead process that had this pid)
                import shutil
                shutil.rmtree(self.scratch, ignore_errors=True)
            os.makedirs(self.scratch)
        path = os.path.join(self.scratch, f'w{hid}.json')
        with open(path, 'w') as f:
            f.write('{}')
        os.utime(path, ns=(10 ** 18, 10 ** 18))

        class FileWorld(d.WorldFromFileHandle):
            def __init__(self, filename):
                super().__init__(filename)
                self.hid = hid

            def load(self):
                return it.on_load(self.hid)
        self.probes['world_file_handle'] += 1
        return FileWorld(path)

    def op_touch(self, op):
        """The file behind a WorldFromFileHandle is rewritten (new mtime)
        between two accesses: no reload without clear()."""
        import os
        st = self.h.get(op[1])
        if st is None or st.vcode != 'fileworld':
            return 'skip'
        self.touched = getattr(self, 'touched', 0) + 1
        t = 10 ** 18 + self.touched * 10 ** 10
        with open(st.obj.filename, 'w') as f:
            f.write('{"entities": []}')
        os.utime(st.obj.filename, ns=(t, t))
        self.probes['world_file_rewritten'] += 1

    def op_deep(self, op):
        """"keys of any depth": a key of n components on a fresh map - set,
        [], get and the step-by-step walk tell the same story."""
        n = op[1]
        d = self.desper
        m = d.ResourceMap()

        class H(d.Handle):
            def load(self):
                return ('deep', n)
        h = H()
        key = SPLIT.join(['d'] * n)
        try:
            with kernel.budget(OP_BUDGET + 40 * n):
                m[key] = h
                a = m[key]
                b = m.get(key)
                cur = m
                for _ in range(n - 1):
                    cur = cur['d']
                c = cur['d']
                miss = m.get(key + SPLIT + 'x', 'default')
        except SimHang as e:
            self.fail('C11', 'hang', f'key of {n} components: {e}')
        except Exception as e:
            self.fail('C11', 'paths_disagree', f'a key of {n} components: '
                      f'{type(e).__name__}: {str(e)[:80]}')
        if a != ('deep', n) or b is not h or c is not a or miss != 'default':
            self.fail('C11', 'paths_disagree', f'a key of {n} components: '
                      f'[] -> {a!r}, get -> {b!r}, walk -> {c!r}')
        self.probes['very_deep_key'] += 1

    # ---- loads
    def make_value(self, vcode):
        d = self.desper
        return {'none': lambda: None, 'zero': lambda: 0,
                'fzero': lambda: 0.0, 'empty_str': lambda: '',
                'empty_tuple': lambda: (), 'list': lambda: [],
                'falsy': Falsy, 'bool_raises': BoolRaises,
                'eq_true': EqTrue, 'eq_false': EqFalse,
                'eq_raises': EqRaises, 'obj': object,
                'weakobj': WeakVal,
                'closed': closed_stream,    # a resource with a state of
                                            # its own (closed = True)
                'ellipsis': lambda: Ellipsis,   # singletons a cache might
                'notimpl': lambda: NotImplemented,  # use as "nothing yet"
                'world': d.World, 'via': object,
                'clearer': object, 'inner': self.InnerHandle,
                'selfh': object}[vcode]()

    def on_load(self, hid):
        st = self.h[hid]
        st.attempts += 1
        self.trace.add('load', hid, st.attempts)
        if st.attempts in st.fails:
            self.faults['load_raises'] += 1
            raise LoadFail(f'h{hid} load #{st.attempts}')
        if st.vcode == 'selfh':
            v = st.obj                  # the resource is the handle itself
            st.completed += 1
            st.last = v
            return v
        if st.vcode == 'clearer':
            # this load clears another handle (possibly one whose own load
            # is in progress further up the stack)
            tgt = self.h.get(st.target)
            if tgt is not None and tgt is not st:
                tgt.obj.clear()
                self.model_clear(st.target)
                self.probes['clear_from_inside_a_load'] += 1
            v = object()
        elif st.vcode == 'setter':
            # this load rearranges the tree (first time only): one of the
            # maps on the way to this very handle is replaced by a new one
            if st.completed == 0 and getattr(st, 'setspec', None):
                key, spec = st.setspec
                self.probes['tree_rearranged_from_inside_a_load'] += 1
                self.faults['set_from_inside_a_load'] += 1
                self.tree_epoch += 1
                self.do_set(self.root, key, spec)
            v = object()
        elif st.vcode == 'via':
            v = self.nested_load(st)
        elif st.vcode == 'fileworld':
            # a world read from a (real) file by the real WorldFromFileHandle
            v = self.desper.WorldFromFileHandle.load(st.obj)
        else:
            v = self.make_value(st.vcode)
            if st.vcode == 'weakobj':
                # the program watches the resource die (a finalizer): at
                # that instant the handle no longer claims to hold it
                import weakref
                f = weakref.finalize(v, self.on_value_death, hid,
                                     st.completed + 1)
                f.atexit = False
        st.completed += 1
        st.last = _WeakBox(v) if st.vcode == 'weakobj' else v
        return v

    def on_value_death(self, hid, load_no):
        if self.closed:
            return
        st = self.h.get(hid)
        if st is None or st.completed != load_no:
            return      # (the handle has loaded a newer resource since)
        self.probes['resource_finalizer_looked_at_its_handle'] += 1
        try:
            flag = st.obj.cached
        except Exception as e:
            flag = f'raised {type(e).__name__}'
        self.trace.add('value_death', hid, repr(flag))
        if flag is not False and self.deferred is None:
            self.deferred = Violation(
                'C12', 'cached_flag', f'the resource of h{hid} has just been '
                f'let go (it is being finalised), h{hid}.cached reads '
                f'{flag!r} at that instant')


    def nested_load(self, st):
        """A load that itself reaches another handle through the map."""
        other = self.h.get(st.via)
        path = self.path_of(st.via) if other is not None else None
        if (other is None or path is None or other is st
                or other.vcode == 'via'
                or (not other.loaded and (other.attempts + 1) in other.fails)):
            return ['via', None]
        root = self.root.obj
        self.probes['nested_load'] += 1
        v = self.access(st.via, 'nested_load',
                        lambda: root[self.S.join(path)])
        return ['via', v]

    def access(self, hid, how, thunk):
        """One access to the resource of handle hid through path `how`."""
        st = self.h[hid]
        c0 = st.completed
        cached = st.obj.cached
        if bool(cached) != st.loaded:
            self.fail('C12', 'cached_flag', f'h{hid}.cached = {cached!r} '
                      f'before access via {how}, model says loaded='
                      f'{st.loaded}')
        will_fail = (not st.loaded) and (st.attempts + 1) in st.fails
        try:
            with kernel.budget(OP_BUDGET):
                v = thunk()
        except LoadFail:
            if not will_fail:
                self.fail('C12', 'loaded_twice', f'access to h{hid} via '
                          f'{how} ran load() again although the resource '
                          f'was loaded in this epoch')
            if st.obj.cached:
                self.fail('C12', 'cached_flag', f'h{hid}.cached is true '
                          f'after its load raised')
            self.probes['load_failed'] += 1
            st.failed_once = True
            return None
        except Violation:
            raise
        except SimHang as e:
            self.fail('C12', 'hang', f'access h{hid} via {how}: {e}')
        except Exception as e:
            self.fail(('C12', 'C11', 'C17'), 'access_raised', f'access to '
                      f'h{hid} via {how} raised {type(e).__name__}: {e}')
        if st.wrap:
            if not isinstance(v, Wrapped):
                self.fail(('C12', 'C11', 'C17'), 'identity', f'access to '
                          f'h{hid} via {how} bypassed the handle\'s own '
                          f'__call__ (got the raw cached value)')
            v = v.inner
            self.probes['handle_overriding_call'] += 1
        n = st.completed - c0
        if st.loaded:
            if n:
                self.fail('C12', 'loaded_twice', f'h{hid} loaded again via '
                          f'{how} ({n} extra load(s)) in the same epoch '
                          f'(value code {st.vcode})')
            if not same(v, st.value):
                self.fail(('C12', 'C11', 'C17'), 'identity', f'access to '
                          f'h{hid} via {how} returned a different object '
                          f'than the other accesses of this epoch')
            if st.vcode in FALSY:
                self.probes['falsy_value_reaccessed'] += 1
            if st.vcode == 'eq_raises':
                self.probes['eq_raises_value'] += 1
        else:
            if n != 1:
                self.fail('C12', 'loaded_twice' if n > 1 else 'not_loaded',
                          f'first access to h{hid} via {how} in this epoch '
                          f'performed {n} loads')
            if not same(v, st.last):
                self.fail('C12', 'identity', f'access to h{hid} via {how} '
                          f'did not return what load() produced')
            st.loaded, st.value = True, (st.last if isinstance(
                st.last, _WeakBox) else v)
            if getattr(st, 'failed_once', False):
                self.probes['load_failed_then_retry'] += 1
        if not st.obj.cached:
            self.fail('C12', 'cached_flag', f'h{hid}.cached is false right '
                      f'after a successful access via {how}')
        if self.inner_loads:
            self.fail('C12', 'identity', f'access to h{hid} via {how} loaded '
                      f'the handle that *is* the resource instead of handing '
                      f'it out')
        if st.vcode in ('inner', 'selfh'):
            self.probes['handle_valued_resource'] += 1
        st.paths.add(how)
        self.probes['path.' + how] += 1
        if len(st.paths) >= 3 and st.vcode in FALSY:
            self.flags.add('c12_paths')
        return v

    # ---- building values
    def build(self, spec):
        """valspec -> (kind, model object). Real object is created too."""
        d = self.desper
        if spec['kind'] == 'reuse':
            # an object that was displaced from the tree is inserted again
            ref = spec['ref']
            node = self.h.get(ref) if not isinstance(ref, str) else \
                self.maps.get(ref)
            if node is None or node is self.root:
                return None
            # only objects that sit nowhere any more - neither in the tree
            # nor inside another displaced sub-tree (that would be aliasing)
            maps_in, handles_in = self.contained()
            if isinstance(ref, str):
                if ref in maps_in:
                    return None
            elif ref in handles_in or not node.inserted:
                return None
            self.probes['displaced_object_reinserted'] += 1
            return ('map' if isinstance(ref, str) else 'handle', node)
        if spec['kind'] == 'alias':
            # a handle that sits in the tree already is stored under one
            # more name (C12: one more access path; its back-link is then
            # ambiguous and not judged any more)
            node = self.h.get(spec['ref'])
            if node is None or not node.inserted or not (
                    self.prop == 'C12' or (self.prop == 'C11'
                                           and self.cfg.get('alias_c11'))):
                return None
            if spec['ref'] not in self.contained()[1]:
                return None
            node.aliased = True
            self.probes['handle_under_two_names'] += 1
            return ('handle', node)
        if spec['kind'] == 'handle':
            hid = spec['id']
            if hid in self.h:
                return None
            st = HState(hid, spec.get('val', 'obj'), spec.get('fails', []))
            st.via = spec.get('via')
            st.target = spec.get('target')
            st.setspec = spec.get('set')
            st.wrap = bool(spec.get('wrap'))
            if st.vcode == 'fileworld':
                st.obj = self.file_handle(hid)
            else:
                st.obj = (self.WrappingHandle if st.wrap
                          else self.CountingHandle)(hid)
            if spec.get('duck'):
                # a handle that happens to have attributes named like a
                # map's (a pack of levels with its own `maps`): a Handle
                # it is, by its class
                st.obj.maps = {}
                st.obj.split_char = '/'
                self.probes['handle_with_map_like_attributes'] += 1
            self.h[hid] = st
            return ('handle', st)
        mid = spec['id']
        if mid in self.maps:
            return None
        mm = MMap(mid, self.ArgMap(mid) if spec.get('sub')
                  else d.ResourceMap())
        if spec.get('sub'):
            self.probes['map_subclass_instance'] += 1
        self.maps[mid] = mm
        for item in spec.get('children', []):
            if item == 'LAYER':
                self.do_layer(mm)
            else:
                self.do_set(mm, item[0], item[1])
        return ('map', mm)

    def contained(self):
        """Ids of the maps that are a child of some known map and of the
        handles stored in some layer of some known map (reachable or not)."""
        maps_in, handles_in = set(), set()
        seen = set()

        def walk(mm):
            if id(mm) in seen:
                return
            seen.add(id(mm))
            for layer in mm.layers:
                handles_in.update(layer.values())
            for sub in mm.maps.values():
                maps_in.add(sub.label)
                walk(sub)
        for mm in list(self.maps.values()):
            walk(mm)
        return maps_in, handles_in

    def reachable(self):
        """Ids of the maps and handles (all layers) reachable in the model."""
        maps_in, handles_in = set(), set()

        def walk(mm):
            maps_in.add(mm.label)
            for layer in mm.layers:
                handles_in.update(layer.values())
            for sub in mm.maps.values():
                walk(sub)
        walk(self.root)
        return maps_in, handles_in

    def do_layer(self, mm):
        mm.obj.handles.maps.insert(0, {})
        mm.layers.insert(0, {})

    def drop_sub(self, mm):
        """A subtree leaves the tree (its nodes keep stale links)."""

    def do_set(self, target, key, spec):
        built = self.build(spec)
        if built is None:
            return 'skip'
        kind, node = built
        robj = node.obj
        try:
            with kernel.budget(OP_BUDGET):
                target.obj[key.replace(SPLIT, self.S)
                           if target is self.root else key] = robj
        except SimHang as e:
            self.fail('C11', 'hang', f'__setitem__: {e}')
        except Exception as e:
            self.fail('C11', 'op_raised', f'map[{key!r}] = <{kind}> raised '
                      f'{type(e).__name__}: {e}')
        keys = key.split(SPLIT)
        if '' in keys:
            self.probes['empty_key_component'] += 1
        cur = target
        for sub in keys[:-1]:
            for layer in cur.layers:
                if sub in layer:
                    del layer[sub]
                    self.probes['handle_replaced_by_map'] += 1
            if sub not in cur.maps:
                im = MMap(f'implicit:{sub}', None)
                im.parent, im.key = cur, sub
                im.implicit = True
                cur.maps[sub] = im
                self.probes['implicit_intermediate_created'] += 1
                self.flags.add('c11_nontrivial')
            cur = cur.maps[sub]
        last = keys[-1]
        if kind == 'map':
            for layer in cur.layers:
                if last in layer:
                    del layer[last]
                    self.probes['handle_replaced_by_map'] += 1
                    self.flags.add('c11_nontrivial')
                    if layer is not cur.layers[0]:
                        self.probes['layered_name_reassigned'] += 1
            cur.maps[last] = node
        else:
            if last in cur.maps:
                del cur.maps[last]
                self.probes['map_replaced_by_handle'] += 1
                self.flags.add('c11_nontrivial')
            if any(last in layer for layer in cur.layers[1:]):
                self.probes['layered_name_reassigned'] += 1
            cur.layers[0][last] = node.hid
            node.inserted = True
        node.parent, node.key = cur, last
        if target is not self.root:
            self.probes['assign_into_submap'] += 1
        return None

    def resolve(self, mpath):
        """Model map reached from the root by a list of names."""
        cur = self.root
        for name in mpath:
            cur = cur.maps.get(name)
            if cur is None:
                return None
        return cur

    # ---- operations
    def exec_op(self, op):
        self.stats['ops'] += 1
        self.trace.add('op', *[json.dumps(x, sort_keys=True)
                               if isinstance(x, dict) else x for x in op])
        r = getattr(self, 'op_' + op[0])(op)
        if self.deferred is not None:
            v, self.deferred = self.deferred, None
            raise v
        if r == 'skip':
            self.stats['skipped'] += 1
            self.trace.add('skip')
            return
        self.sweep()

    def op_detour(self, op):
        """A sub-map of the tree is also put into another map for a while
        (a scratch collection), which lets go of it again: the tree still
        contains it, its back-link does not lead to the tree any more."""
        target = self.resolve(op[1])
        if target is None or target is self.root or target.obj is None:
            return 'skip'
        other = self.desper.ResourceMap()
        other['borrowed'] = target.obj
        other.clear()
        target.detoured = True
        self.probes['sub_map_borrowed_by_another_map'] += 1

    def op_set(self, op):
        _, mpath, key, spec = op
        target = self.resolve(mpath)
        if target is None or target.obj is None:
            return 'skip'
        return self.do_set(target, key, spec)

    def op_layer(self, op):
        target = self.resolve(op[1])
        if target is None or target.obj is None:
            return 'skip'
        self.do_layer(target)

    def op_unlayer(self, op):
        """The top handle layer of a map is taken off again (the scope that
        a nesting population opened is closed): what it shadowed is visible
        once more."""
        target = self.resolve(op[1])
        if target is None or target.obj is None or len(target.layers) < 2:
            return 'skip'
        how = op[2] if len(op) > 2 else 'pop'
        if how == 'parents':
            target.obj.handles = target.obj.handles.parents
        else:
            target.obj.handles.maps.pop(0)
        gone = target.layers.pop(0)
        for hid in gone.values():
            self.h[hid].aliased = True      # (its back-link is stale now)
        self.probes['handle_layer_taken_off'] += 1

    def op_clear(self, op):
        target = self.resolve(op[1])
        if target is None or target.obj is None:
            return 'skip'
        kids = [(m.obj, m.label) for m in target.maps.values()
                if m.obj is not None]
        nlayers = sum(1 for layer in target.layers if layer)
        for layer in target.layers:
            for hid in layer.values():
                if not self.h[hid].aliased:
                    kids.append((self.h[hid].obj, f'h{hid}'))
        try:
            with kernel.budget(OP_BUDGET):
                target.obj.clear()
        except SimHang as e:
            self.fail('C11', 'hang', f'clear: {e}')
        except Exception as e:
            self.fail('C11', 'op_raised', f'clear() raised '
                      f'{type(e).__name__}: {e}')
        for o, lab in kids:
            if o.parent is not None or o.key is not None:
                self.fail('C11', 'clear_not_detached', f'after clear() the '
                          f'former child {lab} still has parent='
                          f'{"set" if o.parent is not None else None} '
                          f'key={o.key!r}')
        if nlayers >= 2:
            self.probes['clear_layered'] += 1
            self.flags.add('c11_nontrivial')
        target.maps = {}
        for layer in target.layers:
            layer.clear()

    def op_call(self, op):
        hid = op[1]
        if hid not in self.h:
            return 'skip'
        self.access(hid, 'call', lambda: self.h[hid].obj())

    def op_clear_handle(self, op):
        hid = op[1]
        if hid not in self.h:
            return 'skip'
        st = self.h[hid]
        st.obj.clear()
        if st.obj.cached:
            self.fail('C12', 'cached_flag', f'h{hid}.cached true after '
                      f'clear()')
        if st.loaded:
            st.epochs += 1
            self.probes['clear_between_accesses'] += 1
            if st.epochs >= 2:
                self.flags.add('c12_epochs')
        st.loaded, st.value, st.paths = False, None, set()

    def path_of(self, hid):
        """Model path (names from root) of a visible, reachable handle."""
        st = self.h.get(hid)
        if st is None or st.parent is None:
            return None
        names = [st.key]
        cur = st.parent
        if cur.visible(st.key) != hid:
            return None
        while cur is not self.root:
            if cur.parent is None or cur.parent.maps.get(cur.key) is not cur:
                return None
            names.append(cur.key)
            cur = cur.parent
        return list(reversed(names))

    def op_getitem(self, op):
        """Access a handle through root[...] / submap[...] / get()()."""
        _, hid, how = op
        path = self.path_of(hid)
        if path is None:
            return 'skip'
        root = self.root.obj
        if how == 'getitem_root':
            self.access(hid, how, lambda: root[self.S.join(path)])
        elif how == 'getitem_sub':
            if len(path) < 2:
                return 'skip'
            k = 1 + (hid % (len(path) - 1))
            sub = root.get(self.S.join(path[:k]))
            self.access(hid, how, lambda: sub[SPLIT.join(path[k:])])
        elif how == 'chain':
            def thunk():
                cur = root
                for name in path:
                    cur = cur[name]
                return cur
            self.access(hid, 'getitem_chain', thunk)
        else:
            self.access(hid, 'get_call',
                        lambda: root.get(self.S.join(path))())

    def op_loop_switch(self, op):
        _, hid, cc, cn = op
        st = self.h.get(hid)
        if st is None or st.vcode != 'world':
            return 'skip'
        cur = self.loop_cur
        stays = st.loaded and not (cn or (cc and cur == hid))
        if not stays and (st.attempts + 1) in st.fails:
            return 'skip'       # failure path of Loop.switch: unspecified
        if cc and cur is not None:
            self.model_clear(cur)
        if cn:
            self.model_clear(hid)
        c0, was = st.completed, st.loaded
        try:
            with kernel.budget(OP_BUDGET):
                self.loop.switch(st.obj, cc, cn)
        except LoadFail:
            return None
        except Exception as e:
            self.fail('C12', 'access_raised', f'Loop.switch raised '
                      f'{type(e).__name__}: {e}')
        n = st.completed - c0
        if n != (0 if was else 1):
            self.fail('C12', 'loaded_twice', f'Loop.switch(h{hid}, '
                      f'clear_current={cc}, clear_next={cn}) performed {n} '
                      f'loads, expected {0 if was else 1}')
        if not was:
            st.loaded, st.value = True, st.last
        if self.loop.current_world is not st.value:
            self.fail('C12', 'identity', 'loop.current_world is not the '
                      'resource cached by the handle')
        st.paths.add('loop_switch')
        self.probes['path.loop_switch'] += 1
        self.loop_cur = hid

    def model_clear(self, hid):
        st = self.h[hid]
        if st.loaded:
            st.epochs += 1
            if st.epochs >= 2:
                self.flags.add('c12_epochs')
        st.loaded, st.value, st.paths = False, None, set()

    # ---- static snapshots (C17)
    def snap_model(self, mm):
        names = {}
        for layer in reversed(mm.layers):
            for name, hid in layer.items():
                names[name] = ('h', hid)
        for name, sub in mm.maps.items():
            names[name] = ('m', self.snap_model(sub))
        return names

    def k3_shape(self, mm):
        for name in list(mm.maps) + [n for l in mm.layers for n in l]:
            if name.startswith('__') and not name.endswith('__'):
                return True
        return any(self.k3_shape(sub) for sub in mm.maps.values())

    def op_snap(self, op):
        _, sid, mpath = op
        target = self.resolve(mpath)
        if target is None or target.obj is None or sid in self.snaps:
            return 'skip'
        k3 = self.k3_shape(target) and 'K3' in self.tolerate
        try:
            with kernel.budget(OP_BUDGET):
                s = target.obj.get_static_map()
        except SimHang as e:
            self.fail('C17', 'hang', f'get_static_map: {e}')
        except Exception as e:
            if k3 and isinstance(e, AttributeError):
                # known finding K3 (a __x name): no snapshot this time; the
                # snapshots taken after the name is gone are judged as usual
                self.known['K3'] += 1
                self.probes['snapshot_failed_then_tree_repaired'] += 0
                self.k3_failed = True
                return None
            self.fail('C17', 'snapshot_raised', f'get_static_map() raised '
                      f'{type(e).__name__}: {e}')
        if getattr(self, 'k3_failed', False) and not self.k3_shape(target):
            self.probes['snapshot_failed_then_tree_repaired'] += 1
        model = self.snap_model(target)
        self.snaps[sid] = (s, model)
        if target is self.root:
            self.snap_of_root.add(sid)
        depth = self.model_depth(model)
        layered = any(len([l for l in m.layers if l]) >= 2
                      for m in self.walk_maps(target))
        nonid = self.has_nonident(model)
        if layered:
            self.probes['layered_snapshot'] += 1
        if nonid:
            self.probes['non_identifier_name'] += 1
        if depth >= 2 and (layered or nonid):
            self.flags.add('c17_nontrivial')
        self.check_snapshot(sid, mutate=False)

    def walk_maps(self, mm):
        yield mm
        for sub in mm.maps.values():
            yield from self.walk_maps(sub)

    def model_depth(self, model):
        d = 0
        for name, (k, v) in model.items():
            d = max(d, 1 + (self.model_depth(v) if k == 'm' else 0))
        return d

    def has_nonident(self, model):
        return any(not name.isidentifier() or (
            k == 'm' and self.has_nonident(v))
            for name, (k, v) in model.items())

    def op_snap_check(self, op):
        _, sid, mutate = op
        if sid not in self.snaps:
            return 'skip'
        self.check_snapshot(sid, mutate=bool(mutate))
        self.probes['snapshot_then_mutate_map'] += 1

    def check_snapshot(self, sid, mutate):
        s, model = self.snaps[sid]
        self.compare_static(s, model, f's{sid}')
        if mutate:
            self.mutate_static(s, model, f's{sid}')
            self.compare_static(s, model, f's{sid}',
                                kind='changed_after_mutation_attempt')

    def compare_static(self, s, model, where, kind=None):
        SRM = self.desper.StaticResourceMap
        for name, (k, v) in model.items():
            if k == 'h':
                st = self.h[v]
                try:
                    g = s.get(name)
                except Exception as e:
                    self.fail('C17', kind or 'get', f'{where}.get({name!r}) '
                              f'raised {type(e).__name__}: {e}')
                if g is not st.obj:
                    self.fail('C17', kind or 'get', f'{where}.get({name!r})'
                              f' is not the handle h{v} of the map')
                self.access(v, 'static_item', lambda: s[name])
                if name.isidentifier():
                    self.access(v, 'static_attr', lambda: getattr(s, name))
                self.access(v, 'static_get', lambda: s.get(name)())
            else:
                try:
                    sub = s[name]
                    sub2 = s.get(name)
                except Exception as e:
                    self.fail('C17', kind or 'item', f'{where}[{name!r}] '
                              f'raised {type(e).__name__}: {e}')
                if not isinstance(sub, SRM) or sub2 is not sub:
                    self.fail('C17', kind or 'item', f'{where}[{name!r}] is '
                              f'not a static sub-map ({type(sub).__name__})')
                if name.isidentifier() and getattr(s, name) is not sub:
                    self.fail('C17', kind or 'attr', f'{where}.{name} is '
                              f'not {where}[{name!r}]')
                self.compare_static(sub, v, f'{where}[{name!r}]', kind)
        extra_names = []
        if (self.S != SPLIT and where[1:].isdigit()
                and int(where[1:]) in self.snap_of_root):
            # names with a '/' are plain names for this root: 'p/q' is
            # absent from it even when p is a sub-map holding q
            for p, (k, v) in model.items():
                if k == 'm':
                    extra_names += [p + SPLIT + q for q in list(v)[:3]]
                    extra_names.append(p + SPLIT)
            self.probes['slash_names_absent_from_split_root'] += bool(
                extra_names)
        for name in ALPHA17 + extra_names:
            if name in model:
                continue
            try:
                s[name]
                present = True
            except Exception:
                present = False
            if present or hasattr(s, name):
                self.fail('C17', kind or 'absent_present', f'{where} has a '
                          f'name {name!r} that the map does not have')

    def mutate_static(self, s, model, where):
        for name in list(model)[:3] + ['zz_new', 'a']:
            for what in ('set', 'del'):
                try:
                    if what == 'set':
                        setattr(s, name, 1)
                    else:
                        delattr(s, name)
                    ok = False
                except Exception:
                    ok = True
                if not ok:
                    self.fail('C17', 'mutable', f'{what}attr({where}, '
                              f'{name!r}) did not raise')
        self.probes['setattr_rejected'] += 1
        for name, (k, v) in model.items():
            if k == 'm':
                self.mutate_static(s[name], v, f'{where}[{name!r}]')
                self.probes['nested_setattr_rejected'] += 1

    # ---- sweep (C11): structure, back-links, every query path
    def sweep(self):
        for attempt in range(6):
            epoch = self.tree_epoch
            try:
                with kernel.budget(OP_BUDGET * 4):
                    self.compare(self.root.obj, self.root, [])
                    self.queries(self.root, [])
            except (Violation, RuntimeError, KeyError, AttributeError,
                    IndexError):
                if self.tree_epoch != epoch:
                    continue    # a load of this very sweep rearranged the
                                # tree under it (also the model's own dicts,
                                # mid-iteration): judge the new tree afresh
                raise
            except SimHang as e:
                self.fail('C11', 'hang', f'query: {e}')
            if self.tree_epoch == epoch:
                break
        if self.root.obj.parent is not None:
            self.fail('C11', 'backlink', 'the root map has a parent')

    def compare(self, real, mm, path):
        where = SPLIT.join(path) or '<root>'
        if set(real.maps) != set(mm.maps):
            kind = 'stale_subtree' if set(real.maps) - set(mm.maps) else \
                'get_mismatch'
            self.fail('C11', kind, f'{where}: sub-maps {sorted(real.maps)}, '
                      f'expected {sorted(mm.maps)}')
        layers = real.handles.maps
        if len(layers) != len(mm.layers):
            self.fail('C11', 'get_mismatch', f'{where}: {len(layers)} '
                      f'handle layers, expected {len(mm.layers)}')
        for li, (rl, ml) in enumerate(zip(layers, mm.layers)):
            if set(rl) != set(ml):
                kind = 'stale_subtree' if set(rl) - set(ml) else \
                    'get_mismatch'
                if not any(ml for ml in mm.layers) and not mm.maps:
                    kind = 'clear_left_reachable'
                self.fail('C11', kind, f'{where}: handle layer {li} holds '
                          f'{sorted(rl)}, expected {sorted(ml)}')
            for name, hid in ml.items():
                o = rl[name]
                if o is not self.h[hid].obj:
                    self.fail('C11', 'get_mismatch', f'{where}: layer {li} '
                              f'name {name!r} is not handle h{hid}')
                st_ = self.h[hid]
                if st_.aliased and self.cfg.get('alias_c11') and (
                        st_.parent is mm and st_.key == name):
                    # stored under several names: the back-link names the
                    # place of the latest assignment for as long as the
                    # handle stays there
                    self.probes['aliased_handle_backlink_checked'] += 1
                    if o.parent is not real or o.key != name:
                        self.fail('C11', 'backlink', f'handle h{hid} was '
                                  f'last assigned to {where!r} as {name!r} '
                                  f'and is still there, its back-link says '
                                  f'{"this map" if o.parent is real else type(o.parent).__name__}'
                                  f' / {o.key!r}')
                if (o.parent is not real or o.key != name) \
                        and not self.h[hid].aliased:
                    self.fail('C11', 'backlink', f'handle h{hid} stored '
                              f'under {where!r} as {name!r} (layer {li}) has '
                              f'parent {"ok" if o.parent is real else "wrong"}'
                              f', key {o.key!r}')
                if name in real.maps:
                    self.fail('C11', 'both_kinds', f'{where}: {name!r} '
                              f'denotes a handle (layer {li}) and a sub-map')
        for name, sub in mm.maps.items():
            o = real.maps[name]
            if sub.obj is None:
                sub.obj = o             # implicit map: adopt by observation
                if type(o) is not self.desper.ResourceMap:
                    self.fail('C11', 'get_mismatch', f'{where}: the map '
                              f'created implicitly for {name!r} is a '
                              f'{type(o).__name__}, not a plain ResourceMap')
            if o is not sub.obj:
                self.fail('C11', 'get_mismatch', f'{where}: sub-map '
                          f'{name!r} is not the object that was assigned')
            if (o.parent is not real or o.key != name) \
                    and not getattr(sub, 'detoured', False):
                imp = getattr(sub, 'implicit', False)
                self.fail('C11', 'backlink', f'{"implicit " if imp else ""}'
                          f'map stored under {where!r} as {name!r} has parent'
                          f' {"ok" if o.parent is real else repr(o.parent)}, '
                          f'key {o.key!r}')
            self.compare(o, sub, path + [name])

    def queries(self, mm, path):
        root = self.root.obj
        names = list(dict.fromkeys(list(mm.maps) + [
            n for l in mm.layers for n in l] + ALPHA))
        for name in names:
            key = self.S.join(path + [name])
            hid = mm.visible(name)
            sub = mm.maps.get(name)
            sentinel = object()
            g = root.get(key, sentinel)
            if path and mm.obj is not None:
                # a default that happens to be a map lying on the way is a
                # default like any other
                g2 = root.get(key, mm.obj)
                if g2 is not (mm.obj if g is sentinel else g):
                    self.fail('C11', 'default_vs_keyerror',
                              f'get({key!r}, <the map at '
                              f'{SPLIT.join(path)!r}>) does not agree with '
                              f'get({key!r}, <fresh object>)')
                self.probes['default_is_a_map_on_the_way'] += 1
            if hid is not None:
                st = self.h[hid]
                if g is not st.obj:
                    self.fail('C11', 'get_mismatch', f'get({key!r}) is not '
                              f'the latest handle h{hid} assigned there')
                if self.prop != 'C12' or st.loaded:
                    self.access(hid, 'getitem_root', lambda: root[key])
                for extra in ('a', ''):
                    k2 = key + self.S + extra
                    if root.get(k2, sentinel) is not sentinel:
                        self.fail('C11', 'default_vs_keyerror',
                                  f'get({k2!r}) below a handle returned '
                                  f'something')
                    self.expect_keyerror(root, k2)
            elif sub is not None:
                if g is not sub.obj:
                    self.fail('C11', 'get_mismatch', f'get({key!r}) is not '
                              f'the map assigned there')
                try:
                    item = root[key]
                except Exception as e:
                    self.fail('C11', 'paths_disagree', f'[{key!r}] raised '
                              f'{type(e).__name__}: {e}, get({key!r}) '
                              f'returns the map stored there')
                if item is not sub.obj:
                    self.fail('C11', 'paths_disagree', f'[{key!r}] is not '
                              f'get({key!r})')
            else:
                if g is not sentinel:
                    self.fail('C11', 'default_vs_keyerror' if g is None
                              else 'stale_subtree',
                              f'get({key!r}, default) returned '
                              f'{type(g).__name__}, nothing is stored there')
                self.expect_keyerror(root, key)
        for name, sub in list(mm.maps.items()):
            if len(path) < 5:
                self.queries(sub, path + [name])

    def expect_keyerror(self, root, key):
        try:
            root[key]
        except KeyError:
            return
        except Exception as e:
            self.fail('C11', 'default_vs_keyerror', f'[{key!r}] raised '
                      f'{type(e).__name__} instead of KeyError')
        self.fail('C11', 'default_vs_keyerror', f'[{key!r}] returned a '
                  f'value while get() returns the default')

    def nontrivial(self):
        return {'C11': 'c11_nontrivial' in self.flags,
                'C12': bool({'c12_paths', 'c12_epochs'} & self.flags),
                'C17': 'c17_nontrivial' in self.flags}.get(self.prop, False)


def execute(scenario, prop, tolerate=frozenset()):
    it = Interp(scenario, prop, tolerate)
    violation = None
    idx = -1
    s0 = kernel.StepBudget.total
    try:
        for idx, op in enumerate(scenario['ops']):
            it.exec_op(op)
    except Violation as v:
        violation = v.to_json()
        violation['op'] = idx
    finally:
        it.closed = True
        if it.scratch is not None:
            import os
            import shutil
            shutil.rmtree(it.scratch, ignore_errors=True)
            try:
                os.rmdir(os.path.dirname(it.scratch))
            except OSError:
                pass
    it.stats['steps'] = kernel.StepBudget.total - s0
    return {'violation': violation, 'digest': it.trace.digest(),
            'nontrivial': it.nontrivial(), 'probes': dict(it.probes),
            'faults': dict(it.faults), 'known': dict(it.known),
            'stats': dict(it.stats), 'trace_tail': it.trace.tail(30)}


# --------------------------------------------------------------------------
# generation

WEIGHTS = {
    'C11': dict(set=6, clear=1, layer=1.2, call=.4, getitem=.5,
                clear_handle=.3, snap=.2, snap_check=.1),
    'C12': dict(set=3, clear=.3, layer=.3, call=2, getitem=3.5,
                clear_handle=1.6, loop_switch=.8, snap=.7, snap_check=1.2,
                touch=.5),
    'C17': dict(set=4.5, clear=.5, layer=1, call=.5, getitem=.3,
                clear_handle=.5, snap=2, snap_check=2, detour=.25,
                unlayer=.5),
}


class GenState:
    def __init__(self, prop, rng, alphabet, tolerate):
        self.prop, self.rng, self.alpha = prop, rng, alphabet
        self.next_id = 0
        self.hids = []
        self.worlds = []
        self.mpaths = [[]]
        self.snaps = 0
        self.pending_clearer = None
        self.fileworlds = []
        self.all_ids = []
        self.alias_c11 = False

    def new_id(self):
        self.next_id += 1
        return self.next_id

    def handle_spec(self):
        rng = self.rng
        hid = self.new_id()
        if self.prop == 'C12':
            val = rng.choice(VCODES + ['inner', 'selfh', 'fileworld']) \
                if rng.random() < .8 else 'obj'
            fails = [rng.choice([1, 2])] if rng.random() < .15 else []
        else:
            val = rng.choice(['obj', 'obj', 'none', 'zero', 'list'])
            fails = []
        spec = {'kind': 'handle', 'id': hid, 'val': val, 'fails': fails}
        if self.pending_clearer is not None:
            # second half of a pair: this handle's load reaches the clearer,
            # whose load clears this very handle
            b = self.pending_clearer
            self.pending_clearer = None
            b['target'] = hid
            spec['val'] = val = 'via'
            spec['via'] = b['id']
            spec['fails'] = []
        elif self.prop == 'C12' and rng.random() < .08:
            spec['val'] = val = 'clearer'
            spec['fails'] = []
            self.pending_clearer = spec
        elif self.prop == 'C12' and self.hids and rng.random() < .12:
            spec['val'] = val = 'via'
            spec['via'] = rng.choice(self.hids)
        self.hids.append(hid)
        if val == 'fileworld':
            spec['fails'] = []
            self.fileworlds.append(hid)
        if val == 'world':
            self.worlds.append(hid)
        elif val not in ('via', 'clearer', 'inner', 'selfh', 'fileworld',
                         'weakobj') and rng.random() < .1:
            spec['wrap'] = True
        if val != 'fileworld' and rng.random() < .04:
            spec['duck'] = True
        return spec

    def map_spec(self, depth, prefix):
        rng = self.rng
        spec = {'kind': 'map', 'id': f'm{self.new_id()}', 'children': []}
        if rng.random() < getattr(self, 'sub_p', .15):
            spec['sub'] = True          # an instance of a map subclass
        r = rng.random()
        n = 0 if r < .35 else rng.randint(1, 3)
        used = []
        for _ in range(n):
            name = rng.choice(self.alpha)
            spec['children'].append([name, self.valspec(depth + 1,
                                                        prefix + [name])])
            used.append(name)
        if used and rng.random() < .4:
            spec['children'].append('LAYER')
            for name in used[:rng.randint(1, 2)]:
                spec['children'].append([name, self.handle_spec()])
            if rng.random() < .3:
                spec['children'].append('LAYER')
                spec['children'].append([used[0], self.handle_spec()])
        return spec

    def valspec(self, depth, prefix):
        if depth == 0 and self.all_ids and self.rng.random() < .1:
            return {'kind': 'reuse', 'ref': self.rng.choice(self.all_ids)}
        if self.hids and self.rng.random() < (
                .08 if self.prop == 'C12' else .1 if self.alias_c11 else 0):
            return {'kind': 'alias', 'ref': self.rng.choice(self.hids)}
        if self.rng.random() < .62 or depth >= 2:
            spec = self.handle_spec()
            self.all_ids.append(spec['id'])
            return spec
        self.mpaths.append(list(prefix))
        spec = self.map_spec(depth, prefix)
        self.all_ids.append(spec['id'])
        return spec

    def key(self):
        rng = self.rng
        d = rng.choices([1, 2, 3, 4], [5, 3, 1.5, .7])[0]
        return [rng.choice(self.alpha) for _ in range(d)]


def generate(prop, run_seed, tier='quick', tolerate=frozenset()):
    crng = kernel.stream(run_seed, 'cfg')
    rng = kernel.stream(run_seed, 'gen')
    alpha = list(ALPHA17 if prop == 'C17' else ALPHA)
    if prop == 'C17' and crng.random() < .07:
        alpha.append('__x')      # known finding K3 while it stays in the map
    k = crng.randint(3, len(alpha))
    alpha = crng.sample(alpha, k)
    gs = GenState(prop, rng, alpha, tolerate)
    gs.alias_c11 = prop == 'C11' and crng.random() < .15
    meq = crng.random() < (.5 if gs.alias_c11 else .04)
    if meq:
        gs.sub_p = .7
    w = dict(WEIGHTS[prop])
    for name in list(w):
        if name != 'set' and crng.random() < .25:
            w[name] = 0
    if gs.alias_c11:
        w['clear'] = 2.5
    kinds = [x for x, v in w.items() if v > 0]
    wts = [w[x] for x in kinds]
    deep = tier == 'thorough'
    n = min(150 if deep else 60,
            3 + int(crng.expovariate(1 / (24 if deep and crng.random() < .5
                                          else 12))))
    ops = []
    hows = ['getitem_root', 'getitem_sub', 'chain', 'get_call']
    while len(ops) < n:
        kind = rng.choices(kinds, wts)[0] if ops else 'set'
        mpath = rng.choice(gs.mpaths)
        if kind == 'set':
            keyparts = gs.key()
            full = list(mpath) + keyparts
            for i in range(1, len(keyparts)):
                gs.mpaths.append(list(mpath) + keyparts[:i])
            vs = gs.valspec(0, full)
            if (prop == 'C11' and vs.get('kind') == 'handle'
                    and vs.get('val') == 'obj' and len(full) >= 2
                    and not vs.get('wrap') and rng.random() < .08):
                j = rng.randrange(len(full) - 1)
                vs['val'] = 'setter'
                vs['set'] = [SPLIT.join(full[:j + 1]), {
                    'kind': 'map', 'id': f'm{gs.new_id()}', 'children': [
                        [SPLIT.join(full[j + 1:]), gs.handle_spec()]]}]
            ops.append(['set', mpath, SPLIT.join(keyparts), vs])
        elif kind in ('clear', 'layer'):
            ops.append([kind, mpath])
        elif kind in ('call', 'clear_handle') and gs.hids:
            ops.append([kind, rng.choice(gs.hids)])
        elif kind == 'getitem' and gs.hids:
            ops.append(['getitem', rng.choice(gs.hids), rng.choice(hows)])
        elif kind == 'loop_switch' and gs.worlds:
            ops.append(['loop_switch', rng.choice(gs.worlds),
                        rng.random() < .4, rng.random() < .4])
        elif kind == 'touch' and gs.fileworlds:
            ops.append(['touch', rng.choice(gs.fileworlds)])
        elif kind == 'detour' and mpath:
            ops.append(['detour', mpath])
        elif kind == 'unlayer':
            ops.append(['unlayer', mpath, rng.choice(['pop', 'parents'])])
        elif kind == 'snap':
            gs.snaps += 1
            ops.append(['snap', gs.snaps, mpath if rng.random() < .5 else []])
        elif kind == 'snap_check' and gs.snaps:
            ops.append(['snap_check', rng.randint(1, gs.snaps),
                        rng.random() < .5])
    if prop == 'C11' and crng.random() < .02:
        ops.insert(crng.randint(0, len(ops)),
                   ['deep', crng.choice([200, 950, 1200, 3000])])
    heq = crng.choice([None, None, None, None, 'equal', 'unhashable']) \
        if prop == 'C11' else crng.choice([None] * 6 + ['equal'])
    return {'format': 1, 'engine': 'restree',
            'config': {'alphabet': alpha, 'heq': heq,
                       'alias_c11': gs.alias_c11, 'meq': meq,
                       'root_sub': crng.random() < .15,
                       'root_split': (crng.choice(['|', ':', '>'])
                                      if crng.random() < .07 else None)},
            'ops': ops, 'scripts': {}}


def simplify(sc):
    for k, op in enumerate(sc['ops']):
        if op[0] == 'set':
            spec = op[3]
            if spec['kind'] == 'map' and spec.get('children'):
                for j in range(len(spec['children'])):
                    c = copy.deepcopy(sc)
                    del c['ops'][k][3]['children'][j]
                    yield c
            if spec['kind'] == 'handle' and spec.get('val') != 'obj':
                c = copy.deepcopy(sc)
                c['ops'][k][3]['val'] = 'obj'
                yield c
            if SPLIT in op[2]:
                c = copy.deepcopy(sc)
                c['ops'][k][2] = op[2].split(SPLIT, 1)[1]
                yield c


_COMPONENTS = {
    'real': ['desper.model.tree.ResourceMap (get, [], []=, clear, '
             'get_static_map)', 'desper.model.tree.Handle (__call__, clear, '
             'cached)', 'StaticResourceMap', 'desper.loop.Loop.switch / '
             'SimpleLoop.switch (C12 access path)'],
    'stub': ['Handle.load bodies (counting handles; a load scripted to '
             'raise is the injected I/O fault)'],
}
_ASSUME = [
    'TreeModel (sim/engines/restree.py) is hand-written from the statements',
    'every value object is inserted at most once (aliasing one object at '
    'two places makes "the map containing it" ill-defined)',
    'trees are small: depth <= 4, alphabet of <= 10 names',
    'no schedule/fault dimension beyond the operation history and failing '
    'loads (C17: none at all; claimed as the weakest level)',
]
INFO = {
    'C11': {'rule': 'histories of __setitem__ (plain and composite keys, on '
            'the root or any reachable sub-map; handles, empty/pre-populated/'
            'layered maps), clear, layer; after every op the whole real tree '
            '(all handle layers) is compared with the model, back-links are '
            'walked, and every path over the alphabet is queried through get '
            'and []; non-trivial = an implicit intermediate map was created, '
            'a name changed kind, or a map with >=2 non-empty handle layers '
            'was cleared; distinct = distinct trace digests',
            'components': _COMPONENTS, 'assumptions': _ASSUME},
    'C12': {'rule': 'counting handles with 13 kinds of loaded values (None, '
            '0, empty containers, unusual __bool__/__eq__) reached through '
            'call, root[], submap[], chained [], get()(), static item/attr/'
            'get, Loop.switch, interleaved with clear(); loads scripted to '
            'raise on their n-th call; non-trivial = one handle accessed '
            'through >=3 paths in one epoch with a falsy value, or >=2 '
            'epochs; distinct = distinct trace digests',
            'components': _COMPONENTS, 'assumptions': _ASSUME},
    'C17': {'rule': 'snapshots taken at random points of C11-style histories '
            '(names: identifiers, keywords, non-identifiers, empty string) '
            'and re-compared after further mutations of the map; setattr/'
            'delattr attempted on every level; non-trivial = snapshot of a '
            'tree of depth >=2 with a non-identifier name or a layered '
            'handle; distinct = distinct trace digests',
            'components': _COMPONENTS, 'assumptions': _ASSUME},
}
for _v in INFO.values():
    _v['rule'] += (
        '; swarm dimensions (see probes): layered maps, displaced objects re-inserted, handles that compare equal or are unhashable, handle-valued / self-valued resources, loads that reach or clear other handles, handles overriding __call__, values only the handle keeps alive, Ellipsis / NotImplemented values, world-file handles whose file is rewritten, handles under two names (C12), map subclasses needing constructor arguments, keys of 1200+ components, dunder-like and normalisation-sensitive names, snapshots attempted on K3-shaped trees, closed streams as resources, handles with map-like attributes, a root with its own split_char, defaults that are maps on the path, sub-maps borrowed by another map, handles under several names next to map classes with value equality (C11), program finalizers on resources only the handle keeps, handle layers taken off again, loads that replace a map on the way to their own handle, NUL in names')
PROBES = {
    'C11': ['implicit_intermediate_created', 'handle_replaced_by_map',
            'map_replaced_by_handle', 'layered_name_reassigned',
            'clear_layered', 'assign_into_submap', 'empty_key_component',
            'displaced_object_reinserted', 'map_subclass_instance',
            'very_deep_key'],
    'C12': ['falsy_value_reaccessed', 'path.call', 'path.getitem_root',
            'path.getitem_sub', 'path.getitem_chain', 'path.get_call',
            'path.static_attr', 'path.static_item', 'path.static_get',
            'path.loop_switch', 'path.nested_load', 'nested_load',
            'clear_from_inside_a_load', 'handle_valued_resource',
            'eq_raises_value', 'load_failed',
            'load_failed_then_retry', 'clear_between_accesses',
            'handle_overriding_call', 'handle_under_two_names',
            'world_file_handle', 'world_file_rewritten'],
    'C17': ['non_identifier_name', 'layered_snapshot',
            'nested_setattr_rejected', 'setattr_rejected',
            'snapshot_then_mutate_map', 'handle_overriding_call',
            'snapshot_failed_then_tree_repaired'],
}

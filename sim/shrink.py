"""Delta debugging over scenarios.

A scenario is JSON: {'ops': [...], 'scripts': {key: [...]}, 'config': {...}}.
`fails(scenario) -> bool` re-executes and tells whether the *same kind* of
violation is still produced.  Bounded by `max_exec` re-executions.
"""
import copy


class _Budget:
    def __init__(self, n):
        self.left = n


def _ddmin_list(items, rebuild, fails, budget):
    """Classic ddmin on a list; `rebuild(sub)` gives the candidate scenario."""
    n = 2
    while len(items) >= 1 and budget.left > 0:
        chunk = max(1, len(items) // n)
        reduced = False
        start = 0
        while start < len(items) and budget.left > 0:
            cand = items[:start] + items[start + chunk:]
            budget.left -= 1
            if fails(rebuild(cand)):
                items = cand
                n = max(n - 1, 2)
                reduced = True
            else:
                start += chunk
        if not reduced:
            if chunk == 1:
                break
            n = min(len(items), n * 2)
    return items


def shrink(scenario, fails, simplify=None, max_exec=400):
    """Return a smaller scenario that still fails the same way."""
    budget = _Budget(max_exec)
    best = copy.deepcopy(scenario)

    def with_ops(ops):
        c = copy.deepcopy(best)
        c['ops'] = ops
        return c

    for _round in range(3):
        before = _size(best)
        best['ops'] = _ddmin_list(list(best.get('ops', [])), with_ops, fails,
                                  budget)
        # scripts: drop whole keys, then entries
        for key in sorted(best.get('scripts', {})):
            if budget.left <= 0:
                break
            c = copy.deepcopy(best)
            del c['scripts'][key]
            budget.left -= 1
            if fails(c):
                best = c
                continue

            def with_script(entries, key=key):
                c = copy.deepcopy(best)
                c['scripts'][key] = entries
                return c
            best['scripts'][key] = _ddmin_list(
                list(best['scripts'][key]), with_script, fails, budget)
        # engine-specific simplifications (each yields candidate scenarios)
        if simplify is not None:
            progress = True
            while progress and budget.left > 0:
                progress = False
                for cand in simplify(best):
                    if budget.left <= 0:
                        break
                    budget.left -= 1
                    if _size(cand) <= _size(best) and fails(cand):
                        if cand != best:
                            best = cand
                            progress = True
                            break
        if _size(best) >= before or budget.left <= 0:
            break
    return best


def _size(s):
    n = len(s.get('ops', []))
    for v in s.get('scripts', {}).values():
        n += 1 + len(v)
    return n

"""Process pool, budgets, known findings, replay verification, evidence.

Exit codes: 0 held (possibly KNOWN-FINDING lines); 1 VIOLATION; 2 harness
defect / nondeterminism; 3 timeout.  Only 0 and 1 are verdicts.
"""
import collections
import copy
import faulthandler
import gc
import importlib
import json
import multiprocessing
import os
import subprocess
import sys
import time
import traceback
from concurrent.futures import ProcessPoolExecutor, wait, FIRST_COMPLETED

from . import kernel, shrink as shrinker

VERIF = os.path.dirname(os.path.dirname(os.path.abspath(__file__)))

ENGINE_OF = {
    'C01': 'world', 'C02': 'world', 'C05': 'world', 'C06': 'world',
    'C07': 'world', 'C19': 'twin',
    'C03': 'dispatch', 'C04': 'dispatch', 'C10': 'dispatch', 'C20': 'transform',
    'C08': 'coro', 'C09': 'coro',
    'C11': 'restree', 'C12': 'restree', 'C16': 'popul', 'C17': 'restree',
    'C13': 'loop', 'C14': 'loop', 'C15': 'worldfile',
}
LEVEL = collections.defaultdict(lambda: 'exploration',
                                C04='fault_enumeration',
                                C10='fault_enumeration',
                                C14='fault_enumeration')


def engine_for(prop):
    return importlib.import_module('sim.engines.' + ENGINE_OF[prop])


def load_known():
    path = os.path.join(VERIF, 'known_findings.json')
    if not os.path.exists(path):
        return []
    with open(path) as f:
        return json.load(f)


def open_ids(known, prop=None):
    return sorted(k['id'] for k in known if k.get('status') == 'open'
                  and (prop is None or k['property'] == prop))


# --------------------------------------------------------------------------
# one run

def run_one(engine, scenario, prop, tolerate):
    """Execute a scenario; returns the engine's result dict.

    result: {'violation': None | {'props','kind','detail','op'}, 'digest',
             'nontrivial': bool, 'probes': {}, 'faults': {}, 'known': {},
             'stats': {}}
    Harness exceptions propagate (they are not verdicts).
    """
    return engine.execute(scenario, prop=prop, tolerate=frozenset(tolerate))


def violates(res, prop):
    v = res.get('violation')
    return v is not None and prop in v['props']


def _worker_chunk(args):
    (prop, verif_seed, indices, tolerate, tier, want_samples) = args
    faulthandler.dump_traceback_later(600, exit=True)
    engine = engine_for(prop)
    agg = new_agg()
    found = None
    t0 = time.time()
    for i in indices:
        rs = kernel.run_seed_for(verif_seed, prop, i)
        try:
            scenarios = engine.generate(prop, rs, tier=tier,
                                        tolerate=frozenset(tolerate))
        except Exception:
            return {'harness_error': 'generate: ' + traceback.format_exc(),
                    'agg': agg}
        if isinstance(scenarios, dict):
            scenarios = [scenarios]
        for sc in scenarios:
            sc.setdefault('property', prop)
            sc.setdefault('run_index', i)
            sc.setdefault('verif_seed', verif_seed)
            sc.setdefault('run_seed', rs)
            try:
                res = run_one(engine, sc, prop, tolerate)
            except Exception:
                return {'harness_error': 'execute: ' + traceback.format_exc()
                        + '\nscenario: ' + json.dumps(sc)[:4000], 'agg': agg}
            absorb(agg, res, sc, want_samples)
            # in-run determinism spot check (2 %)
            if kernel.h64('recheck', rs) % 50 == 0:
                res2 = run_one(engine, copy.deepcopy(sc), prop, tolerate)
                agg['rechecked'] += 1
                if res2['digest'] != res['digest']:
                    return {'nondeterminism': sc, 'agg': agg}
            if violates(res, prop):
                found = minimise(engine, sc, res, prop, tolerate)
                break
            elif res.get('violation') is not None:
                agg['foreign_abort'] += 1
                if os.environ.get('VERIF_DEBUG_FOREIGN'):
                    print('FOREIGN', json.dumps(res['violation']),
                          json.dumps({k: sc[k] for k in ('ops', 'scripts')}),
                          flush=True)
        if found:
            break
        if i % 64 == 63:
            gc.collect()
    gc.collect()
    agg['wall'] = time.time() - t0
    faulthandler.cancel_dump_traceback_later()
    return {'agg': agg, 'found': found}


def minimise(engine, sc, res, prop, tolerate):
    kind = res['violation']['kind']

    def fails(cand):
        try:
            r = run_one(engine, copy.deepcopy(cand), prop, tolerate)
        except Exception:
            return False
        return violates(r, prop) and r['violation']['kind'] == kind

    small = shrinker.shrink(sc, fails, getattr(engine, 'simplify', None))
    r = run_one(engine, copy.deepcopy(small), prop, tolerate)
    if not (violates(r, prop) and r['violation']['kind'] == kind):
        small, r = sc, res
    small = copy.deepcopy(small)
    small['tolerate'] = sorted(tolerate)
    small['expect'] = {'property': prop, 'kind': r['violation']['kind'],
                       'digest': r['digest'],
                       'detail': r['violation']['detail'],
                       'op': r['violation'].get('op')}
    small['trace_tail'] = r.get('trace_tail', [])
    return small


def new_agg():
    return {'runs': 0, 'nontrivial': 0, 'digests': set(), 'probes':
            collections.Counter(), 'faults': collections.Counter(),
            'known': collections.Counter(), 'foreign_abort': 0,
            'skipped_ops': 0, 'ops': 0, 'sim_time': 0.0, 'policies':
            collections.Counter(), 'samples': {}, 'rechecked': 0,
            'faulty_runs': 0, 'faultfree_runs': 0, 'wall': 0.0,
            'steps': 0}


def absorb(agg, res, sc, want_samples):
    agg['runs'] += 1
    st = res.get('stats', {})
    agg['ops'] += st.get('ops', 0)
    agg['skipped_ops'] += st.get('skipped', 0)
    agg['sim_time'] += float(st.get('sim_time', 0))
    agg['steps'] += st.get('steps', 0)
    agg['policies'][sc.get('config', {}).get('policy', '-')] += 1
    agg['probes'].update(res.get('probes', {}))
    agg['faults'].update(res.get('faults', {}))
    agg['known'].update(res.get('known', {}))
    nfaults = sum(res.get('faults', {}).values())
    if nfaults:
        agg['faulty_runs'] += 1
    else:
        agg['faultfree_runs'] += 1
    if res.get('nontrivial'):
        agg['nontrivial'] += 1
        agg['digests'].add(res['digest'])
    if want_samples:
        def size(s):
            return shrinker._size(s)
        slim = {k: sc[k] for k in ('config', 'ops', 'scripts', 'run_seed')
                if k in sc}
        cur = agg['samples']
        if nfaults == 0 and res.get('nontrivial') and 'fault_free' not in cur:
            cur['fault_free'] = slim
        if nfaults and res.get('nontrivial') and 'faulty' not in cur:
            cur['faulty'] = slim
        if res.get('nontrivial') and (
                'longest' not in cur or size(sc) > size(cur['longest'])):
            cur['longest'] = slim


def merge(a, b):
    for k in ('runs', 'nontrivial', 'foreign_abort', 'skipped_ops', 'ops',
              'sim_time', 'rechecked', 'faulty_runs', 'faultfree_runs',
              'steps'):
        a[k] += b[k]
    a['wall'] = a.get('wall', 0) + b.get('wall', 0)
    a['digests'] |= b['digests']
    for k in ('probes', 'faults', 'known', 'policies'):
        a[k].update(b[k])
    for k, v in b['samples'].items():
        if k not in a['samples'] or (
                k == 'longest' and shrinker._size(v)
                > shrinker._size(a['samples'][k])):
            a['samples'][k] = v


# --------------------------------------------------------------------------
# replay

def write_replay(scenario, name):
    d = os.environ.get('VERIF_REPLAY_DIR') or os.path.join(VERIF, 'replays')
    os.makedirs(d, exist_ok=True)
    path = os.path.join(d, name)
    with open(path, 'w') as f:
        json.dump(scenario, f, indent=1, sort_keys=True)
    return path


def replay_file(path, quiet=False):
    """Re-execute a replay file in this interpreter. Returns exit code."""
    with open(path) as f:
        sc = json.load(f)
    prop = sc.get('expect', {}).get('property', sc.get('property'))
    engine = engine_for(prop)
    res = run_one(engine, sc, prop, sc.get('tolerate', []))
    exp = sc.get('expect')
    v = res.get('violation')
    out = {'property': prop, 'violation': v, 'digest': res['digest'],
           'expected': exp}
    if not quiet:
        print(json.dumps(out, indent=1))
    if v is not None and prop in v['props']:
        if exp and (v['kind'] != exp['kind'] or res['digest'] != exp['digest']):
            if not quiet:
                print('REPLAY-DIFFERS: violation reproduced but kind/digest '
                      'differ from the recorded ones')
            return 4
        if not quiet:
            print(f'VIOLATION property={prop} replay={path}')
        return 1
    return 0


def replay_fresh(path):
    """Replay in a fresh interpreter; returns its exit code."""
    env = dict(os.environ, PYTHONHASHSEED='0')
    p = subprocess.run([sys.executable, os.path.join(VERIF, 'run.py'),
                        '--replay', path, '--quiet'], env=env,
                       capture_output=True, text=True, timeout=120)
    return p.returncode, p.stdout + p.stderr


# --------------------------------------------------------------------------
# known findings / regressions executed first

def run_canonical(prop, known, out):
    """Returns (exit_code, lines). Open findings must still reproduce (else a
    note); fixed findings' regression scenarios must hold (else VIOLATION)."""
    code = 0
    for k in known:
        if k['property'] != prop:
            continue
        paths = k.get('scenarios', [])
        reproduced = []
        for rel in paths:
            path = os.path.join(VERIF, rel)
            with open(path) as f:
                sc = json.load(f)
            engine = engine_for(prop)
            tol = [t for t in open_ids(known) if t != k['id']]
            sc2 = copy.deepcopy(sc)
            sc2['tolerate'] = tol
            res = run_one(engine, sc2, prop, tol)
            bad = violates(res, prop)
            if k['status'] == 'open':
                if bad:
                    reproduced.append(f'{res["violation"]["kind"]}: {rel}')
                else:
                    out.append(f'NOTE: known finding {k["id"]} no longer '
                               f'reproduces with {rel}')
            else:
                if bad:
                    sc2['expect'] = {'property': prop,
                                     'kind': res['violation']['kind'],
                                     'digest': res['digest'],
                                     'detail': res['violation']['detail']}
                    p = write_replay(sc2, f'{prop}-regression-{k["id"]}.json')
                    out.append(f'REGRESSION of fixed finding {k["id"]}: '
                               f'{res["violation"]}')
                    out.append(f'VIOLATION property={prop} replay={p}')
                    code = 1
        if reproduced:
            out.append(f'KNOWN-FINDING: property={prop} {k["id"]} '
                       f'{k["text"]} [{"; ".join(reproduced)}]')
    return code


# --------------------------------------------------------------------------
# main check

def check(prop, tier, verif_seed, budget_s=None, jobs=None, max_runs=None,
          write_evidence=True):
    t0 = time.time()
    known = load_known()
    tolerate = open_ids(known)
    engine = engine_for(prop)
    lines = []
    code = run_canonical(prop, known, lines)
    for ln in lines:
        print(ln, flush=True)
    if budget_s is None:
        budget_s = float(os.environ.get(
            'VERIF_BUDGET_S', 20 if tier == 'quick' else 480))
    if max_runs is None:
        max_runs = int(os.environ.get(
            'VERIF_MAX_RUNS', 200000 if tier == 'quick' else 20000000))
    if jobs is None:
        jobs = int(os.environ.get('VERIF_JOBS',
                                  min(16, os.cpu_count() or 1)))
    chunk = int(os.environ.get('VERIF_CHUNK', 40))
    agg = new_agg()
    found = None
    harness = None
    next_index = 0
    deadline = t0 + budget_s
    ctx = multiprocessing.get_context('fork')
    with ProcessPoolExecutor(max_workers=jobs, mp_context=ctx) as ex:
        pending = set()

        def submit():
            nonlocal next_index
            idx = list(range(next_index, min(next_index + chunk, max_runs)))
            if not idx:
                return False
            next_index += len(idx)
            pending.add(ex.submit(_worker_chunk, (
                prop, verif_seed, idx, tolerate, tier,
                next_index <= chunk * jobs)))
            return True

        for _ in range(jobs * 2):
            if not submit():
                break
        while pending:
            done, _ = wait(pending, timeout=max(1.0, budget_s + 600),
                           return_when=FIRST_COMPLETED)
            if not done:
                harness = 'HARNESS-TIMEOUT'
                break
            for fut in done:
                pending.discard(fut)
                try:
                    r = fut.result()
                except Exception as e:
                    harness = f'worker died: {e!r}'
                    continue
                merge(agg, r['agg'])
                if r.get('harness_error'):
                    harness = r['harness_error']
                if r.get('nondeterminism'):
                    harness = ('HARNESS-NONDETERMINISM: same scenario, two '
                               'digests: ' + json.dumps(
                                   r['nondeterminism'])[:2000])
                if r.get('found') and found is None:
                    found = r['found']
            if found or harness:
                for fut in pending:
                    fut.cancel()
                break
            while (len(pending) < jobs * 2 and time.time() < deadline
                   and submit()):
                pass
        if found or harness:
            ex.shutdown(wait=True, cancel_futures=True)
    wall = time.time() - t0
    violations = 0
    if found is not None:
        violations = 1
        name = f'{prop}-{found["run_seed"]}.json'
        path = write_replay(found, name)
        rc, outp = replay_fresh(path)
        if rc == 1:
            print(f'violation: {json.dumps(found["expect"])}')
            print(f'VIOLATION property={prop} replay={path}', flush=True)
            code = 1
        else:
            print(f'HARNESS-NONDETERMINISM: replay of {path} in a fresh '
                  f'interpreter gave exit {rc}\n{outp[-1500:]}')
            code = 2
    if harness:
        print('HARNESS-ERROR:', harness, flush=True)
        code = 3 if 'TIMEOUT' in harness else 2
    # known-finding hits seen during the search
    for kid, n in sorted(agg['known'].items()):
        k = next((k for k in known if k['id'] == kid), None)
        if k and k['property'] == prop and not any(
                kid in ln for ln in lines if ln.startswith('KNOWN')):
            print(f'KNOWN-FINDING: property={prop} {kid} {k["text"]} '
                  f'[met {n} times during the search]')
    if write_evidence and not os.environ.get('VERIF_NO_EVIDENCE'):
        write_evidence_file(engine, prop, tier, verif_seed, agg, wall,
                            violations, known)
    rate = agg['runs'] / max(wall, 1e-9)
    print(f'{prop} {tier}: runs={agg["runs"]} nontrivial={agg["nontrivial"]} '
          f'distinct={len(agg["digests"])} foreign_abort='
          f'{agg["foreign_abort"]} faults={sum(agg["faults"].values())} '
          f'wall={wall:.1f}s ({rate * 3600:.0f} runs/h) exit={code}',
          flush=True)
    zero = [p for p in getattr(engine, 'PROBES', {}).get(prop, [])
            if not agg['probes'].get(p)]
    if zero:
        print(f'WARNING probes never hit: {zero}')
    return code


def write_evidence_file(engine, prop, tier, seed, agg, wall, violations,
                        known):
    info = getattr(engine, 'INFO', {}).get(prop, {})
    probes_all = getattr(engine, 'PROBES', {}).get(prop, [])
    cov = {
        'evaluations': agg['runs'],
        'distinct_nontrivial': len(agg['digests']),
        'rule': info.get('rule', ''),
        'samples': [agg['samples'][k] for k in
                    ('fault_free', 'faulty', 'longest')
                    if k in agg['samples']],
        'nontrivial_runs': agg['nontrivial'],
        'runs_per_hour': int(agg['runs'] / max(wall, 1e-9) * 3600),
        'sim_time_covered': agg['sim_time'],
        'ops_executed': agg['ops'],
        'skipped_ops': agg['skipped_ops'],
        'desper_lines_executed_under_budget': agg['steps'],
        'faults_fired': dict(sorted(agg['faults'].items())),
        'faulty_runs': agg['faulty_runs'],
        'fault_free_runs': agg['faultfree_runs'],
        'probes': {p: agg['probes'].get(p, 0) for p in
                   sorted(set(probes_all) | set(agg['probes']))},
        'probes_zero': [p for p in probes_all if not agg['probes'].get(p)],
        'foreign_abort': agg['foreign_abort'],
        'policies': dict(sorted(agg['policies'].items())),
        'determinism_rechecks': agg['rechecked'],
        'known_findings_met': dict(sorted(agg['known'].items())),
        'known_findings_open': open_ids(known, prop),
        'components': info.get('components', {}),
        'exhaustive': False,
    }
    ev = {'property_id': prop, 'tier': tier, 'seed': seed,
          'level': LEVEL[prop], 'coverage': cov,
          'assumptions': info.get('assumptions', []),
          'wall_s': round(wall, 2), 'violations': violations}
    d = os.path.join(VERIF, 'evidence')
    os.makedirs(d, exist_ok=True)
    with open(os.path.join(d, f'{prop}.json'), 'w') as f:
        json.dump(ev, f, indent=1, sort_keys=True, default=str)

"""Process pool, budgets, known findings, replay verification, evidence.

Exit codes: 0 held (possibly KNOWN-FINDING lines); 1 VIOLATION; 2 harness
defect / nondeterminism; 3 timeout.  Only 0 and 1 are verdicts.
"""
import collections
import copy
import faulthandler
import gc
import importlib
import json
import multiprocessing
import os
import pickle
import subprocess
import sys
import time
import traceback
from concurrent.futures import ProcessPoolExecutor, wait, FIRST_COMPLETED

from . import kernel, shrink as shrinker

VERIF = os.path.dirname(os.path.dirname(os.path.abspath(__file__)))

ENGINE_OF = {
    'C01': 'world', 'C02': 'world', 'C05': 'world', 'C06': 'world',
    'C07': 'world', 'C19': 'twin',
    'C03': 'dispatch', 'C04': 'dispatch', 'C10': 'dispatch', 'C20': 'transform',
    'C08': 'coro', 'C09': 'coro',
    'C11': 'restree', 'C12': 'restree', 'C16': 'popul', 'C17': 'restree',
    'C13': 'loop', 'C14': 'loop', 'C15': 'worldfile',
}
LEVEL = collections.defaultdict(lambda: 'exploration',
                                C04='fault_enumeration',
                                C10='fault_enumeration',
                                C14='fault_enumeration')


def engine_for(prop):
    return importlib.import_module('sim.engines.' + ENGINE_OF[prop])


def load_known():
    path = os.path.join(VERIF, 'known_findings.json')
    if not os.path.exists(path):
        return []
    with open(path) as f:
        return json.load(f)


def open_ids(known, prop=None):
    return sorted(k['id'] for k in known if k.get('status') == 'open'
                  and (prop is None or k['property'] == prop))


# --------------------------------------------------------------------------
# one run

def run_one(engine, scenario, prop, tolerate):
    """Execute a scenario; returns the engine's result dict.

    result: {'violation': None | {'props','kind','detail','op'}, 'digest',
             'nontrivial': bool, 'probes': {}, 'faults': {}, 'known': {},
             'stats': {}}
    Harness exceptions propagate (they are not verdicts).
    """
    try:
        return engine.execute(scenario, prop=prop,
                              tolerate=frozenset(tolerate))
    except Exception as e:
        # An exception that comes out of desper code while the oracle was
        # querying it (a call the engine did not think could raise) is the
        # library's doing, not the harness's: report it as a violation of the
        # property under check. Anything raised by the harness itself
        # propagates (exit 2).
        where = None
        tb = e.__traceback__
        root = os.path.join(os.path.realpath(kernel.REPO), 'desper') + os.sep
        while tb is not None:
            fn = os.path.realpath(tb.tb_frame.f_code.co_filename)
            if fn.startswith(root):
                where = (os.path.relpath(fn, root),
                         tb.tb_frame.f_code.co_name, tb.tb_lineno)
            tb = tb.tb_next
        if where is None:
            raise
        detail = (f'{type(e).__name__}: {str(e)[:200]} raised by '
                  f'desper/{where[0]}:{where[2]} ({where[1]}) during a query '
                  f'of the oracle')
        return {'violation': {'props': [prop], 'kind': 'unexpected_exception',
                              'detail': detail, 'op': None},
                'digest': 'exc-%016x' % kernel.h64(
                    'exc', type(e).__name__, where[0], where[1]),
                'nontrivial': False, 'probes': {}, 'faults': {}, 'known': {},
                'stats': {}, 'trace_tail': []}


def violates(res, prop):
    v = res.get('violation')
    return v is not None and prop in v['props']


def in_child(fn, *args):
    """Run fn(*args) in a forked child and return its (picklable) result.

    Every chunk of runs executes in its own child of a process that has only
    imported desper and installed the seams, so that the state a chunk starts
    from is exactly the state of a fresh interpreter: a violation that depends
    on process-global state left behind by *earlier runs* is then a function
    of (seed, chunk indices) and replays (see history_minimise)."""
    r, w = os.pipe()
    pid = os.fork()
    if pid == 0:
        try:
            os.close(r)
            try:
                out = ('ok', fn(*args))
            except BaseException:
                out = ('err', traceback.format_exc())
            with os.fdopen(w, 'wb') as f:
                pickle.dump(out, f)
                f.flush()
        finally:
            os._exit(0)
    os.close(w)
    with os.fdopen(r, 'rb') as f:
        data = f.read()
    os.waitpid(pid, 0)
    if not data:
        raise RuntimeError('child process died without a result')
    tag, val = pickle.loads(data)
    if tag == 'err':
        raise RuntimeError(val)
    return val


def step_index(engine, prop, verif_seed, i, tier, tolerate, agg,
               want_samples=False, executed=None):
    """Generate and execute run number i. Returns None, or a dict with one of
    'harness_error', 'nondeterminism', 'violating' (scenario, result)."""
    rs = kernel.run_seed_for(verif_seed, prop, i)
    out = None
    try:
        scenarios = engine.generate(prop, rs, tier=tier,
                                    tolerate=frozenset(tolerate))
    except Exception:
        return {'harness_error': 'generate: ' + traceback.format_exc()}
    if isinstance(scenarios, dict):
        scenarios = [scenarios]
    for sc in scenarios:
        sc.setdefault('property', prop)
        sc.setdefault('run_index', i)
        sc.setdefault('verif_seed', verif_seed)
        sc.setdefault('run_seed', rs)
        if executed is not None:
            executed.append(copy.deepcopy(sc))
        try:
            res = run_one(engine, sc, prop, tolerate)
        except Exception:
            return {'harness_error': 'execute: ' + traceback.format_exc()
                    + '\nscenario: ' + json.dumps(sc)[:4000]}
        absorb(agg, res, sc, want_samples)
        if violates(res, prop):
            return {'violating': (sc, res)}
        elif res.get('violation') is not None:
            agg['foreign_abort'] += 1
            if os.environ.get('VERIF_DEBUG_FOREIGN'):
                print('FOREIGN', json.dumps(res['violation']),
                      json.dumps({k: sc[k] for k in ('ops', 'scripts')}),
                      flush=True)
        # in-run determinism spot check (2 %)
        if kernel.h64('recheck', rs) % 50 == 0:
            if executed is not None:
                executed.append(copy.deepcopy(sc))
            res2 = run_one(engine, copy.deepcopy(sc), prop, tolerate)
            agg['rechecked'] += 1
            if res2['digest'] != res['digest'] and out is None:
                out = {'nondeterminism': sc}
    if i % 16 == 15:
        gc.collect()
    return out


def _chunk_body(args):
    (prop, verif_seed, indices, tolerate, tier, want_samples) = args
    faulthandler.dump_traceback_later(600, exit=True)
    engine = engine_for(prop)
    agg = new_agg()
    found = None
    nondet = None
    t0 = time.time()
    done = []
    for i in indices:
        done.append(i)
        r = step_index(engine, prop, verif_seed, i, tier, tolerate, agg,
                       want_samples)
        if r is None:
            continue
        if 'harness_error' in r:
            return {'harness_error': r['harness_error'], 'agg': agg}
        if 'nondeterminism' in r:
            nondet = nondet or r['nondeterminism']
        if 'violating' in r:
            sc, res = r['violating']
            found = minimise(engine, sc, res, prop, tolerate)
            found['chunk'] = {'verif_seed': verif_seed, 'tier': tier,
                              'indices': list(done),
                              'kind': res['violation']['kind']}
            break
    gc.collect()
    agg['wall'] = time.time() - t0
    faulthandler.cancel_dump_traceback_later()
    out = {'agg': agg, 'found': found, 'indices_done': len(done)}
    if nondet is not None and found is None:
        out['nondeterminism'] = nondet
    return out


def _worker_chunk(args):
    return in_child(_chunk_body, args)


# --------------------------------------------------------------------------
# violations that depend on what earlier runs left behind in the process

def run_history(prop, tolerate, hist, final=None):
    """Execute a history in this process: the runs hist['indices'] (generated
    from their seeds and executed, rechecks included, exactly as a chunk does),
    then the explicit scenarios hist['prelude'], then the run expected to
    violate: run number hist['last'] when given, else the scenario `final`.
    Returns (violating result | None, executed scenarios, final scenario)."""
    engine = engine_for(prop)
    agg = new_agg()
    executed = []
    for i in hist.get('indices', []):
        step_index(engine, prop, hist['verif_seed'], i, hist['tier'],
                   tolerate, agg, executed=executed)
    for sc in hist.get('prelude', []):
        try:
            run_one(engine, copy.deepcopy(sc), prop, tolerate)
        except Exception:
            pass
    if hist.get('last') is not None:
        r = step_index(engine, prop, hist['verif_seed'], hist['last'],
                       hist['tier'], tolerate, agg, executed=[])
        if r and 'violating' in r:
            return r['violating'][1], executed, r['violating'][0]
        return None, executed, None
    res = run_one(engine, copy.deepcopy(final), prop, tolerate)
    return (res if violates(res, prop) else None), executed, final


def history_minimise(prop, found, tolerate, budget_s=60):
    """`found` did not replay on its own in a fresh interpreter. Re-run the
    chunk it came from (forked children of this process, which has executed
    nothing), keep the shortest history of earlier runs after which it still
    fails, make that history explicit and shrink it. Returns a replay dict or
    None when even the whole chunk does not reproduce the violation."""
    ch = found.get('chunk')
    if not ch:
        return None
    kind = ch['kind']
    t_end = time.time() + budget_s

    def probe(hist, final=None):
        def body():
            res, executed, fin = run_history(prop, tolerate, hist, final)
            if res is None or res['violation']['kind'] != kind:
                return None
            return {'res': {'violation': res['violation'],
                            'digest': res['digest'],
                            'trace_tail': res.get('trace_tail', [])},
                    'executed': executed, 'final': fin}
        try:
            return in_child(body)
        except Exception:
            return None

    base = {'verif_seed': ch['verif_seed'], 'tier': ch['tier']}
    idx = list(ch['indices'])
    got = probe(dict(base, indices=idx[:-1], last=idx[-1]))
    if got is None:
        return None
    # 1. fewest earlier runs (the last index is the failing run): ddmin
    pre, last = idx[:-1], idx[-1]
    n = 2
    while len(pre) >= 1 and time.time() < t_end:
        size = max(1, len(pre) // n)
        for k in range(0, len(pre), size):
            cand = pre[:k] + pre[k + size:]
            g = probe(dict(base, indices=cand, last=last))
            if g is not None:
                pre, got, n = cand, g, max(n - 1, 2)
                break
        else:
            if size == 1:
                break
            n = min(len(pre), n * 2)
    hist = dict(base, indices=pre, last=last)
    final = got['final']
    # 2. explicit scenarios instead of run numbers, when that still fails
    g = probe(dict(base, indices=[], prelude=got['executed']), final)
    if g is not None:
        prelude = got['executed']
        got = g

        def fails_pre(cand_prelude, cand_final=final):
            if time.time() > t_end:
                return False
            return probe(dict(base, indices=[], prelude=cand_prelude),
                         cand_final) is not None
        # drop whole prelude scenarios
        k = 0
        while k < len(prelude):
            cand = prelude[:k] + prelude[k + 1:]
            if fails_pre(cand):
                prelude = cand
            else:
                k += 1
        engine = engine_for(prop)
        simp = getattr(engine, 'simplify', None)
        # shrink each remaining prelude scenario, then the final one
        for k in range(len(prelude)):
            prelude[k] = shrinker.shrink(
                prelude[k],
                lambda c, k=k: fails_pre(prelude[:k] + [c] + prelude[k + 1:]),
                simp)
        final = shrinker.shrink(final, lambda c: fails_pre(prelude, c), simp)
        hist = dict(base, indices=[], prelude=prelude)
        got = probe(hist, final) or got
        if probe(hist, final) is None:       # shrinking went wrong: undo
            hist = dict(base, indices=[], prelude=g['executed'])
            final = g['final']
            got = g
    out = copy.deepcopy(final)
    out['history'] = hist
    out['tolerate'] = sorted(tolerate)
    out['expect'] = {'property': prop, 'kind': got['res']['violation']['kind'],
                     'digest': got['res']['digest'],
                     'detail': got['res']['violation']['detail'],
                     'op': got['res']['violation'].get('op'),
                     'note': 'fails only after the recorded history of '
                             'earlier runs in the same process (state leaked '
                             'between runs)'}
    out['trace_tail'] = got['res'].get('trace_tail', [])
    out.pop('chunk', None)
    return out


def minimise(engine, sc, res, prop, tolerate):
    kind = res['violation']['kind']

    def fails(cand):
        try:
            r = run_one(engine, copy.deepcopy(cand), prop, tolerate)
        except Exception:
            return False
        return violates(r, prop) and r['violation']['kind'] == kind

    small = shrinker.shrink(sc, fails, getattr(engine, 'simplify', None))
    r = run_one(engine, copy.deepcopy(small), prop, tolerate)
    if not (violates(r, prop) and r['violation']['kind'] == kind):
        small, r = sc, res
    small = copy.deepcopy(small)
    small['tolerate'] = sorted(tolerate)
    small['expect'] = {'property': prop, 'kind': r['violation']['kind'],
                       'digest': r['digest'],
                       'detail': r['violation']['detail'],
                       'op': r['violation'].get('op')}
    small['trace_tail'] = r.get('trace_tail', [])
    return small


def new_agg():
    return {'runs': 0, 'nontrivial': 0, 'digests': set(), 'probes':
            collections.Counter(), 'faults': collections.Counter(),
            'known': collections.Counter(), 'foreign_abort': 0,
            'skipped_ops': 0, 'ops': 0, 'sim_time': 0.0, 'policies':
            collections.Counter(), 'samples': {}, 'rechecked': 0,
            'faulty_runs': 0, 'faultfree_runs': 0, 'wall': 0.0,
            'steps': 0}


def absorb(agg, res, sc, want_samples):
    agg['runs'] += 1
    st = res.get('stats', {})
    agg['ops'] += st.get('ops', 0)
    agg['skipped_ops'] += st.get('skipped', 0)
    agg['sim_time'] += float(st.get('sim_time', 0))
    agg['steps'] += st.get('steps', 0)
    agg['policies'][sc.get('config', {}).get('policy', '-')] += 1
    agg['probes'].update(res.get('probes', {}))
    agg['faults'].update(res.get('faults', {}))
    agg['known'].update(res.get('known', {}))
    nfaults = sum(res.get('faults', {}).values())
    if nfaults:
        agg['faulty_runs'] += 1
    else:
        agg['faultfree_runs'] += 1
    if res.get('nontrivial'):
        agg['nontrivial'] += 1
        agg['digests'].add(res['digest'])
    if want_samples:
        def size(s):
            return shrinker._size(s)
        slim = {k: sc[k] for k in ('config', 'ops', 'scripts', 'run_seed')
                if k in sc}
        cur = agg['samples']
        if nfaults == 0 and res.get('nontrivial') and 'fault_free' not in cur:
            cur['fault_free'] = slim
        if nfaults and res.get('nontrivial') and 'faulty' not in cur:
            cur['faulty'] = slim
        if res.get('nontrivial') and (
                'longest' not in cur or size(sc) > size(cur['longest'])):
            cur['longest'] = slim


def merge(a, b):
    for k in ('runs', 'nontrivial', 'foreign_abort', 'skipped_ops', 'ops',
              'sim_time', 'rechecked', 'faulty_runs', 'faultfree_runs',
              'steps'):
        a[k] += b[k]
    a['wall'] = a.get('wall', 0) + b.get('wall', 0)
    a['digests'] |= b['digests']
    for k in ('probes', 'faults', 'known', 'policies'):
        a[k].update(b[k])
    for k, v in b['samples'].items():
        if k not in a['samples'] or (
                k == 'longest' and shrinker._size(v)
                > shrinker._size(a['samples'][k])):
            a['samples'][k] = v


# --------------------------------------------------------------------------
# replay

def write_replay(scenario, name):
    d = os.environ.get('VERIF_REPLAY_DIR') or os.path.join(VERIF, 'replays')
    os.makedirs(d, exist_ok=True)
    path = os.path.join(d, name)
    with open(path, 'w') as f:
        json.dump(scenario, f, indent=1, sort_keys=True)
    return path


def replay_file(path, quiet=False):
    """Re-execute a replay file in this interpreter. Returns exit code."""
    with open(path) as f:
        sc = json.load(f)
    want_o = int(sc.get('interpreter', {}).get('optimize', 0))
    if want_o and not sys.flags.optimize:
        # found by the leg that runs under `python -O` (asserts stripped)
        sys.stdout.flush()
        os.execv(sys.executable, [sys.executable, '-' + 'O' * want_o,
                                  os.path.join(VERIF, 'run.py'), '--replay',
                                  path] + (['--quiet'] if quiet else []))
    prop = sc.get('expect', {}).get('property', sc.get('property'))
    engine = engine_for(prop)
    if sc.get('history'):
        kernel.install_seams()
        hist = sc.pop('history')
        final = {k: v for k, v in sc.items()
                 if k not in ('expect', 'trace_tail', 'tolerate')}
        res, _, _ = run_history(prop, sc.get('tolerate', []), hist, final)
        if res is None:
            res = {'violation': None, 'digest': None}
    else:
        res = run_one(engine, sc, prop, sc.get('tolerate', []))
    exp = sc.get('expect')
    v = res.get('violation')
    out = {'property': prop, 'violation': v, 'digest': res['digest'],
           'expected': exp}
    if not quiet:
        print(json.dumps(out, indent=1))
    if v is not None and prop in v['props']:
        if exp and (v['kind'] != exp['kind'] or res['digest'] != exp['digest']):
            if not quiet:
                print('REPLAY-DIFFERS: violation reproduced but kind/digest '
                      'differ from the recorded ones')
            return 4
        if not quiet:
            print(f'VIOLATION property={prop} replay={path}')
        return 1
    return 0


def replay_fresh(path):
    """Replay in a fresh interpreter; returns its exit code."""
    env = dict(os.environ, PYTHONHASHSEED='0')
    p = subprocess.run([sys.executable, os.path.join(VERIF, 'run.py'),
                        '--replay', path, '--quiet'], env=env,
                       capture_output=True, text=True, timeout=120)
    return p.returncode, p.stdout + p.stderr


# --------------------------------------------------------------------------
# known findings / regressions executed first

def run_canonical(prop, known, out):
    """Returns (exit_code, lines). Open findings must still reproduce (else a
    note); fixed findings' regression scenarios must hold (else VIOLATION)."""
    code = 0
    for k in known:
        if k['property'] != prop:
            continue
        paths = k.get('scenarios', [])
        reproduced = []
        for rel in paths:
            path = os.path.join(VERIF, rel)
            with open(path) as f:
                sc = json.load(f)
            engine = engine_for(prop)
            tol = [t for t in open_ids(known) if t != k['id']]
            sc2 = copy.deepcopy(sc)
            sc2['tolerate'] = tol
            res = run_one(engine, sc2, prop, tol)
            bad = violates(res, prop)
            if k['status'] == 'open':
                if bad:
                    reproduced.append(f'{res["violation"]["kind"]}: {rel}')
                else:
                    out.append(f'NOTE: known finding {k["id"]} no longer '
                               f'reproduces with {rel}')
            else:
                if bad:
                    sc2['expect'] = {'property': prop,
                                     'kind': res['violation']['kind'],
                                     'digest': res['digest'],
                                     'detail': res['violation']['detail']}
                    p = write_replay(sc2, f'{prop}-regression-{k["id"]}.json')
                    out.append(f'REGRESSION of fixed finding {k["id"]}: '
                               f'{res["violation"]}')
                    out.append(f'VIOLATION property={prop} replay={p}')
                    code = 1
        if reproduced:
            out.append(f'KNOWN-FINDING: property={prop} {k["id"]} '
                       f'{k["text"]} [{"; ".join(reproduced)}]')
    return code


# --------------------------------------------------------------------------
# main check

def check(prop, tier, verif_seed, budget_s=None, jobs=None, max_runs=None,
          write_evidence=True):
    t0 = time.time()
    known = load_known()
    tolerate = open_ids(known)
    engine = engine_for(prop)
    kernel.clean_scratch()
    kernel.install_seams()      # import desper here: children fork from this

    def canon():
        out = []
        return run_canonical(prop, known, out), out
    code, lines = in_child(canon)
    for ln in lines:
        print(ln, flush=True)
    if budget_s is None:
        budget_s = float(os.environ.get(
            'VERIF_BUDGET_S', 20 if tier == 'quick' else 480))
    if max_runs is None:
        max_runs = int(os.environ.get(
            'VERIF_MAX_RUNS', 200000 if tier == 'quick' else 20000000))
    if jobs is None:
        jobs = int(os.environ.get('VERIF_JOBS',
                                  min(16, os.cpu_count() or 1)))
    chunk = int(os.environ.get('VERIF_CHUNK', 0))
    adaptive = chunk <= 0
    if adaptive:
        chunk = 3           # then sized so that a chunk lasts about 0.6 s
    agg = new_agg()
    found = None
    harness = None
    nondet = None
    next_index = int(os.environ.get('VERIF_INDEX_BASE', 0))
    max_runs += next_index
    deadline = t0 + budget_s
    ctx = multiprocessing.get_context('fork')
    with ProcessPoolExecutor(max_workers=jobs, mp_context=ctx) as ex:
        pending = set()

        def submit():
            nonlocal next_index
            idx = list(range(next_index, min(next_index + chunk, max_runs)))
            if not idx:
                return False
            next_index += len(idx)
            pending.add(ex.submit(_worker_chunk, (
                prop, verif_seed, idx, tolerate, tier,
                next_index <= chunk * jobs)))
            return True

        for _ in range(jobs * 2):
            if not submit():
                break
        while pending:
            done, _ = wait(pending, timeout=max(1.0, budget_s + 600),
                           return_when=FIRST_COMPLETED)
            if not done:
                harness = 'HARNESS-TIMEOUT'
                break
            for fut in done:
                pending.discard(fut)
                try:
                    r = fut.result()
                except Exception as e:
                    harness = f'worker died: {e!r}'
                    continue
                merge(agg, r['agg'])
                if adaptive and r['agg'].get('wall', 0) > 0 and \
                        r.get('indices_done'):
                    per_s = r['indices_done'] / r['agg']['wall']
                    chunk = max(4, min(400, int(.6 * per_s)))
                if r.get('harness_error'):
                    harness = r['harness_error']
                if r.get('nondeterminism') and nondet is None:
                    # not a verdict; a violation found later takes precedence
                    nondet = ('HARNESS-NONDETERMINISM: same scenario, two '
                              'digests: ' + json.dumps(
                                  r['nondeterminism'])[:2000])
                if r.get('found') and found is None:
                    found = r['found']
            if found or harness:
                for fut in pending:
                    fut.cancel()
                break
            while (len(pending) < jobs * 2 and time.time() < deadline
                   and submit()):
                pass
        if found or harness:
            ex.shutdown(wait=True, cancel_futures=True)
    wall = time.time() - t0
    violations = 0
    if (found is None and harness is None and not sys.flags.optimize
            and not os.environ.get('VERIF_LEG')
            and os.environ.get('VERIF_OPT_LEG', '1') != '0'):
        leg_code = optimised_leg(prop, tier, budget_s, agg)
        code = max(code, leg_code)
        violations = int(leg_code == 1)
    if found is not None:
        violations = 1
        if sys.flags.optimize:
            found['interpreter'] = {'optimize': int(sys.flags.optimize)}
        name = f'{prop}-{found["run_seed"]}.json'
        path = write_replay(found, name)
        rc, outp = replay_fresh(path)
        if rc != 1:
            # does it fail only after what earlier runs left in the process?
            hist = history_minimise(prop, found, tolerate)
            if hist is not None:
                path2 = write_replay(
                    hist, f'{prop}-{found["run_seed"]}-history.json')
                rc2, outp2 = replay_fresh(path2)
                if rc2 == 1:
                    os.remove(path)
                    path, rc, outp, found = path2, rc2, outp2, hist
                else:
                    outp += '\n(history replay: exit %s)\n%s' % (
                        rc2, outp2[-800:])
        if rc == 1:
            print(f'violation: {json.dumps(found["expect"])}')
            print(f'VIOLATION property={prop} replay={path}', flush=True)
            code = 1
        else:
            print(f'HARNESS-NONDETERMINISM: replay of {path} in a fresh '
                  f'interpreter gave exit {rc}\n{outp[-1500:]}')
            code = 2
    if harness is None and nondet is not None and found is None:
        harness = nondet
    if harness:
        print('HARNESS-ERROR:', harness, flush=True)
        code = 3 if 'TIMEOUT' in harness else 2
    # known-finding hits seen during the search
    for kid, n in sorted(agg['known'].items()):
        k = next((k for k in known if k['id'] == kid), None)
        if k and k['property'] == prop and not any(
                kid in ln for ln in lines if ln.startswith('KNOWN')):
            print(f'KNOWN-FINDING: property={prop} {kid} {k["text"]} '
                  f'[met {n} times during the search]')
    if write_evidence and not os.environ.get('VERIF_NO_EVIDENCE'):
        write_evidence_file(engine, prop, tier, verif_seed, agg, wall,
                            violations, known)
    kernel.clean_scratch()
    rate = agg['runs'] / max(wall, 1e-9)
    print(f'{prop} {tier}: runs={agg["runs"]} nontrivial={agg["nontrivial"]} '
          f'distinct={len(agg["digests"])} foreign_abort='
          f'{agg["foreign_abort"]} faults={sum(agg["faults"].values())} '
          f'wall={wall:.1f}s ({rate * 3600:.0f} runs/h) exit={code}',
          flush=True)
    zero = [p for p in getattr(engine, 'PROBES', {}).get(prop, [])
            if not agg['probes'].get(p)]
    if zero:
        print(f'WARNING probes never hit: {zero}')
    return code


def optimised_leg(prop, tier, budget_s, agg):
    """The interpreter's configuration is part of the environment: a share
    of the budget goes to fresh runs under `python -O` (assert statements
    and `if __debug__` blocks compiled away) in a separate interpreter.
    Returns an exit code; violation lines of the leg are passed through."""
    b = max(2.0, .12 * budget_s)
    env = dict(os.environ, VERIF_LEG='O', VERIF_BUDGET_S=str(b),
               VERIF_NO_EVIDENCE='1', VERIF_INDEX_BASE=str(1 << 40),
               PYTHONHASHSEED='0')
    try:
        p = subprocess.run([sys.executable, '-O',
                            os.path.join(VERIF, 'run.py'), prop, '--tier',
                            tier], env=env, capture_output=True, text=True,
                           timeout=b + 900)
    except subprocess.TimeoutExpired:
        print('HARNESS-ERROR: HARNESS-TIMEOUT in the -O leg', flush=True)
        return 3
    runs = 0
    for ln in p.stdout.splitlines():
        if ln.startswith(f'{prop} {tier}: runs='):
            runs = int(ln.split('runs=')[1].split()[0])
        elif not ln.startswith(('KNOWN-FINDING', 'WARNING probes')):
            print(ln, flush=True)
    agg['probes']['runs_under_python_-O'] += runs
    agg['faults']['asserts_compiled_away_runs'] += runs
    if p.returncode not in (0, 1):
        print(f'HARNESS-ERROR: -O leg exit {p.returncode}: '
              f'{p.stderr[-800:]}', flush=True)
        return 2
    return p.returncode


def write_evidence_file(engine, prop, tier, seed, agg, wall, violations,
                        known):
    info = getattr(engine, 'INFO', {}).get(prop, {})
    probes_all = getattr(engine, 'PROBES', {}).get(prop, [])
    cov = {
        'evaluations': agg['runs'],
        'distinct_nontrivial': len(agg['digests']),
        'rule': info.get('rule', ''),
        'samples': [agg['samples'][k] for k in
                    ('fault_free', 'faulty', 'longest')
                    if k in agg['samples']],
        'nontrivial_runs': agg['nontrivial'],
        'runs_per_hour': int(agg['runs'] / max(wall, 1e-9) * 3600),
        'sim_time_covered': agg['sim_time'],
        'ops_executed': agg['ops'],
        'skipped_ops': agg['skipped_ops'],
        'desper_lines_executed_under_budget': agg['steps'],
        'faults_fired': dict(sorted(agg['faults'].items())),
        'faulty_runs': agg['faulty_runs'],
        'fault_free_runs': agg['faultfree_runs'],
        'probes': {p: agg['probes'].get(p, 0) for p in
                   sorted(set(probes_all) | set(agg['probes']))},
        'probes_zero': [p for p in probes_all if not agg['probes'].get(p)],
        'foreign_abort': agg['foreign_abort'],
        'policies': dict(sorted(agg['policies'].items())),
        'determinism_rechecks': agg['rechecked'],
        'known_findings_met': dict(sorted(agg['known'].items())),
        'known_findings_open': open_ids(known, prop),
        'components': info.get('components', {}),
        'exhaustive': False,
    }
    ev = {'property_id': prop, 'tier': tier, 'seed': seed,
          'level': LEVEL[prop], 'coverage': cov,
          'assumptions': info.get('assumptions', []),
          'wall_s': round(wall, 2), 'violations': violations}
    d = os.path.join(VERIF, 'evidence')
    os.makedirs(d, exist_ok=True)
    with open(os.path.join(d, f'{prop}.json'), 'w') as f:
        json.dump(ev, f, indent=1, sort_keys=True, default=str)

"""Importable classes for generated world files (C15).  Every constructor
records its arguments; callbacks report to LOG (reset by the engine)."""
import copy
import threading

import desper

LOG = []


class _Rec:
    def __init__(self, *args, **kwargs):
        self.args = args
        self.kwargs = kwargs


class Plain(_Rec):
    pass


class Plain2(_Rec):
    pass


class Mutating(_Rec):
    """Keeps a private copy of the containers it was given, then uses the
    originals as its own working state (appends to the lists, adds a key to
    the dictionaries) - as a component that owns its arguments may."""

    def __init__(self, *args, **kwargs):
        def own(a):     # its own data (not a shared object of this module)
            return isinstance(a, (list, dict)) and a is not globals().get(
                'CYC')

        def keep(a):
            return copy.deepcopy(a) if own(a) else a
        self.args = tuple(keep(a) for a in args)
        self.kwargs = {k: keep(a) for k, a in kwargs.items()}
        for a in list(args) + list(kwargs.values()):
            if not own(a):
                continue
            if isinstance(a, list):
                a.append('mutated by the component')
            elif isinstance(a, dict):
                a['mutated'] = True


@desper.event_handler('on_add', 'on_world_load')
class Listener(_Rec):
    def on_add(self, entity, world):
        LOG.append(('on_add', self, entity, world))

    def on_world_load(self, handle, world):
        LOG.append(('on_world_load', self, handle, world))


@desper.event_handler('on_world_load')
class LoadOnly(_Rec):
    def on_world_load(self, handle, world):
        LOG.append(('on_world_load', self, handle, world))


class LateDeco(_Rec):
    """Becomes an event handler only when the engine decorates it, possibly
    after instances have been through a World (undone before every run)."""

    def on_add(self, entity, world):
        LOG.append(('on_add', self, entity, world))

    def on_world_load(self, handle, world):
        LOG.append(('on_world_load', self, handle, world))


class Outer:
    class Inner(_Rec):
        pass

    VALUE = ('nested', 'attribute')


def make_comp(*args, **kwargs):
    """A plain factory function ("only callables are accepted")."""
    c = Plain2(*args, **kwargs)
    c.made_by_factory = True
    return c


class Proc1(desper.Processor):
    def __init__(self, *args, **kwargs):
        self.args, self.kwargs = args, kwargs

    def process(self, dt):
        pass


class ProcEarly(Proc1):
    priority = -1


class ProcLate(Proc1):
    priority = 2


OBJ = object()
NUM = 42
LOCK = threading.Lock()         # importable, not copyable


def _gen():
    yield 1


GEN = _gen()                    # importable, not copyable


class _NoCopy:
    def __deepcopy__(self, memo):
        raise RuntimeError('this object must not be copied')

    def __copy__(self):
        raise RuntimeError('this object must not be copied')


NOCOPY = _NoCopy()
CYC = ['a list that contains itself']
CYC.append(CYC)
TEXT = 'a fixture string'


def func():
    return 'func'


class _LegacyShadow:
    """A package attribute named like the sub-module verif_fixtures.legacy
    (kept for "backwards compatibility"); importing the sub-module rebinds
    the name, the engine restores this object before every run."""
    VALUE = ('legacy', 'shadow attribute of the package')
    NUM = 1

    class Thing(_Rec):
        pass


LEGACY_SHADOW = _LegacyShadow()
legacy = LEGACY_SHADOW

"""Importable classes for generated world files (C15).  Every constructor
records its arguments; callbacks report to LOG (reset by the engine)."""
import desper

LOG = []


class _Rec:
    def __init__(self, *args, **kwargs):
        self.args = args
        self.kwargs = kwargs


class Plain(_Rec):
    pass


class Plain2(_Rec):
    pass


@desper.event_handler('on_add', 'on_world_load')
class Listener(_Rec):
    def on_add(self, entity, world):
        LOG.append(('on_add', self, entity, world))

    def on_world_load(self, handle, world):
        LOG.append(('on_world_load', self, handle, world))


@desper.event_handler('on_world_load')
class LoadOnly(_Rec):
    def on_world_load(self, handle, world):
        LOG.append(('on_world_load', self, handle, world))


class Outer:
    class Inner(_Rec):
        pass

    VALUE = ('nested', 'attribute')


def make_comp(*args, **kwargs):
    """A plain factory function ("only callables are accepted")."""
    c = Plain2(*args, **kwargs)
    c.made_by_factory = True
    return c


class Proc1(desper.Processor):
    def __init__(self, *args, **kwargs):
        self.args, self.kwargs = args, kwargs

    def process(self, dt):
        pass


class ProcEarly(Proc1):
    priority = -1


class ProcLate(Proc1):
    priority = 2


OBJ = object()
NUM = 42
TEXT = 'a fixture string'


def func():
    return 'func'


class _LegacyShadow:
    """A package attribute named like the sub-module verif_fixtures.legacy
    (kept for "backwards compatibility"); importing the sub-module rebinds
    the name, the engine restores this object before every run."""
    VALUE = ('legacy', 'shadow attribute of the package')
    NUM = 1

    class Thing(_Rec):
        pass


LEGACY_SHADOW = _LegacyShadow()
legacy = LEGACY_SHADOW

"""Sub-module whose name is shadowed by an attribute of the package until
somebody imports it."""
from . import _Rec

VALUE = ('legacy', 'module')
NUM = 5


class Thing(_Rec):
    pass

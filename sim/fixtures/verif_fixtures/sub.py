"""Sub-module of the fixture package."""
from . import _Rec


class SubComp(_Rec):
    pass


SUB_OBJ = ('sub', 'object')

"""A module whose file name is not an identifier (importable all the same:
importlib.import_module('verif_fixtures.level-data'))."""
VALUE = ('level', 'data')

"""Determinism self-test (DESIGN.md 7.1): same seeds -> same digests, in one
process twice, in a fresh interpreter, and under another PYTHONHASHSEED."""
import copy
import hashlib
import json
import os
import subprocess
import sys

from . import kernel, runner


def digests(prop, n, verif_seed=0):
    engine = runner.engine_for(prop)
    tol = frozenset(runner.open_ids(runner.load_known()))
    out = []
    for i in range(n):
        rs = kernel.run_seed_for(verif_seed, prop, i)
        scs = engine.generate(prop, rs, tier='quick', tolerate=tol)
        if isinstance(scs, dict):
            scs = [scs]
        for sc in scs:
            sc.setdefault('run_seed', rs)
            a = engine.execute(copy.deepcopy(sc), prop=prop, tolerate=tol)
            b = engine.execute(copy.deepcopy(sc), prop=prop, tolerate=tol)
            if a['digest'] != b['digest']:
                print(f'NONDETERMINISM in-process: {prop} index {i}')
                print(json.dumps(sc)[:3000])
                return None
            out.append(a['digest'] + hashlib.sha256(
                json.dumps(sc, sort_keys=True).encode()).hexdigest()[:8])
    return out


def determinism(prop, n=300):
    if os.environ.get('VERIF_SELFTEST_CHILD'):
        d = digests(prop, n)
        print('DIGESTS', json.dumps(d))
        return 0 if d is not None else 2
    mine = digests(prop, n)
    if mine is None:
        return 2
    ok = True
    for hs in ('0', '4242'):
        env = dict(os.environ, PYTHONHASHSEED=hs, VERIF_SELFTEST_CHILD='1')
        p = subprocess.run([sys.executable, os.path.join(
            runner.VERIF, 'run.py'), '--determinism', prop, str(n)],
            env=env, capture_output=True, text=True, timeout=1800)
        line = [l for l in p.stdout.splitlines() if l.startswith('DIGESTS')]
        theirs = json.loads(line[0][8:]) if line else None
        if theirs != mine:
            ok = False
            k = next((k for k in range(min(len(mine), len(theirs or [])))
                      if mine[k] != theirs[k]), None)
            print(f'NONDETERMINISM {prop}: fresh interpreter PYTHONHASHSEED='
                  f'{hs} differs (first at scenario #{k})')
            print(p.stderr[-800:])
    print(f'determinism {prop}: {len(mine)} scenarios x (2 in-process + 2 '
          f'fresh interpreters, PYTHONHASHSEED 0 and 4242): '
          f'{"identical" if ok else "DIFFER"}')
    return 0 if ok else 2

#!/venv/bin/python
"""Entry point of the desper simulation checks.

  run.py <Cnn> [--tier quick|thorough]     search; exit 0 / 1 (+VIOLATION line)
  run.py --replay <file> [--quiet]         re-execute a replay file
  run.py --selfcheck                       import smoke test (setup_cmd)
  run.py --determinism <Cnn> [n]           digest self-test (see DESIGN 7.1)

Honours VERIF_SEED, VERIF_TIER, VERIF_REPO, VERIF_BUDGET_S, VERIF_JOBS,
VERIF_MAX_RUNS.  Re-executes itself with PYTHONHASHSEED=0.
"""
import os
import sys

if os.environ.get('PYTHONHASHSEED') is None:
    os.environ['PYTHONHASHSEED'] = '0'
    os.execv(sys.executable, [sys.executable] + sys.argv)

HERE = os.path.dirname(os.path.abspath(__file__))
sys.path.insert(0, HERE)
REPO = os.environ.get('VERIF_REPO', '/repo')
sys.path.insert(0, REPO)
sys.dont_write_bytecode = True


def main(argv):
    from sim import runner, kernel
    if not argv or argv[0] in ('-h', '--help'):
        print(__doc__)
        return 0
    if argv[0] == '--selfcheck':
        desper = kernel.import_desper()
        import importlib
        for e in sorted(set(runner.ENGINE_OF.values())):
            try:
                importlib.import_module('sim.engines.' + e)
            except ModuleNotFoundError as ex:
                if ex.name != 'sim.engines.' + e:
                    raise
                print('engine not built yet:', e)
        print('selfcheck ok; desper', desper.version, 'from', desper.__file__)
        return 0
    if argv[0] == '--replay':
        return runner.replay_file(argv[1], quiet='--quiet' in argv)
    if argv[0] == '--determinism':
        from sim import selftest
        return selftest.determinism(argv[1], int(argv[2]) if len(argv) > 2
                                    else 300)
    prop = argv[0]
    tier = os.environ.get('VERIF_TIER', 'quick')
    if '--tier' in argv:
        tier = argv[argv.index('--tier') + 1]
    seed = int(os.environ.get('VERIF_SEED', '0'))
    return runner.check(prop, tier, seed)


if __name__ == '__main__':
    sys.exit(main(sys.argv[1:]))

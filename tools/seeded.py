#!/usr/bin/env python3
"""Vet a sub-agent's seeded change and run the checks against it.
  seeded.py vet <worktree> <k> <seed-id> <prop> "<needs>"   verify in the worktree, copy to /verif/seeded/<seed-id>/
  seeded.py run <seed-id> [--tier quick|thorough] [--budget S] [--props C01,C05]
        apply the patch to /repo, run the check(s), undo (git checkout -- .)
"""
import json, os, shutil, subprocess, sys
V = os.path.dirname(os.path.dirname(os.path.abspath(__file__)))
PY = '/venv/bin/python'
def sh(cmd, cwd=None, env=None, timeout=1800):
    return subprocess.run(cmd, cwd=cwd, env=env, shell=isinstance(cmd, str), capture_output=True, text=True, timeout=timeout)
def vet(wt, k, sid, prop, needs):
    src = os.path.join(wt, 'SEEDED', str(k))
    patch = os.path.join(src, 'patch.diff')
    assert sh('git status --short -- desper tests', cwd=wt).stdout.strip() == '', 'worktree dirty'
    r = sh(f'git apply {patch}', cwd=wt); assert r.returncode == 0, r.stderr
    try:
        t = sh(f'{PY} -m pytest -q -p no:cacheprovider', cwd=wt)
        tests_ok = ' passed' in t.stdout and 'failed' not in t.stdout and t.returncode == 0
        tail = t.stdout.strip().splitlines()[-1]
        d1 = sh(f'{PY} SEEDED/{k}/demo.py', cwd=wt)
    finally:
        sh('git checkout -- .', cwd=wt)
    d0 = sh(f'{PY} SEEDED/{k}/demo.py', cwd=wt)
    ok = tests_ok and d1.returncode != 0 and d0.returncode == 0
    print(f'{sid}: tests with change: {tail}; demo with change exit {d1.returncode}; demo without exit {d0.returncode} -> {"KEEP" if ok else "REJECT"}')
    if not ok:
        print(d1.stdout[-500:], d1.stderr[-500:], d0.stdout[-300:], d0.stderr[-300:]); return 1
    dst = os.path.join(V, 'seeded', sid); os.makedirs(dst, exist_ok=True)
    for f in ('patch.diff', 'demo.py', 'notes.md'):
        if os.path.exists(os.path.join(src, f)): shutil.copy(os.path.join(src, f), dst)
    meta = {'id': sid, 'breaks_property': prop, 'needs_to_manifest': needs,
            'origin': 'fresh sub-agent given only the property text and its own worktree',
            'vetted': {'cmd_tests': f'git apply patch.diff && {PY} -m pytest -q -p no:cacheprovider', 'tests_with_change': tail,
                       'demo_with_change_exit': d1.returncode, 'demo_without_change_exit': d0.returncode,
                       'demo_output_with_change': (d1.stdout + d1.stderr)[-600:]},
            'checks': {}}
    json.dump(meta, open(os.path.join(dst, 'meta.json'), 'w'), indent=1)
    return 0
def run(sid, tier, budget, props):
    """Checks run against a scratch copy of /repo with the patch applied
    (VERIF_REPO), so that /repo itself and background runs are undisturbed."""
    import tempfile
    dst = os.path.join(V, 'seeded', sid)
    meta = json.load(open(os.path.join(dst, 'meta.json')))
    props = props or [meta['breaks_property']]
    d = tempfile.mkdtemp(prefix='desper-seed-', dir='/var/tmp')
    try:
        sh(['cp', '-r', '/repo/desper', '/repo/tests', d])
        r = sh(f'git apply {dst}/patch.diff', cwd=d); assert r.returncode == 0, r.stderr
        for p in props:
            env = dict(os.environ, VERIF_REPO=d, VERIF_BUDGET_S=str(budget), VERIF_NO_EVIDENCE='1', VERIF_REPLAY_DIR=os.path.join(d, 'replays'))
            c = sh([PY, os.path.join(V, 'run.py'), p, '--tier', tier], env=env)
            viol = [l for l in c.stdout.splitlines() if l.startswith('violation:')]
            status = {0: 'MISSED', 1: 'CAUGHT'}.get(c.returncode, f'EXIT{c.returncode}')
            meta['checks'][f'{p}:{tier}'] = {'status': status, 'budget_s': budget, 'violation': viol[0][:400] if viol else None}
            print(sid, p, tier, status, (viol[0][:230] if viol else ''))
            if c.returncode not in (0, 1): print(c.stdout[-800:], c.stderr[-800:])
    finally:
        shutil.rmtree(d, ignore_errors=True)
    json.dump(meta, open(os.path.join(dst, 'meta.json'), 'w'), indent=1)
a = sys.argv[1:]
if a[0] == 'vet': sys.exit(vet(a[1], a[2], a[3], a[4], a[5]))
tier = a[a.index('--tier') + 1] if '--tier' in a else 'quick'
budget = a[a.index('--budget') + 1] if '--budget' in a else '15'
props = a[a.index('--props') + 1].split(',') if '--props' in a else None
run(a[1], tier, budget, props)

#!/usr/bin/env python3
"""Sensitivity self-test (DESIGN.md 7.2): apply catalogue mutants to scratch
copies of /repo and run the quick check of the mutant's property.
  mutants.py [--prop Cnn] [--id Cnn-Mk] [--budget S] [--tests]
Scratch copies live under /var/tmp and are removed after each mutant.
"""
import importlib.util, json, os, shutil, subprocess, sys, tempfile
V = os.path.dirname(os.path.dirname(os.path.abspath(__file__)))
def load():
    out = []
    for n in range(1, 5):
        spec = importlib.util.spec_from_file_location(f'mp{n}', os.path.join(V, 'mutants', f'mutants_part{n}.py'))
        m = importlib.util.module_from_spec(spec); spec.loader.exec_module(m)
        out += m.MUTANTS
    cat = {c['id']: c for c in json.load(open(os.path.join(V, 'mutants', 'catalog.json')))}
    return out, cat
def main(a):
    prop = a[a.index('--prop') + 1] if '--prop' in a else None
    mid = a[a.index('--id') + 1] if '--id' in a else None
    budget = a[a.index('--budget') + 1] if '--budget' in a else '10'
    muts, cat = load()
    results = []
    for (i, p, f, old, new, what) in muts:
        if prop and p != prop: continue
        if mid and i != mid: continue
        if cat.get(i, {}).get('tests') != 'SURVIVES': continue
        d = tempfile.mkdtemp(prefix='desper-mut-', dir='/var/tmp')
        try:
            subprocess.run(['cp', '-r', '/repo/desper', '/repo/tests', d], check=True)
            path = os.path.join(d, f)
            s = open(path).read()
            if s.count(old) != 1:
                results.append((i, 'NOMATCH', what)); print(i, 'NOMATCH', s.count(old), what, flush=True); continue
            open(path, 'w').write(s.replace(old, new))
            if '--tests' in a:
                r = subprocess.run(['/venv/bin/python', '-m', 'pytest', '-q', '-x', '-p', 'no:cacheprovider'], cwd=d, capture_output=True, text=True)
                if r.returncode != 0:
                    results.append((i, 'KILLED_BY_TESTS', what)); print(i, 'KILLED_BY_TESTS', what, flush=True); continue
            env = dict(os.environ, VERIF_REPO=d, VERIF_BUDGET_S=budget, VERIF_NO_EVIDENCE='1', VERIF_REPLAY_DIR=os.path.join(d, 'replays'))
            r = subprocess.run(['/venv/bin/python', os.path.join(V, 'run.py'), p, '--tier', 'quick'], env=env, capture_output=True, text=True, timeout=900)
            line = [l for l in r.stdout.splitlines() if l.startswith('violation:')]
            status = {0: 'MISSED', 1: 'CAUGHT'}.get(r.returncode, f'EXIT{r.returncode}')
            note = cat.get(i, {}).get('note', '')
            results.append((i, status, what))
            print(i, status, what, ('| ' + line[0][:160]) if line else '', ('| note: ' + note) if note else '', flush=True)
            if r.returncode not in (0, 1): print(r.stdout[-1500:], r.stderr[-1500:])
        finally:
            shutil.rmtree(d, ignore_errors=True)
    print('summary:', {s: sum(1 for r in results if r[1] == s) for s in sorted({r[1] for r in results})})
main(sys.argv[1:])

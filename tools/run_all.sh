#!/bin/sh
# Run every registered check (quick by default) in /verif against /repo; rewrites evidence/.
tier=${1:-quick}
cd /verif
for p in $(python3 -c "import json;print(' '.join(c['property_id'] for c in json.load(open('MANIFEST.json'))['checks']))"); do
  /venv/bin/python run.py $p --tier $tier 2>&1 | grep -E "^(C[0-9]+ |VIOLATION|HARNESS|KNOWN|NOTE|WARNING)" | cut -c1-220
done

#!/usr/bin/env python3
"""Regenerate MANIFEST.json from the table below (run by hand)."""
import json, os
V = os.path.dirname(os.path.dirname(os.path.abspath(__file__)))
PY = '/venv/bin/python /verif/run.py'
CHECKS = {
 # id: (engine, level, design_ref, level text, level note, technique)
 'C01': ('world', 'exploration', 'DESIGN.md 3/C01',
  'seeded search over World operation histories (top level and from inside processors) under five set-iteration policies; a reference ECS model is advanced in lock-step and every public query is compared after every operation, so every prefix is judged. Sampling: a clean batch is evidence, not proof.',
  'trusted: the hand-written reference model and the SimSet seam; bounded to <=9 ids, <=8 classes, <=80 ops',
  'deterministic simulation: seeded op histories vs. reference model, full query sweep per step, ddmin replay'),
 'C02': ('world', 'exploration', 'DESIGN.md 3/C02',
  'C01 histories interleaved with dispatch_enabled toggles and probe events; per-operation callback groups (immediate) and the postponed queue (deferred) are compared with the model, listener registration is compared with attachment after every step.',
  'trusted: reference model; lifecycle callbacks only record; known findings K1, K4 are tolerated exactly where they apply and re-demonstrated on every run',
  'deterministic simulation: seeded histories with enable/disable placement, callback ledger vs. model'),
 'C05': ('world', 'exploration', 'DESIGN.md 3/C05',
  'request -> touch -> frame histories; faults: a processor raising mid-frame and an out-of-premise request producing the documented KeyError frame, each followed by more frames; step budget on process().',
  'trusted: reference model; out-of-premise frames are resynchronised by observation and only the later frames are judged',
  'deterministic simulation: seeded histories + injected failing frames, step-budget liveness'),
 'C06': ('world', 'exploration', 'DESIGN.md 3/C06',
  'per-run random class DAGs (diamonds, three bases, late subclasses) as configuration of the world engine; the sweep compares all six type queries with issubclass-based matching as multisets. No fault dimension of its own (stated weakness).',
  'trusted: Python issubclass as the matching oracle; reference model',
  'deterministic simulation (configuration swarm): random class DAG x world histories, multiset query sweep'),
 'C07': ('world', 'exploration', 'DESIGN.md 3/C07',
  'processor-set histories (ties, zero/negative priorities, replacement, class-level defaults through shadow classes) with a per-frame call log compared with a stable-insertion model; processors property and get_processor after every step.',
  'trusted: reference model; processor set is mutated between frames only (DESIGN.md section 5)',
  'deterministic simulation: seeded histories vs. stable-sort model, call log per frame'),
 'C03': ('dispatch', 'exploration', 'DESIGN.md 3/C03',
  'seeded add_handler/remove_handler/dispatch histories on a plain dispatcher or a World, generated handler class hierarchies (decorator forms, overriding, remapping), re-entrant operations executed from inside callbacks at activations found by a fault-free dry run; every delivery is attributed to a unique token and compared with a dispatcher model; class event maps are compared with a model computed from the decorator arguments alone.',
  'trusted: DispatcherModel; single-inheritance handler hierarchies (+ plain mixin)',
  'deterministic simulation: seeded histories with re-entrant callbacks, token-attributed delivery log vs. model'),
 'C04': ('dispatch', 'fault_enumeration', 'DESIGN.md 3/C04',
  'for each sampled base history the faults (raise Boom/Quit/SwitchWorld, nested disable, disable+dispatch+enable, re-dispatch, nested enable) are placed at delivery positions of its releases (quick: 3 sampled; thorough: every position x every kind), each followed by a recovery suffix; the release is judged as a history over the delivery log (no delivery while disabled, at most once per (token, listener), first deliveries in dispatch order, nothing lost once enabling returned normally) and termination is a step budget on desper lines.',
  'trusted: history checker; an event already in flight when a callback disables dispatching may finish its delivery; exhaustive only within each sampled base scenario',
  'deterministic simulation with fault injection at every delivery position; history check; step-budget liveness'),
 'C10': ('dispatch', 'fault_enumeration', 'DESIGN.md 3/C10',
  'the simulator holds the only strong reference to each handler (or hands it to a World as sole owner); for multi-listener dispatches the last reference to listener j is dropped from the callback of listener i (quick: 3 sampled pairs; thorough: all pairs) under five listener orders; a receiver monitor runs inside every callback, weakref death is verified at the next quiescent point, GC is an explicit operation, unraisable exceptions are captured.',
  'trusted: CPython refcount semantics for immediate death; collector disabled during runs',
  'deterministic simulation: reference-drop fault at every (caller, victim) pair, receiver-identity monitor'),
 'C08': ('coro', 'exploration', 'DESIGN.md 3/C08',
  'a real CoroutineProcessor is stepped frame by frame in virtual time (generated dt: zero, uneven, jumps; exact dyadic values) with 1-6 scripted generator coroutines whose waits overlap, restart the shared timer, share deadlines; a predictive model decides for every frame which coroutine must advance (exactly once), wake times are exact, order stability is checked for coroutines continuously runnable.',
  'trusted: CoroModel; exactly representable dt/wait values; bodies do not raise',
  'deterministic simulation in virtual time: seeded dt/yield/start schedules vs. predictive wake-time model'),
 'C09': ('coro', 'exploration', 'DESIGN.md 3/C09',
  'C08 workload plus start/kill/promise.kill/state/value/decorator path issued between frames and from inside coroutine bodies (own and other), kill;start idiom with 0-2 frames in between, non-generators; lifecycle state machine model checked at every read, exceptions of start/kill, process never failing, release observed through refcounts at the frame the model says it is due.',
  'trusted: CoroModel; refcount-based release observation (CPython); a finished generator that is started again may read ACTIVE or TERMINATED until its next turn',
  'deterministic simulation: seeded start/kill placement relative to frame phases, lifecycle model, refcount release probe'),
 'C20': ('transform', 'exploration', 'DESIGN.md 3/C20',
  'assignment histories on Transform2D/3D instances with shared listeners under five listener orders; each notification is compared with the property read inside the callback and right after the assignment; cross-event and cross-transform silence; constructor values and independence of defaults. Little schedule dimension, no faults (stated weakness).',
  'trusted: exact arithmetic on the chosen values; dispatching stays enabled',
  'deterministic simulation: seeded assignment/listener histories, delivery log vs. read-back'),
 'C11': ('restree', 'exploration', 'DESIGN.md 3/C11',
  'histories of __setitem__ with plain/composite keys (on the root or any reachable sub-map; handles, empty/pre-populated/layered maps), clear and layering; after every operation the whole real tree including every handle layer is compared with a nested-dict model, back-links are walked for every reachable node (implicit intermediates included), and every path over the alphabet is queried through get and [] (default exactly when KeyError).',
  'trusted: TreeModel; each value object inserted at most once; depth <= 4',
  'deterministic simulation: seeded op histories vs. reference model, reachability sweep of back-links'),
 'C12': ('restree', 'exploration', 'DESIGN.md 3/C12',
  'counting handles with 13 kinds of loaded values reached through every access path (call, root[], submap[], chained [], get()(), static item/attr/get, Loop.switch) interleaved with clear(); loads scripted to raise on their n-th call are the injected I/O fault (narrow relaxation: the failing access propagates the error, cached stays false); per-epoch load ledger and identity of every returned object.',
  'trusted: load ledger model; the failure path of Loop.switch is not exercised (unspecified)',
  'deterministic simulation: seeded access/clear interleavings with injected load failures, per-epoch load ledger'),
 'C17': ('restree', 'exploration', 'DESIGN.md 3/C17',
  'weakest level claimed: snapshots are taken at random points of C11-style histories (identifier, keyword, non-identifier and empty names; layered handles) and compared path by path, again after further mutations of the map; setattr/delattr attempted at every level. No schedule or fault dimension exists for this property; it rides on the restree histories as an invariant.',
  'trusted: snapshot model (copy of the tree model at the instant of the snapshot); known finding K3 (__x names) avoided by the generator and re-demonstrated on every run',
  'deterministic simulation (invariant riding on tree histories): snapshot vs. model path by path'),
 'C16': ('popul', 'exploration', 'DESIGN.md 3/C16',
  'real scratch directory trees, real DirectoryResourcePopulator, seeded sibling listing order through a glob shim whose result set is cross-checked against the real glob on every call; option matrix nest x trim at construction and per call, pre-populated maps, repeated population, rules over existing / nested / missing / regular-file paths with extension filters; key set, factory arguments, map-ness of directories, conflict clauses (judged on what the recording factory observed when each handle was built) and ValueError for a file path.',
  'trusted: os.path on the scratch file system; hidden files and stem==sibling-directory collisions are not generated; no I/O errors injected',
  'deterministic simulation with a file-system listing-order seam; seeded tree/rule/option configurations'),
 'C13': ('loop', 'exploration', 'DESIGN.md 3/C13',
  'a real SimpleLoop with a simulated clock drives 2-4 world handles populated with scripted processors, handler components and coroutines; frame scripts are placed iteratively on activations observed in dry runs and request switches (switch() / raise SwitchWorld, all flag combinations, self-switch, cached or not, from processors, on_update, coroutines, on_switch_in) and dispatch probe events on muted worlds; every event is attributed to a world instance (handle, generation); inline monitors (muted world stays silent, abandoned frame, the predicted instance runs) plus a per-request history check (out once in x, in once in y after its load-time callbacks, held events released in order).',
  'trusted: LoopModel instance prediction; an exception leaving a callback of the entering release cuts that delivery short (C04)',
  'deterministic simulation: multi-world loop with seeded frame scripts, instance-attributed history check'),
 'C14': ('loop', 'fault_enumeration', 'DESIGN.md 3/C14',
  'C13 system with generated clocks (repeated readings, jumps of 1000, int/float/Fraction, offsets up to 2^40); for each sampled base run a terminating fault (Quit, quit_loop(None/current), ordinary exception, BaseException) is raised at activations of the run (quick: 3 sampled; thorough: every activation x 5 kinds), each followed by a restart of the same loop object; exact dt ledger per start (first dt 0, dt == difference of consecutive readings across switches, one process per reading), outcome of start(), running flag, current world/handle identity, on_quit deliveries.',
  'trusted: every world has a first processor making each process() observable; exhaustive only within each sampled base scenario',
  'deterministic simulation with a simulated clock and crash/quit injection at every actor activation; dt ledger'),
 'C15': ('worldfile', 'exploration', 'DESIGN.md 3/C15',
  'generated descriptions are written as real JSON files and loaded by the real WorldFromFileHandle placed at depth 1-4 of a real resource tree whose referenced resources are cached or not; history load / enable / clear / rewrite / load again, plus the dictionary path with dispatching enabled and disabled; constructor arguments are compared element-wise (references by identity), ids incl. 0 and "", processors after the default ones and by priority, load-time callback order through the disabled-dispatcher queue, resource load counts. Mostly seeded input generation: the stated weakness is that there is no fault dimension.',
  'trusted: recording fixture classes; strings that begin with a marker and continue, duplicate ids and repeated exact types are not generated',
  'deterministic simulation (weak: seeded descriptions through real file + tree + event queue), differential against an expectation computed from the description'),
 'C19': ('twin', 'exploration', 'DESIGN.md 3/C19',
  'twin worlds: the same history runs on W1 through shorthands only (functions, Controller methods, ComponentReference/ProcessorReference get/set/del, controller() factory) and on W2 through World calls, components created pairwise; return values and a full query sweep compared after every step (refinement against the real World); Prototype source matrix incl. custom prefixes, sub-prototypes and equal __name__ types, iterated twice; OnUpdateProcessor relays the very dt object once per listener.',
  'trusted: pairing of twin objects; the real World is the reference',
  'deterministic simulation: twin-world differential run under seeded histories'),
}
NA = {
 'C18': 'pure arithmetic on immutable tuples: no state, schedule, clock, I/O or fault for a simulator to decide (DESIGN.md section 3, C18)',
}
def main():
    props = [json.loads(l)['id'] for l in open(os.path.join(V, 'properties.jsonl'))]
    checks = []
    for p in props:
        if p not in CHECKS:
            continue
        eng, level, ref, text, note, tech = CHECKS[p]
        checks.append({
            'property_id': p,
            'quick_cmd': f'{PY} {p} --tier quick',
            'thorough_cmd': f'{PY} {p} --tier thorough',
            'evidence_file': f'/verif/evidence/{p}.json',
            'replay_cmd_template': f'{PY} --replay {{path}}',
            'engine': eng,
            'level_claimed': {'category': level, 'text': text, 'design_ref': ref},
            'level_note': note, 'technique': tech})
    engines = {}
    for p, c in CHECKS.items():
        engines.setdefault(c[0], []).append(p)
    m = {'version': 1,
         'setup_cmd': '/venv/bin/python /verif/run.py --selfcheck',
         'hooks': {'guard': 'DESPER_VERIF',
                   'enable': 'no source hooks: seams are installed at run time by rebinding module attributes (desper.events.set, desper.logic.world.set, desper.model.glob, desper.default_loop) and through SimpleLoop(time_function=)',
                   'baseline_off_cmd': 'cd /repo && /venv/bin/python -m pytest -ra -q -p no:cacheprovider --timeout=900 --continue-on-collection-errors',
                   'source_commits': [], 'add_only': True},
         'engines': [{'name': e, 'path': f'/verif/sim/engines/{e}.py',
                      'serves_properties': sorted(ps),
                      'kind_free_text': 'seeded deterministic simulation engine (generator + interpreter + reference model + oracles)'}
                     for e, ps in sorted(engines.items())],
         'checks': checks,
         'notes': 'run.py re-executes itself with PYTHONHASHSEED=0; VERIF_SEED, VERIF_BUDGET_S, VERIF_JOBS, VERIF_REPO honoured. Exit 2/3 = harness defect/timeout (never a verdict).',
         'not_applicable': [{'property_id': p, 'reason': NA.get(p, 'check not built yet (work in progress)')}
                            for p in props if p not in CHECKS]}
    json.dump(m, open(os.path.join(V, 'MANIFEST.json'), 'w'), indent=1)
    print('checks:', [c['property_id'] for c in checks])
main()

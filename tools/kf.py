#!/usr/bin/env python3
"""Maintain known_findings.json by hand (never called by a check).
  kf.py fixed <id> <prop> <commit> <replay-file> <what failed>
  kf.py open  <id> <prop> <replay-file> <what fails>
The replay file is copied to replays/fixed/ or replays/known/.
"""
import json, os, shutil, sys
V = os.path.dirname(os.path.dirname(os.path.abspath(__file__)))
def main(a):
    path = os.path.join(V, 'known_findings.json')
    kf = json.load(open(path)) if os.path.exists(path) else []
    mode = a[0]
    if mode == 'fixed':
        _, fid, prop, commit, replay, text = a
        sub = 'fixed'
        text = f'fixed: property={prop} {commit} {text}'
    else:
        _, fid, prop, replay, text = a
        commit, sub = None, 'known'
    sc = json.load(open(replay))
    kind = sc.get('expect', {}).get('kind')
    os.makedirs(os.path.join(V, 'replays', sub), exist_ok=True)
    rel = os.path.join('replays', sub, f'{fid}-{prop}-{kind}.json')
    n = 1
    while os.path.exists(os.path.join(V, rel)) and os.path.abspath(replay) != os.path.join(V, rel):
        n += 1
        rel = os.path.join('replays', sub, f'{fid}-{prop}-{kind}-{n}.json')
    if os.path.abspath(replay) != os.path.join(V, rel):
        shutil.copy(replay, os.path.join(V, rel))
    for k in kf:
        if k['id'] == fid and k['property'] == prop and k['status'] == mode:
            k['scenarios'].append(rel)
            if kind not in k['kinds']:
                k['kinds'].append(kind)
            break
    else:
        e = {'id': fid, 'status': mode, 'property': prop, 'kinds': [kind],
             'scenarios': [rel], 'text': text}
        if commit:
            e['commit'] = commit
        kf.append(e)
    json.dump(kf, open(path, 'w'), indent=1)
    print('recorded', fid, prop, rel)
main(sys.argv[1:])

#!/usr/bin/env python3
"""Rewrite the seeded-changes table of DESIGN.md (between the SEEDTABLE markers) from seeded/*/meta.json."""
import glob, json, os, re
V = os.path.dirname(os.path.dirname(os.path.abspath(__file__)))
rows = ['| id | breaks | what it needs in order to manifest | result (tier: status) | violation kind reported |', '|---|---|---|---|---|']
n = caught = 0
for f in sorted(glob.glob(os.path.join(V, 'seeded', '*', 'meta.json'))):
    m = json.load(open(f))
    st = '; '.join(f"{k.split(':')[1]}: {v['status']}" for k, v in m['checks'].items())
    kind = ''
    for v in m['checks'].values():
        mm = re.search(r'"kind": "([a-z_]+)"', v.get('violation') or '')
        if mm: kind = mm.group(1)
    n += 1; caught += any(v['status'] == 'CAUGHT' for v in m['checks'].values())
    rows.append(f"| {m['id']} | {m['breaks_property']} | {m['needs_to_manifest']} | {st} | {kind} |")
rows.append('')
rows.append(f'{n} vetted changes, {caught} caught.')
p = os.path.join(V, 'DESIGN.md')
s = open(p).read()
a, b = s.index('<!-- SEEDTABLE-BEGIN -->'), s.index('<!-- SEEDTABLE-END -->')
s = s[:a] + '<!-- SEEDTABLE-BEGIN -->\n' + '\n'.join(rows) + '\n' + s[b:]
open(p, 'w').write(s)
print(n, caught)

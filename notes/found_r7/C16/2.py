"""nest_on_conflict=False does not replace the handle that holds the key
when that handle sits in a shadow layer (a sibling conflict pushed it
down): the 'replaced' handle stays in the map beneath the new one."""
import os
import sys
import tempfile

sys.path.insert(0, os.getcwd())
import desper                                               # noqa: E402
from desper.model import DirectoryResourcePopulator         # noqa: E402


class H(desper.Handle):
    def __init__(self, filename, tag):
        self.filename = filename
        self.tag = tag

    def load(self):
        return self.filename


root = tempfile.mkdtemp()
os.makedirs(os.path.join(root, 'dir'))
for name in ('a.png', 'b.txt'):
    open(os.path.join(root, 'dir', name), 'w').close()

m = desper.ResourceMap()

everything = DirectoryResourcePopulator(root)
everything.add_rule('dir', H, 'first')
everything(m)                                   # a.png, b.txt

only_b = DirectoryResourcePopulator(root, nest_on_conflict=True)
only_b.add_rule('dir', H, 'second', file_exts=['.txt'])
only_b(m)                                       # nests b.txt only: new empty top layer

taken = m.get('dir/a.png')
assert taken.tag == 'first'                     # the key is taken by it

replacing = DirectoryResourcePopulator(root, nest_on_conflict=False)
replacing.add_rule('dir', H, 'third')
replacing(m)

new = m.get('dir/a.png')
assert new.tag == 'third', new.tag
alive = [layer['a.png'].tag for layer in m.get('dir').handles.maps
         if 'a.png' in layer]
assert alive == ['third'], (
    'nest_on_conflict=False: the new handle must replace the one that held '
    f"'dir/a.png', but the map still keeps {alive} (old handle retrievable "
    'beneath the new one, exactly as if nesting were enabled)')
print('ok')

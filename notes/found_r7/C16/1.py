"""trim_extensions cuts the key at a dot of a DIRECTORY name when the
delimiter (ResourceMap.split_char) is not the OS separator."""
import os
import sys
import tempfile

sys.path.insert(0, os.getcwd())
import desper                                               # noqa: E402
from desper.model import DirectoryResourcePopulator         # noqa: E402


class H(desper.Handle):
    def __init__(self, filename):
        self.filename = filename

    def load(self):
        return self.filename


root = tempfile.mkdtemp()
os.makedirs(os.path.join(root, 'pack.d'))
open(os.path.join(root, 'pack.d', 'readme'), 'w').close()      # no extension
open(os.path.join(root, 'pack.d', 'img.png'), 'w').close()

# Documented way of changing the delimiter ("can be changed at any time
# by setting the class attribute split_char")
desper.ResourceMap.split_char = ':'
try:
    populator = DirectoryResourcePopulator(root, trim_extensions=True)
    populator.add_rule('pack.d', H)
    m = desper.ResourceMap()
    populator(m)

    top_handles = dict(m.handles)
    top_maps = dict(m.maps)
    h = m.get('pack.d:readme')
    ok_img = m.get('pack.d:img')
finally:
    desper.ResourceMap.split_char = '/'

assert isinstance(ok_img, H), 'pack.d:img should be there (sanity)'
assert h is not None and h.filename.endswith('readme'), (
    "file pack.d/readme is not reachable under 'pack.d:readme'; the root map "
    f"holds handles {sorted(top_handles)} and maps {sorted(top_maps)} "
    "(a handle 'pack' that corresponds to no file)")
assert not top_handles, f'unexpected handles in the root map: {top_handles}'
print('ok')

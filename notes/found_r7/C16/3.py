"""add_rule cannot forward extra keyword arguments that are called like its
own parameters (relative_path, handle_type, self)."""
import os
import sys
import tempfile

sys.path.insert(0, os.getcwd())
import desper                                               # noqa: E402
from desper.model import DirectoryResourcePopulator         # noqa: E402


class H(desper.Handle):
    """A handle whose factory takes keywords with quite natural names."""

    def __init__(self, filename, relative_path=None, handle_type='plain'):
        self.filename = filename
        self.relative_path = relative_path
        self.handle_type = handle_type

    def load(self):
        return self.filename


root = tempfile.mkdtemp()
os.makedirs(os.path.join(root, 'dir'))
open(os.path.join(root, 'dir', 'f.txt'), 'w').close()

populator = DirectoryResourcePopulator(root)
errors = []
for extra in ({'handle_type': 'sprite'}, {'relative_path': 'x'}):
    try:
        populator.add_rule('dir', H, **extra)
    except TypeError as e:
        errors.append(f'{extra}: {e}')

assert not errors, (
    'extra keyword arguments of a rule must reach the factory, but add_rule '
    'rejects them: ' + '; '.join(errors))

m = desper.ResourceMap()
populator(m, nest_on_conflict=True)
layers = m.get('dir').handles.maps
assert layers[1]['f.txt'].handle_type == 'sprite'
assert layers[0]['f.txt'].relative_path == 'x'
print('ok')

"""An ``on_add`` event broadcast on the world re-targets every Controller.

Controllers are registered in their world as ordinary listeners of the
event named ``on_add``. The world itself never broadcasts that name (it
calls the callback of the one component concerned), but anybody who does -
``World.dispatch`` is public and event names are free-form - overwrites
``entity`` and ``world`` of ALL attached controllers, which then act on the
wrong entity (or crash) although nothing was added, removed or moved.
"""
import sys

sys.path.insert(0, '.')

import desper     # NOQA


class Position:
    pass


class Hero(desper.Controller):
    position = desper.ComponentReference(Position)


world = desper.World()
other_world = desper.World()

hero, villain = Hero(), Hero()
hero_pos, villain_pos = Position(), Position()
hero_entity = world.create_entity(hero, hero_pos)
villain_entity = world.create_entity(villain, villain_pos)

assert (hero.entity, hero.world) == (hero_entity, world)
assert hero.position is hero_pos

# Some other part of the game announces that "something was added",
# reusing the lifecycle event's name and signature (entity, world), e.g. to
# let HUD widgets (plain handlers added with add_handler) know about it.
world.dispatch('on_add', villain_entity, world)

# No component was attached, detached or moved by that call ...
assert world.get_components(hero_entity) == (hero, hero_pos)
assert world.is_handler(hero)

# ... yet the hero's controller now believes it is the villain's
assert hero.entity == hero_entity, (
    f'attached Controller forgot its entity: controller.entity is '
    f'{hero.entity!r}, but it is a component of entity {hero_entity!r}')
assert hero.position is world.get_component(hero_entity, Position), (
    'ComponentReference read through the controller returns the component '
    'of another entity')

# Same with the world
world.dispatch('on_add', hero_entity, other_world)
assert hero.world is world, 'attached Controller forgot its world'

print('ok')

"""An init method is ignored when ``init_prefix`` starts with two underscores.

``Prototype`` looks its init methods up with ``getattr(self, prefix +
name)``. A method written in the class body under a name that starts with
two underscores (and does not end with two) is stored by Python under the
mangled name ``_<Class>__...``, while its ``__name__`` stays the one the
user wrote. The lookup by the plain string never finds it, so the component
is silently built by the default constructor.
"""
import sys

sys.path.insert(0, '.')

import desper     # NOQA


class Position:
    def __init__(self, x=0, y=0):
        self.x, self.y = x, y


class Velocity:
    def __init__(self, x=0, y=0):
        self.x, self.y = x, y


class Bullet(desper.Prototype):
    """Init methods are an implementation detail: keep them private."""
    component_types = Position, Velocity
    init_prefix = '__init_'

    def __init__(self, x, y):
        self.x, self.y = x, y

    def __init_Position(self, component_type):
        return component_type(self.x, self.y)

    def __init_Velocity(self, component_type):
        return component_type(0, -10)


# The method named init_prefix + type name is defined ...
method_names = {f.__name__ for f in vars(Bullet).values() if callable(f)}
assert Bullet.init_prefix + Position.__name__ in method_names
assert Bullet.init_prefix + Velocity.__name__ in method_names
# ... there is no init_methods entry that would take precedence
assert Position not in Bullet.init_methods

position, velocity = Bullet(3, 4)
assert type(position) is Position and type(velocity) is Velocity

assert (position.x, position.y) == (3, 4), (
    f'Position was not built by the defined method '
    f'{Bullet.init_prefix + "Position"!r}: got ({position.x}, {position.y})'
    f' from the default constructor instead of (3, 4)')
assert (velocity.x, velocity.y) == (0, -10), 'Velocity built by default'

print('ok')

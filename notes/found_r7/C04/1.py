"""A callback runs while dispatching is disabled: the remaining listeners of
the event during whose delivery a callback disabled the dispatcher."""
import os
import sys

sys.path.insert(0, os.getcwd())
import desper  # noqa: E402

seen = []       # (tag, payload, dispatch_enabled observed inside the callback)


@desper.event_handler('ping')
class Listener:
    def __init__(self, tag, dispatcher):
        self.tag = tag
        self.dispatcher = dispatcher

    def ping(self, payload):
        seen.append((self.tag, payload, self.dispatcher.dispatch_enabled))
        # Whoever is called first switches dispatching off
        if len(seen) == 1:
            self.dispatcher.dispatch_enabled = False


d = desper.EventDispatcher()
a, b = Listener('a', d), Listener('b', d)
d.add_handler(a)
d.add_handler(b)

# The nested disable is injected in the release of a postponed event, at the
# first of its two delivery positions
d.dispatch_enabled = False
d.dispatch('ping', 1)
d.dispatch('ping', 2)
d.dispatch_enabled = True

assert not d.dispatch_enabled
ran_while_disabled = [entry for entry in seen if not entry[2]]
assert not ran_while_disabled, (
    'callbacks ran while dispatch_enabled was False: %r (all calls: %r)'
    % (ran_while_disabled, seen))

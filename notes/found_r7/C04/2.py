"""After a callback raised during a release the dispatcher stays ENABLED with
events still pending, so later top-level dispatches overtake older events."""
import os
import sys

sys.path.insert(0, os.getcwd())
import desper  # noqa: E402

seen = []


@desper.event_handler('ev')
class Listener:
    def ev(self, payload):
        seen.append(payload)
        if payload == 'a':
            raise desper.Quit()     # raised from callbacks by design


d = desper.EventDispatcher()
listener = Listener()
d.add_handler(listener)

d.dispatch_enabled = False
d.dispatch('ev', 'a')
d.dispatch('ev', 'b')
try:
    d.dispatch_enabled = True       # delivers 'a', which raises
except desper.Quit:
    pass

# 'b' is still pending, yet the dispatcher claims to be enabled...
assert seen == ['a'] and d.dispatch_enabled

d.dispatch('ev', 'c')               # ... hence 'c' jumps the queue
d.dispatch_enabled = True           # only now 'b' arrives

assert seen == ['a', 'b', 'c'], (
    "events were not delivered in dispatch order: %r (expected ['a', 'b', "
    "'c']); 'c' overtook the pending 'b'" % seen)

"""Layered handles: a handle living in a lower (fallback) layer whose name is
also the name of a sub-map. The map answers with the handle (handles win in
get/__getitem__), the snapshot stores the sub-map under that name but still
lists it as a handle name, so item/attribute access blows up."""
import os
import sys
sys.path.insert(0, os.getcwd())

import desper


class H(desper.Handle):
    def __init__(self, v):
        self.v = v

    def load(self):
        return self.v


m = desper.ResourceMap()
m['a/x'] = H(1)                        # sub-map 'a'
fallback = H(2)
m.handles.maps.append({'a': fallback})  # a fallback layer of handles

# What the map itself says
assert m.get('a') is fallback
assert m['a'] == 2

snap = m.get_static_map()
try:
    got = snap.get('a')
    item = snap['a']
    attr = snap.a
except Exception as e:
    raise AssertionError(
        f'snapshot access failed where the map answers: {type(e).__name__}: {e}')
assert got is fallback, 'snapshot.get yields another object than map.get'
assert item == 2 and attr == 2, 'snapshot yields another resource than the map'

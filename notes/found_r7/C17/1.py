"""A static map is not a snapshot: calling its (public, inherited-looking)
__init__ again re-reads the live ResourceMap and rewrites the attributes."""
import os
import sys
sys.path.insert(0, os.getcwd())

import desper


class H(desper.Handle):
    def __init__(self, v):
        self.v = v

    def load(self):
        return self.v


m = desper.ResourceMap()
h1, h2 = H(1), H(2)
m['a'] = h1
m['sub/x'] = H(3)
snap = m.get_static_map()
assert snap.get('a') is h1 and snap.a == 1

# The map moves on; the snapshot must not.
m['a'] = h2
old_sub = snap.get('sub')

try:
    snap.__init__()          # no setattr/delattr involved, nothing raises
except Exception:            # raising would be fine as well
    pass

assert snap.get('a') is h1, (
    'snapshot was rewritten by snap.__init__(): get("a") is now the handle '
    'stored in the map AFTER the snapshot was taken')
assert snap.a == 1, 'snapshot attribute changed after creation'
assert snap.get('sub') is old_sub, 'sub-map of the snapshot was replaced'

"""remove_processor rejects a query type drawn from the hierarchy.

A processor class built with multiple inheritance has a plain mixin
among its bases. get_processor(Mixin) finds the processor (as the
property demands), remove_processor(Mixin) refuses the very same query
with an AssertionError instead of detaching exactly that one processor.
"""
import sys
sys.path.insert(0, '.')

import desper  # noqa: E402


class Mixin:
    pass


class Physics(Mixin, desper.Processor):
    def process(self, dt=1):
        pass


world = desper.World()
physics = Physics()
world.add_processor(physics)

# The type query itself is fine: the mixin is a base of Physics
assert world.get_processor(Mixin) is physics, 'get_processor(Mixin) failed'

try:
    removed = world.remove_processor(Mixin)
except AssertionError as error:
    raise AssertionError(
        'remove_processor(Mixin) raised instead of detaching the one '
        f'processor whose type is a subclass of Mixin: {error}') from None

assert removed is physics, f'expected the Physics instance, got {removed!r}'
assert world.processors == (), f'still attached: {world.processors!r}'
assert world.get_processor(Mixin) is None
print('ok')

"""Assignments made while the transform's dispatching is disabled are
notified later with values the property no longer holds, and also to
listeners that were registered after the assignment."""
import os
import sys

sys.path.insert(0, os.getcwd())
import desper  # noqa: E402

Vec2 = desper.math.Vec2


@desper.event_handler('on_position_change')
class Recorder:

    def __init__(self, transform):
        self.transform = transform
        self.log = []

    def on_position_change(self, value):
        self.log.append((value, self.transform.position))


problems = []

# (a) two assignments while disabled
transform = desper.Transform2D()
listener = Recorder(transform)
transform.add_handler(listener)
transform.dispatch_enabled = False
transform.position = Vec2(1, 1)
transform.position = Vec2(2, 2)
transform.dispatch_enabled = True
for carried, read in listener.log:
    if carried != read:
        problems.append(f'(a) notified of {carried} while the property reads '
                        f'{read}')

# (b) a listener registered after the assignment is notified of it
transform = desper.Transform2D()
early = Recorder(transform)
transform.add_handler(early)
transform.dispatch_enabled = False
transform.position = Vec2(1, 1)
late = Recorder(transform)
transform.add_handler(late)          # no assignment from here on
transform.dispatch_enabled = True
if late.log:
    problems.append(f'(b) a listener added after the only assignment got '
                    f'{late.log}')

assert not problems, '\n' + '\n'.join(problems)

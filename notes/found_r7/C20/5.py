"""A callback object that is not hashable leaves its handler half
registered: add_handler raises, is_handler says False, yet the handler keeps
receiving one of the events and cannot be removed."""
import os
import sys

sys.path.insert(0, os.getcwd())
import desper  # noqa: E402

Vec2 = desper.math.Vec2


class Callback:
    """Callable object used as a callback (class attribute)."""

    def __init__(self, tag):
        self.tag = tag

    def __call__(self, handler, value):
        handler.log.append((self.tag, value))


class ComparableCallback(Callback):

    def __eq__(self, other):            # hence unhashable
        return isinstance(other, Callback) and other.tag == self.tag


@desper.event_handler('on_position_change', 'on_rotation_change')
class Listener:
    on_position_change = Callback('position')
    on_rotation_change = ComparableCallback('rotation')

    def __init__(self):
        self.log = []


transform = desper.Transform2D()
listener = Listener()
try:
    transform.add_handler(listener)
    registered = True
except TypeError:
    registered = False

transform.position = Vec2(1, 1)
transform.rotation = 3
if registered:
    assert listener.log == [('position', Vec2(1, 1)), ('rotation', 3.0)]
else:
    assert not transform.is_handler(listener)
    transform.remove_handler(listener)
    transform.position = Vec2(2, 2)
    assert listener.log == [], (
        'add_handler raised and is_handler() is False, but the object is '
        f'notified anyway, even after remove_handler: {listener.log}')

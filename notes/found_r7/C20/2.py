"""A listener that corrects the assigned value (clamping) makes the other
listeners end up with a stale value: their LAST notification is the
overwritten value, not the one the property holds."""
import os
import sys

sys.path.insert(0, os.getcwd())
import desper  # noqa: E402

Vec2 = desper.math.Vec2


@desper.event_handler('on_position_change')
class Clamp:
    """Keeps x <= 10 (a typical bounds constraint)."""

    def __init__(self, transform):
        self.transform = transform

    def on_position_change(self, value):
        if value[0] > 10:
            self.transform.position = Vec2(10, value[1])


@desper.event_handler('on_position_change')
class Recorder:

    def __init__(self, transform):
        self.transform = transform
        self.log = []

    def on_position_change(self, value):
        # (value carried, value a read returns right now)
        self.log.append((value, self.transform.position))


stale = []
# listeners are kept in a set: iteration order depends on addresses, so try
# a few layouts (in practice the very first one already shows it)
for attempt in range(20):
    transform = desper.Transform2D()
    listeners = [Recorder(transform) for _ in range(3)]
    clamp = Clamp(transform)
    listeners += [Recorder(transform) for _ in range(3)]
    for listener in listeners[:3] + [clamp] + listeners[3:]:
        transform.add_handler(listener)

    transform.position = Vec2(50, 1)
    assert transform.position == Vec2(10, 1)

    for listener in listeners:
        carried, read = listener.log[-1]
        if carried != transform.position:
            stale.append(listener.log)

assert not stale, (
    f'{len(stale)} listeners were last notified of a value that is not the '
    f'stored one, eg. (carried, read at that moment) = {stale[0]}; '
    f'the property reads {transform.position}')

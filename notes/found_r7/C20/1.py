"""2D rotation: exact integers beyond 2**53 are reduced wrongly, huge
integers and Decimals cannot be assigned at all."""
import os
import sys
from decimal import Decimal

sys.path.insert(0, os.getcwd())
import desper  # noqa: E402


@desper.event_handler('on_rotation_change')
class Listener:
    got = None

    def on_rotation_change(self, value):
        self.got = value


problems = []
for value in (2 ** 53 + 1, -(2 ** 53 + 1), 10 ** 18 + 7, 10 ** 400,
              Decimal(725)):
    expected = value % 360          # exact arithmetic, small exact result
    transform = desper.Transform2D()
    listener = Listener()
    transform.add_handler(listener)
    try:
        transform.rotation = value
    except Exception as exc:
        problems.append(f'rotation = {value!r:.30} raised '
                        f'{type(exc).__name__}: {exc}')
        continue
    if transform.rotation != expected or listener.got != expected:
        problems.append(f'rotation = {value!r:.30}: stored '
                        f'{transform.rotation!r}, notified {listener.got!r}, '
                        f'but {value!r:.30} mod 360 is {expected!r}')

    try:
        built = desper.Transform2D(rotation=value).rotation
        assert built == expected, built
    except Exception as exc:
        problems.append(f'Transform2D(rotation={value!r:.30}): '
                        f'{type(exc).__name__}: {exc}')

assert not problems, '\n' + '\n'.join(problems)

"""copy.copy(transform) shares the listener tables with the original:
listeners of one transform hear about assignments on the other."""
import copy
import os
import sys

sys.path.insert(0, os.getcwd())
import desper  # noqa: E402

Vec2 = desper.math.Vec2


@desper.event_handler('on_position_change', 'on_rotation_change')
class Recorder:

    def __init__(self):
        self.log = []

    def on_position_change(self, value):
        self.log.append(('position', value))

    def on_rotation_change(self, value):
        self.log.append(('rotation', value))


original = desper.Transform2D()
on_original = Recorder()
original.add_handler(on_original)

clone = copy.copy(original)           # eg. spawning from a template
on_clone = Recorder()
clone.add_handler(on_clone)

original.position = Vec2(1, 1)
clone.rotation = 7

problems = []
if on_clone.log != [('rotation', 7.0)]:
    problems.append(f'listener of the clone got {on_clone.log}, '
                    f'clone.position is {clone.position}')
if on_original.log != [('position', Vec2(1, 1))]:
    problems.append(f'listener of the original got {on_original.log}, '
                    f'original.rotation is {original.rotation}')
assert not problems, '\n' + '\n'.join(problems)

"""A component moved by a sibling's on_remove ends up attached but deaf.

While an entity is deleted (immediate deletion, also used by clear()),
the entity record is dropped first and then each component is notified
and unregistered in turn. If the callback of the first component hands a
sibling component over to ANOTHER entity (eg. a dying monster dropping
its loot into a new chest entity), the later `remove_handler(sibling)` of
the deletion loop unregisters the sibling although it has just become
attached again.
"""
import sys
sys.path.insert(0, '.')

import desper  # NOQA

log = []


@desper.event_handler('on_add', 'on_remove', 'ping')
class Loot:

    def on_add(self, entity, world):
        log.append(('add', entity))

    def on_remove(self, entity, world):
        log.append(('remove', entity))

    def ping(self):
        log.append('ping')


@desper.event_handler('on_remove')
class Monster:

    def __init__(self, loot):
        self.loot = loot

    def on_remove(self, entity, world):
        # The entity is gone already: world.get_components(entity) == ()
        assert world.get_components(entity) == ()
        self.chest = world.create_entity(self.loot)


world = desper.World()
loot = Loot()
monster = Monster(loot)
entity = world.create_entity(monster, loot)

world.delete_entity(entity, immediate=True)

chest = monster.chest
assert world.get_component(chest, Loot) is loot, 'loot is not attached'
# one on_add per attachment, one on_remove per detachment
assert sorted(log) == [('add', entity), ('add', chest), ('remove', entity)], log
world.dispatch('ping')
assert world.is_handler(loot) and 'ping' in log, (
    f'loot is attached to entity {chest} but is not a listener of the '
    f'world (is_handler={world.is_handler(loot)}, log={log})')
print('ok')

"""World.clear() leaves behind what removal callbacks create meanwhile.

An on_remove callback running during clear() creates a brand new entity
(a different one, not the entity being processed). clear() iterates over
a snapshot of the entities, so the new entity survives the clear: its
component stays attached, never receives on_remove, and - because the
dispatcher is wiped afterwards - is no longer a listener of the world.
"""
import sys
sys.path.insert(0, '.')

import desper  # NOQA

log = []


@desper.event_handler('on_add', 'on_remove', 'ping')
class Spawned:

    def on_add(self, entity, world):
        log.append(('add', entity))

    def on_remove(self, entity, world):
        log.append(('remove', entity))

    def ping(self):
        log.append('ping')


@desper.event_handler('on_remove')
class Spawner:
    """When removed, leaves a new entity behind (eg. a corpse)."""

    def on_remove(self, entity, world):
        self.spawned = Spawned()
        self.spawned_entity = world.create_entity(self.spawned)


world = desper.World()
spawner = Spawner()
world.create_entity(spawner)

world.clear()

spawned, entity = spawner.spawned, spawner.spawned_entity
assert log == [('add', entity)], log
attached = world.get_component(entity, Spawned) is spawned
listener = world.is_handler(spawned)
world.dispatch('ping')

# Either the clear really clears (on_remove delivered, nothing attached),
# or the survivor is a fully working attached component. Neither holds.
assert attached == listener, (
    f'after World.clear(): component attached={attached} but '
    f'listener={listener}; on_remove calls={log.count(("remove", entity))}; '
    f'receives events={"ping" in log}')
assert not attached, 'World.clear() left an entity in the world'
print('ok')

"""Replacing the only component of an entity lends its id to new entities.

add_component() replaces a component of the same type by removing the old
one first. If that was the entity's only component, the entity record is
freed for the duration of the old component's on_remove callback. A
callback that creates a NEW entity (automatic id) meanwhile can be handed
the very id of the entity under replacement (when that id is the next one
of the generator, eg. it was given explicitly). The replacement then
overwrites the component of the "new" entity without any notification.
"""
import sys
sys.path.insert(0, '.')

import desper  # NOQA

log = []


@desper.event_handler('on_add', 'on_remove', 'ping')
class Marker:

    def __init__(self, name):
        self.name = name

    def on_add(self, entity, world):
        log.append(('add', self.name, entity))

    def on_remove(self, entity, world):
        log.append(('remove', self.name, entity))
        if self.name == 'old':
            # Leave a trace on a brand new entity
            self.trace = Marker('trace')
            self.trace_entity = world.create_entity(self.trace)

    def ping(self):
        log.append(('ping', self.name))


world = desper.World()
old = Marker('old')
world.create_entity(old, entity_id=1)      # explicit id, generator untouched

world.add_component(1, Marker('new'))      # replaces ``old``

trace, trace_entity = old.trace, old.trace_entity
attached = trace in world.get_components(trace_entity)
removed = ('remove', 'trace', trace_entity) in log
assert attached or removed, (
    f'"trace" got on_add({trace_entity}) but is neither attached nor '
    f'notified of its removal; still a listener: {world.is_handler(trace)}; '
    f'log={log}')
assert trace_entity != 1, (
    f'create_entity() handed out id {trace_entity}, the id of the entity '
    'whose component is being replaced')
print('ok')

"""C08: once a float step has been added to the shared clock, process() itself
raises for waits that are perfectly good positive numbers - the coroutine is
never advanced again (and everybody queued behind it loses the frame).

(a) a Decimal wait after a float step: TypeError (Decimal + float)
(b) a huge int wait after the float step 0.0: OverflowError (int + float),
    although the accumulated time asked for is exactly 10**400
Without the float step (int / Fraction steps) both work, and so does the
float step when nobody is waiting yet (the clock is not touched then).
"""
import sys
sys.path.insert(0, '')
from decimal import Decimal

import desper


def scenario(first_dt, wait, wake_dt):
    proc = desper.CoroutineProcessor()
    steps = []
    frame = [0]

    def keeper():
        yield 10 ** 500     # somebody is waiting: the clock is running

    def sleeper():
        yield
        steps.append(frame[0])
        yield wait
        steps.append(frame[0])

    def bystander():
        while True:
            steps.append(('b', frame[0]))
            yield

    proc.start(keeper())
    proc.start(sleeper())
    proc.start(bystander())
    for dt in (1, first_dt, 0, wake_dt):
        frame[0] += 1
        try:
            proc.process(dt)
        except Exception as exc:
            return f'process({dt!r}) raised {exc!r} in frame {frame[0]}'
    if [s for s in steps if isinstance(s, int)] != [2, 4]:
        return f'advanced in {steps}'
    return None


problems = []
for label, first_dt, wait, wake_dt in (
        ('control int/Decimal', 1, Decimal(1), 1),
        ('control int/huge', 0, 10 ** 400, 10 ** 400),
        ('float step then Decimal wait', 0.5, Decimal(1), 1),
        ('float step 0.0 then huge int wait', 0.0, 10 ** 400, 10 ** 400)):
    result = scenario(first_dt, wait, wake_dt)
    print(label, '->', result or 'fine')
    if result:
        problems.append(f'{label}: {result}')

assert not problems, ('a coroutine yielding a positive number must sleep and '
                      'wake on time; ' + '; '.join(problems))
print('ok')

"""C08: a float time step contaminates the shared clock; a coroutine waiting
for an exact Fraction then wakes one frame late.

Every number used here is exactly representable in its own type (0.5 as a
float, 1/10 and 3/10 as Fractions); the exact sum of the steps after the
yield is 1/10 + 1/10 + 1/10 == 3/10, so the sleeper must be advanced again in
the third process call after its yield.
"""
import sys
sys.path.insert(0, '')
from fractions import Fraction as F

import desper

proc = desper.CoroutineProcessor()
frame = [0]
steps = []


def keeper():
    yield 100           # somebody else is waiting: the clock is running


def sleeper():
    yield               # frame 1
    steps.append(frame[0])
    yield F(3, 10)      # frame 2, asks for exactly 3/10
    steps.append(frame[0])


proc.start(keeper())
proc.start(sleeper())

dts = [1, 0.5, F(1, 10), F(1, 10), F(1, 10), F(1, 10)]
acc = None
expected = None
for dt in dts:
    frame[0] += 1
    proc.process(dt)
    if frame[0] == 2:
        acc = 0
    elif acc is not None:
        acc += dt       # exact: Fractions only after the yield
        if expected is None and acc >= F(3, 10):
            expected = frame[0]

assert expected == 5
assert steps == [2, expected], (
    f'the coroutine yielded Fraction(3, 10) in frame 2 and the steps of the '
    f'frames 3, 4, 5 add up to exactly 3/10, so it must be advanced in frame '
    f'{expected}; frames in which it was advanced: {steps}')
print('ok')

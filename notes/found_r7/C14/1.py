"""C14: an exception raised while a world FILE is loaded inside a frame is
re-created as ``type(ex)(message)``.  A Quit subclass (or any other exception)
whose constructor does not accept exactly one string turns into a TypeError:
start() neither returns normally on that Quit nor propagates the real error.
"""
import json
import os
import sys
import tempfile

sys.path.insert(0, os.getcwd())
import desper  # noqa: E402


class QuitWithCode(desper.Quit):
    """A Quit carrying an exit code and a reason."""

    def __init__(self, code, reason):
        super().__init__(code, reason)
        self.code = code
        self.reason = reason


class AssetError(Exception):
    """An ordinary application error with two mandatory fields."""

    def __init__(self, path, line):
        super().__init__(path, line)
        self.path = path
        self.line = line


class RaisingHandle(desper.Handle):
    """A resource whose loading fails (referenced as $res{...})."""

    def __init__(self, exception):
        self.exception = exception

    def load(self):
        raise self.exception


class Thing:
    def __init__(self, resource):
        self.resource = resource


class SwitchProcessor(desper.Processor):
    def __init__(self, handle):
        self.handle = handle

    def process(self, dt):
        raise desper.SwitchWorld(self.handle)


class FirstWorldHandle(desper.Handle):
    def __init__(self, target):
        self.target = target

    def load(self):
        world = desper.World()
        world.add_processor(SwitchProcessor(self.target))
        return world


def run(exception):
    """Frame 1 switches to a world file that references a bad resource."""
    tmp = tempfile.mkdtemp()
    filename = os.path.join(tmp, 'level.json')
    with open(filename, 'w') as fout:
        json.dump({'entities': [{'components': [
            {'type': '__main__.Thing', 'args': ['$res{bad}']}]}]}, fout)

    resources = desper.ResourceMap()
    resources['bad'] = RaisingHandle(exception)
    resources['level'] = file_handle = desper.WorldFromFileHandle(filename)

    clock = iter(range(100))
    loop = desper.SimpleLoop(lambda: next(clock))
    first = FirstWorldHandle(file_handle)
    loop.switch(first)
    world = loop.current_world

    try:
        loop.start()
        outcome = None
    except BaseException as ex:     # noqa
        outcome = ex
    return loop, first, world, outcome


# 1. A Quit raised in the frame: start must return normally
loop, first, world, outcome = run(QuitWithCode(3, 'corrupted save'))
assert outcome is None, (
    'Quit (subclass) raised while the next world loads inside a frame: '
    f'start() should return normally, but raised {outcome!r}')
assert loop.running is False
assert loop.current_world is world and loop.current_world_handle is first

# 2. Any other exception must reach the caller (as itself)
loop, first, world, outcome = run(AssetError('hero.png', 12))
assert isinstance(outcome, AssetError), (
    'AssetError raised while the next world loads inside a frame should '
    f'propagate to the caller of start(), got {outcome!r} instead')

print('ok')

"""C14: a Quit that is also a SwitchWorld ("quit, and this is the world to come
back to at the next start") does not stop the loop: SimpleLoop.loop tests for
SwitchWorld first and keeps running.
"""
import os
import sys

sys.path.insert(0, os.getcwd())
import desper  # noqa: E402


class QuitToMenu(desper.Quit, desper.SwitchWorld):
    """Stop the loop; carries the handle of the menu for whoever restarts."""


class Handle(desper.Handle):
    def __init__(self, *processors):
        self.processors = processors

    def load(self):
        world = desper.World()
        for processor in self.processors:
            world.add_processor(processor)
        return world


class MenuProcessor(desper.Processor):
    frames = 0

    def process(self, dt):
        self.frames += 1
        raise desper.Quit()


class GameProcessor(desper.Processor):
    def process(self, dt):
        raise QuitToMenu(menu_handle)


menu_processor = MenuProcessor()
menu_handle = Handle(menu_processor)
game_handle = Handle(GameProcessor())

clock = iter(range(100))
loop = desper.SimpleLoop(lambda: next(clock))
loop.switch(game_handle)
game_world = loop.current_world

loop.start()

assert not loop.running
assert menu_processor.frames == 0 and loop.current_world is game_world, (
    'a Quit (subclass, also deriving from SwitchWorld) was raised in the first '
    'frame: start() should have returned at once with the current world '
    f'unchanged, but the loop switched and ran {menu_processor.frames} more '
    'frame(s) in the other world')
print('ok')

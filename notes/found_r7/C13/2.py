"""A switch requested from an on_switch_out callback: two outs for one leave.

A processor of world A asks for switch(HB).  A listener of A reacts to
on_switch_out(A, B) by asking for another world (switch(HC)), like the
on_switch_in case that the loop already supports.  World A is left exactly
once (for C), yet its listener receives on_switch_out twice, the first time
announcing a world (B) that is never entered.
"""
import sys
sys.path.insert(0, '.')
import desper

log = []
count = [0]


@desper.event_handler('on_switch_in', 'on_switch_out')
class Listener:
    def __init__(self, world):
        self.world = world

    def on_switch_in(self, from_, to):
        log.append(('in', self.world.tag, from_.tag, to.tag))

    def on_switch_out(self, from_, to):
        log.append(('out', self.world.tag, from_.tag, to.tag))
        if to is HB():                  # redirect: B is not wanted
            desper.switch(HC)


class Proc(desper.Processor):
    frames = 0

    def process(self, dt):
        Proc.frames += 1
        log.append(('frame', self.world.tag))
        if Proc.frames == 1:
            desper.switch(HB)
        if Proc.frames > 2:
            raise desper.Quit()


class H(desper.WorldHandle):
    def __init__(self, tag):
        super().__init__()
        self.tag = tag
        self.transform_functions.append(self.fill)

    def fill(self, handle, world):
        world.tag = self.tag
        world.add_processor(Proc())
        world.create_entity(Listener(world))


HA, HB, HC = H('A'), H('B'), H('C')
loop = desper.default_loop
loop.switch(HA)
loop.start()

frames = [e[1] for e in log if e[0] == 'frame']
assert frames == ['A', 'C', 'C'], frames          # A was left once, for C
outs = [e for e in log if e[0] == 'out' and e[1] == 'A']
assert ('in', 'C', 'A', 'C') in log, log
assert len(outs) == 1, (
    'world A was left once (for C) but on_switch_out was delivered %d '
    'times in it: %r' % (len(outs), outs))

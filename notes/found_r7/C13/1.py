"""A world entered through switch() keeps running without its on_switch_in.

World A pings the (loaded, still disabled) world B and switches to it.
The ping callback, released when B is entered, quits the loop
(desper.quit_loop(), the documented way to stop).  The program starts
the loop again: B is the current world, it is processed frame after
frame, its dispatching claims to be enabled, but on_switch_in(A, B) is
still sitting in its queue and is never delivered.
"""
import sys
sys.path.insert(0, '.')
import desper

log = []


@desper.event_handler('ping', 'on_switch_in')
class Listener:
    def ping(self):
        log.append('ping')
        desper.quit_loop()

    def on_switch_in(self, from_, to):
        log.append('in')


class Proc(desper.Processor):
    frames = 0

    def process(self, dt):
        Proc.frames += 1
        if Proc.frames == 1:
            HB().dispatch('ping')       # B is loaded and holds the event
            desper.switch(HB)
        log.append('frame ' + self.world.tag)
        if Proc.frames > 4:
            raise desper.Quit()


class H(desper.WorldHandle):
    def __init__(self, tag):
        super().__init__()
        self.tag = tag
        self.transform_functions.append(self.fill)

    def fill(self, handle, world):
        world.tag = self.tag
        world.add_processor(Proc())
        world.create_entity(Listener())


HA, HB = H('A'), H('B')
loop = desper.default_loop
loop.switch(HA)
loop.start()            # A switches to B, entering B quits
assert log == ['ping'], log
assert loop.current_world is HB()

loop.start()            # B runs
assert log.count('frame B') == 4, log
assert HB().dispatch_enabled
assert 'in' in log, (
    'world B was entered through switch() and processed %d frames, but '
    'on_switch_in was never delivered (still queued: %r)'
    % (log.count('frame B'), [e[0] for e in HB()._event_queue]))

"""(borderline) $res{<path of the world file itself>} never terminates: the
world is loaded again and again until RecursionError. $handle{..} of the same
path works."""
import json
import os
import sys
import tempfile

sys.path.insert(0, os.getcwd())
import desper  # NOQA


class Comp:
    def __init__(self, *args):
        self.args = args


sys.modules['found3_types'] = sys.modules[__name__]

description = {'entities': [{'components': [
    {'type': 'found3_types.Comp', 'args': ['$handle{levels.one}',
                                           '$res{levels.one}']}]}]}
filename = os.path.join(tempfile.mkdtemp(), 'one.json')
with open(filename, 'w') as fout:
    json.dump(description, fout)

root = desper.ResourceMap()
root['levels/one'] = desper.WorldFromFileHandle(filename)

try:
    world = root['levels/one']
except RecursionError:
    raise AssertionError(
        '$res{levels.one} inside levels/one itself: the load recursed until '
        'RecursionError instead of passing the world being loaded') from None

(_, comp), = world.get(Comp)
assert comp.args[0] is root.get('levels/one')
assert comp.args[1] is world, comp.args
print('ok')

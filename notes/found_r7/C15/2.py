"""An entity listed with an explicit id and no components: its id is handed
out to an entity without id, so entity <id> holds components it never listed.
"""
import json
import os
import sys
import tempfile

sys.path.insert(0, os.getcwd())
import desper  # NOQA


class A:
    pass


class B:
    pass


# 1. dictionary form
description = {'entities': [
    {'id': 1, 'components': []},                    # a placeholder entity
    {'components': [{'type': A}]},                  # automatic id
]}
world = desper.World()
desper.populate_world_from_dict(world, description)
assert world.get_components(1) == (), (
    'dict: entity 1 is listed without components, but the loaded world has '
    f'{world.get_components(1)} under identifier 1')

# 2. JSON file form, the clash does not need the id to be the first one
sys.modules['found2_types'] = sys.modules[__name__]
description = {'entities': [
    {'id': 1, 'components': [{'type': 'found2_types.B'}]},
    {'id': 2},                                      # no components at all
    {'components': [{'type': 'found2_types.A'}]},
]}
filename = os.path.join(tempfile.mkdtemp(), 'w.json')
with open(filename, 'w') as fout:
    json.dump(description, fout)

world = desper.WorldFromFileHandle(filename)()
assert world.get_components(2) == (), (
    'file: entity 2 is listed without components, but the loaded world has '
    f'{world.get_components(2)} under identifier 2')
print('ok')

"""${dotted.name} naming a str that looks like $res{..}/$handle{..} is
resolved a second time: the component does not receive the named object."""
import json
import os
import sys
import tempfile
import types

sys.path.insert(0, os.getcwd())
import desper  # NOQA

# An importable module holding two plain strings
mod = types.ModuleType('found1_constants')
mod.TEMPLATE = '$res{secret}'           # eg. a help text / format template
mod.TEMPLATE2 = '$handle{secret}'
sys.modules['found1_constants'] = mod


class Comp:
    def __init__(self, *args, **kwargs):
        self.args = args
        self.kwargs = kwargs


mod.Comp = Comp


class Value(desper.Handle):
    def load(self):
        return 42


description = {'entities': [{'components': [
    {'type': 'found1_constants.Comp',
     'args': ['${found1_constants.TEMPLATE}'],
     'kwargs': {'k': '${found1_constants.TEMPLATE2}'}}]}]}

filename = os.path.join(tempfile.mkdtemp(), 'w.json')
with open(filename, 'w') as fout:
    json.dump(description, fout)

root = desper.ResourceMap()
root['secret'] = Value()
root['w'] = desper.WorldFromFileHandle(filename)
world = root['w']

(_, comp), = world.get(Comp)
assert comp.args[0] is mod.TEMPLATE, (
    '${found1_constants.TEMPLATE} must be replaced by the named Python '
    f'object {mod.TEMPLATE!r}, the component received {comp.args[0]!r}')
assert comp.kwargs['k'] is mod.TEMPLATE2, (
    '${found1_constants.TEMPLATE2} must be replaced by the named Python '
    f'object {mod.TEMPLATE2!r}, the component received {comp.kwargs["k"]!r}')
print('ok')

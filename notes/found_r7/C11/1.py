"""Implicit intermediate maps ignore the split_char of the map that made them.

With a root whose delimiter is '.', the component 'b/c' is one plain
name.  root['a.b/c'] stores it below an implicitly created map 'a', but
that map is a bare ResourceMap splitting on '/', so root['a']['b/c'] (and
root.get('a').get('b/c')) cannot find what root['a.b/c'] finds.
"""
import sys
sys.path.insert(0, '.')

import desper                                        # noqa: E402
from desper import ResourceMap, Handle               # noqa: E402


class H(Handle):
    def __init__(self, value):
        self.value = value

    def load(self):
        return self.value


def scenario(root):
    h = H('payload')
    root['a.b/c'] = h                 # components: 'a', 'b/c'

    assert list(root.maps) == ['a'], list(root.maps)
    assert root.get('a.b/c') is h
    assert root['a.b/c'] == 'payload'

    implicit = root.get('a')
    assert implicit.parent is root and implicit.key == 'a'
    assert h.parent is implicit and h.key == 'b/c'

    # The same resource, one level at a time
    stepwise = implicit.get('b/c')
    assert stepwise is h, (
        "root.get('a.b/c') finds the handle but root.get('a').get('b/c') "
        f"returns {stepwise!r}: the implicit map splits on "
        f"{implicit.split_char!r}, its creator on {root.split_char!r}")
    assert root['a']['b/c'] == 'payload'


class DotMap(ResourceMap):
    split_char = '.'


# delimiter chosen by a subclass ...
scenario(DotMap())

# ... or on one instance
root = ResourceMap()
root.split_char = '.'
scenario(root)
print('ok')

"""clear() decides "is this child mine?" with == instead of identity.

A ResourceMap subclass with value-based equality (same content -> equal) is
enough for clear() on one map to detach a handle that lives on, correctly
linked, in a sibling map with equal content.
"""
import sys
sys.path.insert(0, '.')

import desper                                        # noqa: E402
from desper import ResourceMap, Handle               # noqa: E402


class H(Handle):
    def load(self):
        return 'payload'


class ValueMap(ResourceMap):
    """Maps holding the same resources under the same names are equal."""

    def __eq__(self, other):
        if not isinstance(other, ResourceMap):
            return NotImplemented
        return (dict(self.handles) == dict(other.handles)
                and list(self.maps.items()) == list(other.maps.items()))

    __hash__ = ResourceMap.__hash__


root = ResourceMap()
left, right = ValueMap(), ValueMap()
root['left'] = left
root['right'] = right

h = H()
left['h'] = h
right['h'] = h              # latest assignment: h records right / 'h'
assert h.parent is right and h.key == 'h'

left.clear()                # h is no longer in left, still in right

assert root.get('left/h') is None
assert root.get('right/h') is h and root['right/h'] == 'payload'
assert h.parent is right and h.key == 'h', (
    "h is still reachable as root['right/h'] and recorded right/'h' before "
    f"left.clear(), yet now h.parent={h.parent!r}, h.key={h.key!r}: "
    "clear() compared h.parent == left by value and detached it")
print('ok')

"""[] raises KeyError although get() does not return its default.

[] loads the handle it finds, so a KeyError escaping Handle.load() (a loader
indexing a dict / an archive / another ResourceMap for something missing)
is indistinguishable from "no such resource", while get() finds the handle.
"""
import sys
sys.path.insert(0, '.')

import desper                                        # noqa: E402
from desper import ResourceMap, Handle               # noqa: E402

ATLAS = {'hero': 'hero.png'}


class AtlasHandle(Handle):
    def __init__(self, name):
        self.name = name

    def load(self):
        return ATLAS[self.name]         # KeyError for an unknown sprite


m = ResourceMap()
m['sprites/hero'] = AtlasHandle('hero')
m['sprites/ghost'] = AtlasHandle('ghost')
assert m['sprites/hero'] == 'hero.png'

missing = object()
found = m.get('sprites/ghost', missing)
try:
    m['sprites/ghost']
    raised = False
except KeyError:
    raised = True

assert raised == (found is missing), (
    f"m['sprites/ghost'] raised KeyError: {raised}, but "
    f"m.get('sprites/ghost', default) returned {found!r}, not the default")
print('ok')

"""process() finalises a deferred deletion one component at a time, keeping
the half-dismantled entity inside the world while on_remove callbacks run.

(a) a callback that merely queries the world sees the queries disagree;
(b) a callback that calls world.clear() (game over -> reset) makes the
    library raise KeyError and leaves the world inconsistent for good.
The same callbacks work fine with delete_entity(..., immediate=True).
"""
import sys
sys.path.insert(0, '.')
import desper

problems = []
seen = []


class Body:
    pass


@desper.event_handler('on_remove')
class GameOver:
    reset = False

    def on_remove(self, entity, world):
        listed = [c for _, c in world.get(GameOver)]
        owned = [c for c in world.get_components(entity)
                 if isinstance(c, GameOver)]
        seen.append((listed, owned, world.has_component(entity, GameOver)))
        if self.reset:
            world.clear()


def consistent(world, ids):
    for t in (GameOver, Body):
        listed = sorted(id(c) for _, c in world.get(t))
        owned = sorted(id(c) for e in ids for c in world.get_components(e)
                       if isinstance(c, t))
        if listed != owned:
            return (f'get({t.__name__}) lists {len(listed)} component(s), '
                    f'get_components() finds {len(owned)}')


# (a) read-only callback
w = desper.World()
player = w.create_entity(GameOver(), Body())
w.delete_entity(player)
w.process()
listed, owned, has = seen[-1]
if len(listed) != len(owned) or has != bool(listed):
    problems.append(
        f'(a) inside on_remove during process(): get(GameOver)={listed} but '
        f'get_components(entity) still owns {owned}, has_component={has}')

# (b) callback resets the world
w = desper.World()
over = GameOver()
over.reset = True
player = w.create_entity(over, Body())
other = w.create_entity(Body())
w.delete_entity(player)
try:
    w.process()
except KeyError as ex:
    problems.append(f'(b) process() raised KeyError({ex}) although no '
                    'callback raised')
bad = consistent(w, (player, other))
if bad:
    problems.append('(b) afterwards: ' + bad)
try:
    w.clear()
except KeyError as ex:
    problems.append(f'(b) and every later clear() raises KeyError({ex})')

# (c) no exception at all: another entity keeps the type index alive, the
# callback resets the world and builds the next level; automatic ids restart
# at 1 after clear(), so the new entity gets the id of the one being
# dismantled and process() then tears the NEW entity out of _entities only


class Extra:
    pass


@desper.event_handler('on_remove')
class Restart:
    armed = False

    def on_remove(self, entity, world):
        if self.armed:
            self.armed = False
            world.clear()
            made.append(world.create_entity(Body(), Extra()))


made = []
w = desper.World()
restart = Restart()
restart.armed = True
player = w.create_entity(restart, Body())
w.create_entity(Restart(), Body())
w.delete_entity(player)
w.process()                                     # does not raise
try:
    listed = w.get(Extra)
    if len(listed) != sum(isinstance(c, Extra)
                          for c in w.get_components(made[0])):
        problems.append(f'(c) get(Extra)={listed} but get_components('
                        f'{made[0]})={w.get_components(made[0])}')
except KeyError as ex:
    problems.append(f'(c) process() returned normally, then get(Extra) '
                    f'raises KeyError({ex}); entities={w.entities}')

assert not problems, '\n'.join(problems)

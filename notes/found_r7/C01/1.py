"""A deferred delete_entity() of an entity that does not exist is accepted
silently, is remembered forever, and (a) makes the next process() raise
KeyError, (b) strikes whatever entity is later created under that id,
including an automatically numbered one."""
import sys
sys.path.insert(0, '.')
import desper


class A:
    pass


problems = []

# (a) the request is accepted (immediate=True raises KeyError here, as the
# docstring promises) and blows up in the next process()
w = desper.World()
try:
    w.delete_entity(5)
except KeyError:
    pass        # documented behaviour, would be fine
else:
    try:
        w.process()
    except KeyError as ex:
        problems.append(f'process() raised KeyError({ex}) because of a '
                        'deferred deletion of an entity that never existed')

# (b) the stale request hits a brand new entity (automatic identifier)
w = desper.World()
try:
    w.delete_entity(1)          # nothing has been created yet
except KeyError:
    pass
e = w.create_entity(A())        # automatic id, a fresh entity
if not w.entity_exists(e) or e not in w.entities:
    problems.append(
        f'fresh entity {e} owns {w.get_components(e)} and nobody asked to '
        f'delete it, yet entity_exists={w.entity_exists(e)}, '
        f'entities={w.entities}, get(A)={w.get(A)}')
w.process()
if not w.get_components(e):
    problems.append(f'fresh entity {e} was destroyed by process()')

# (c) same thing with an entity that vanished by losing its last component
w = desper.World()
w.add_component('hero', A())
w.remove_component('hero', A)           # entity is gone
try:
    w.delete_entity('hero')             # does not exist: should raise
except KeyError:
    pass
w.add_component('hero', A())            # a new entity
if not w.entity_exists('hero'):
    problems.append("new entity 'hero' is born awaiting deletion")

assert not problems, '\n'.join(problems)

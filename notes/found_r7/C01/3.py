"""Type queries ignore subclass relations that are not recorded in
type.__subclasses__(): ABC registrations and __subclasshook__ (numbers.*,
collections.abc.*, user ABCs).  issubclass(type(c), T) is True, yet get(T),
has_component and get_component do not find the component."""
import sys
sys.path.insert(0, '.')
import abc
import collections.abc
import numbers

import desper

problems = []


class Drawable(abc.ABC):
    pass


class Sprite:                   # third party class, cannot inherit
    pass


Drawable.register(Sprite)

w = desper.World()
sprite = Sprite()
e = w.create_entity(sprite, 5, [1, 2])

for base, component in ((Drawable, sprite), (numbers.Number, 5),
                        (numbers.Integral, 5),
                        (collections.abc.Sequence, [1, 2])):
    assert issubclass(type(component), base)    # Python agrees: a subclass
    listed = w.get(base)
    if not any(c is component for _, c in listed):
        problems.append(f'get({base.__name__}) = {listed}, misses '
                        f'{component!r} owned by entity {e}')
    if not w.has_component(e, base):
        problems.append(f'has_component({e}, {base.__name__}) is False')
    if w.get_component(e, base) is not component:
        problems.append(f'get_component({e}, {base.__name__}) = '
                        f'{w.get_component(e, base)!r}')

assert not problems, '\n'.join(problems)

"""World.clear() forgets a deferred deletion requested while it runs.

An on_remove callback that fires during clear() (for entity 'A') creates
a brand new entity 'C' and asks for its deferred deletion. clear() only
walks a snapshot of the entities, so 'C' survives it, but the final
``self._dead_entities.clear()`` throws the request for 'C' away: the
entity that had stopped existing exists again, and no later process()
ever removes its components.
"""
import sys
sys.path.insert(0, '.')

import desper  # noqa: E402


class Plain:
    pass


@desper.event_handler('on_remove')
class Spawner:
    def on_remove(self, entity, world):
        # legal re-entry: works on ANOTHER entity than the one being removed
        world.create_entity(Plain(), entity_id='C')
        world.delete_entity('C')                    # 'C' exists here
        assert not world.entity_exists('C')
        assert 'C' not in world.entities


world = desper.World()
world.create_entity(Spawner(), entity_id='A')
world.clear()

# The components of 'C' are still there (clear() did not reach them) ...
assert world.get_components('C'), 'nothing to check: C was cleared'
# ... so, per C05, 'C' must still be pending deletion:
assert not world.entity_exists('C'), (
    'C05: entity C was deleted with delete_entity() while it existed, '
    'but it exists again after clear()')

for _ in range(3):
    world.process()
assert world.get(Plain) == [], (
    'C05: the components of the deleted entity C survive every process()')

"""A deletion requested during the reaping pass is sometimes applied at once.

While process() reaps entity 1, its on_remove callback finishes off entity 2
(also pending), re-creates BOTH ids 2 and 3 as new entities and requests the
deferred deletion of both. The two requests are made at the same moment, on
entities that exist, so both should be applied "at the start of the next
process()". Entity 3 is; entity 2 is reaped by the very pass that is running,
because its id is still in the snapshot that pass iterates.
"""
import sys
sys.path.insert(0, '.')

import desper  # noqa: E402


class Plain:
    pass


class New:
    pass


@desper.event_handler('on_remove')
class Respawn:
    def on_remove(self, entity, world):
        # other entities than the one being processed (1)
        world.delete_entity(2, immediate=True)
        world.create_entity(New(), entity_id=2)
        world.create_entity(New(), entity_id=3)
        world.delete_entity(2)      # exists -> deferred to the NEXT process
        world.delete_entity(3)      # exists -> deferred to the NEXT process


seen = []


class Spy(desper.Processor):
    def process(self, dt):
        seen.append(sorted(e for e, _ in self.world.get(New)))


world = desper.World()
world.add_processor(Spy())
world.create_entity(Respawn(), entity_id=1)     # ints: 1 is reaped before 2
world.create_entity(Plain(), entity_id=2)
world.delete_entity(1)
world.delete_entity(2)

world.process()     # frame N: reaps 1 (and the old 2, through the callback)
world.process()     # frame N + 1: reaps the new 2 and 3

assert seen[1] == [], seen
assert seen[0] == [2, 3], (
    'C05: entities 2 and 3 were both deleted (deferred) during frame N, so '
    'their components are to be removed at the start of frame N+1; the '
    f'processors of frame N saw the components of {seen[0]} only')

"""C12: an access made while the handle is loading runs load() a second time,
and the two loads leave two different "the" resources around.

Run from the worktree root:  /venv/bin/python FOUND/1.py
"""
import sys
import os
sys.path.insert(0, os.getcwd())

import desper                                           # noqa: E402


class Level:
    """Any resource; built from other resources of the same tree."""

    def __init__(self, home):
        self.home = home


class LevelHandle(desper.Handle):
    """Loader whose product looks a resource up in the tree while being built.

    The first time the lookup happens to lead back to this very handle (the
    "home" level of the first level is itself).  The loader protects itself
    against endless recursion, which is all a user can do.
    """

    def __init__(self, resource_map, home_key):
        self.resource_map = resource_map
        self.home_key = home_key
        self.loads = 0
        self.building = False

    def load(self):
        self.loads += 1
        if self.building:               # second, nested run: plain level
            return Level(home=None)
        self.building = True
        try:
            # Goes through ResourceMap.__getitem__ -> Handle.__call__
            try:
                home = self.resource_map[self.home_key]
            except RuntimeError:    # a library that refuses the nested access
                home = self         # would be fine too; nothing was loaded
            return Level(home=home)
        finally:
            self.building = False


resources = desper.ResourceMap()
handle = LevelHandle(resources, 'levels/first')
resources['levels/first'] = handle

first = resources['levels/first']            # access 1 (nested access 2 inside)
nested = first.home                          # what access 2 returned
again = handle()                             # access 3
static = resources.get_static_map().levels.first   # access 4

# No clear() anywhere in this script.
assert again is first and static is first    # holds: the outer result won

assert nested is first or nested is handle, (
    'two accesses without a clear() in between returned different objects: '
    f'the nested access got {nested!r}, every later access gets {first!r}')

assert handle.loads == 1, (
    f'load() ran {handle.loads} times although clear() was never called')

"""C12: a clear() issued while the handle is loading is lost.

The value produced by the load that was already running is cached as if the
clear() had never happened: `cached` is True and the next access does not
load afresh, so the stale resource is served for ever.

Run from the worktree root:  /venv/bin/python FOUND/2.py
"""
import sys
import os
sys.path.insert(0, os.getcwd())

import desper                                           # noqa: E402

SOURCE = {'text': 'old'}            # stands for a file on disk


class TextHandle(desper.Handle):
    """Reads SOURCE; a hook runs while the resource is being built."""

    def __init__(self):
        self.loads = 0
        self.hook = None

    def load(self):
        self.loads += 1
        text = SOURCE['text']       # the "file" is read here ...
        if self.hook is not None:   # ... and user code runs before returning
            hook, self.hook = self.hook, None
            hook()
        return [text]


resources = desper.ResourceMap()
handle = TextHandle()
resources['texts/motd'] = handle


def source_changed():
    """What an editor/hot-reload callback does: new data, drop the cache."""
    SOURCE['text'] = 'new'
    handle.clear()                  # public API, must invalidate


handle.hook = source_changed
value = resources['texts/motd']     # access; clear() happens during its load

# clear() was the last operation on the handle's cache that the program
# asked for, so by the statement: cached is False and the next access loads.
assert not handle.cached, (
    'clear() was called after the data had been read, but cached is True: '
    'the next access will not load')

value2 = resources['texts/motd']
assert value2 == ['new'] and handle.loads == 2, (
    f'after clear() the next access returned the stale {value2!r} '
    f'(loads={handle.loads}) instead of loading afresh')

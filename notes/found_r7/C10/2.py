"""A World is a handler of itself, and its own dispatcher keeps it alive:
dropping the last program reference does not release it (nor any component
it owns) until a cyclic garbage collection happens - never, for programs
that run with gc.disable() to avoid collection pauses, as games often do."""
import gc
import sys
import weakref

sys.path.insert(0, '.')
import desper     # noqa: E402

gc.collect()
gc.disable()        # legal, common in frame-based programs

finalized = []


@desper.event_handler('on_update')
class Component:
    def on_update(self, dt):
        pass

    def __del__(self):
        finalized.append('component')


world = desper.World()
world.create_entity(Component())     # a component only the world references
world_ref = weakref.ref(world)

# Control: a handler registered in a dispatcher is released at once
dispatcher = desper.EventDispatcher()
handler = Component()
dispatcher.add_handler(handler)
handler_ref = weakref.ref(handler)
del handler
assert handler_ref() is None, 'plain handler kept alive by its dispatcher'
finalized.clear()

# The program drops its last reference to the world
del world

problems = []
if world_ref() is not None:
    holders = [type(r).__name__ for r in gc.get_referrers(world_ref())]
    problems.append('the World (a handler registered in itself) is still '
                    f'alive after its last reference was dropped, held by '
                    f'{holders}')
if finalized != ['component']:
    problems.append('the component only that world referenced was not '
                    'released either')

gc.enable()
assert not problems, '; '.join(problems)
print('ok')

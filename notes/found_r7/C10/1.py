"""add_handler with an unhashable callback object registers the handler
half-way: it raises, yet the handler keeps receiving the events resolved
before the failure, cannot be removed, and after its death its entry
stays in the dispatcher forever."""
import gc
import sys
from dataclasses import dataclass

sys.path.insert(0, '.')
import desper     # noqa: E402


@dataclass                      # eq=True -> __hash__ is None
class Action:
    """A perfectly ordinary callable class attribute."""
    tag: str = 'x'

    def __call__(self, handler, *args):
        handler.calls.append(self.tag)


@desper.event_handler('first', 'second')
class Handler:
    def __init__(self):
        self.calls = []

    def first(self):
        self.calls.append('first')

    second = Action()


dispatcher = desper.EventDispatcher()
handler = Handler()

try:
    dispatcher.add_handler(handler)
    registered = True
except TypeError:
    registered = False

problems = []
if not registered:
    # The registration failed: nothing of it may be left behind
    if dispatcher.is_handler(handler):
        problems.append('is_handler is True after a failed add_handler')
    dispatcher.dispatch('first')
    if handler.calls:
        problems.append(
            f'handler called {handler.calls} although add_handler raised '
            'and is_handler() is False')
    dispatcher.remove_handler(handler)
    handler.calls.clear()
    dispatcher.dispatch('first')
    if handler.calls:
        problems.append('remove_handler does not get rid of it')

    del handler
    gc.collect()
    stale = [entry for entries in dispatcher._events.values()
             for entry in entries if entry[0]() is None]
    if stale:
        problems.append(
            f'{len(stale)} entry of the dead handler is still registered')
else:
    # Registration accepted: both events must be delivered
    dispatcher.dispatch('first')
    dispatcher.dispatch('second')
    if handler.calls != ['first', 'x']:
        problems.append(f'wrong deliveries {handler.calls}')

assert not problems, '; '.join(problems)
print('ok')

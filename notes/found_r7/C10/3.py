"""While dispatching is disabled a World holds STRONG references to the
components whose on_add / on_remove it postponed. A component removed from
the world and dropped by the program stays alive inside the world, and is
called back (on_add, for an entity that no longer exists) after it is gone."""
import gc
import sys
import weakref

sys.path.insert(0, '.')
import desper     # noqa: E402

calls = []


@desper.event_handler('on_add', 'on_update')
class Component:
    def on_add(self, entity, world):
        calls.append(('on_add', entity, world.entity_exists(entity),
                      world.is_handler(self)))

    def on_update(self, dt):
        calls.append(('on_update',))


world = desper.World()
world.dispatch_enabled = False           # eg. a world that was switched out

component = Component()
entity = world.create_entity(component)
world.delete_entity(entity, immediate=True)     # the world lets it go ...
assert not world.is_handler(component)
assert world.entities == ()
component_ref = weakref.ref(component)
del component                                   # ... and so does the program
gc.collect()

problems = []
if component_ref() is not None:
    problems.append('the world keeps alive a handler that is neither one of '
                    'its components nor registered nor referenced by the '
                    'program')

world.dispatch_enabled = True
if calls:
    problems.append(f'and calls it after it is gone: {calls} '
                    '(name, entity, entity exists, is_handler)')

assert not problems, '; '.join(problems)
print('ok')

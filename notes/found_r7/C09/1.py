"""A coroutine whose cleanup code (finally) re-starts a sleeper ends up
queued twice when that cleanup runs while process() wakes the sleepers."""
import sys
import os
sys.path.insert(0, os.getcwd())

import desper                                               # noqa: E402
from desper.logic.coroutines import CoroutineProcessor      # noqa: E402
from desper.logic.coroutines import CoroutineState          # noqa: E402

proc = CoroutineProcessor()
runs = []


def sleeper():
    yield 2
    runs.append('step1')
    yield
    runs.append('step2')
    return 'done'


def guard(other):
    """When this coroutine goes away, make sure ``other`` is running."""
    try:
        yield 1
    finally:
        # coroutine body code: (re)start the sleeper if someone killed it
        if proc.state(other) == CoroutineState.TERMINATED:
            proc.start(other)


sleep_gen = sleeper()
guard_promise = proc.start(guard(sleep_gen))
proc.start(sleep_gen)
proc.process(0)                     # guard sleeps 1, sleeper sleeps 2

# kill both while they sleep (kill is lazy: they stay in the wait heap)
proc.kill(sleep_gen)
guard_promise.kill()
del guard_promise                   # nobody else keeps the guard alive

# Both waits elapse. The guard is dropped, its finally block runs at the
# moment the sleeper has just been popped from the heap and re-starts it.
try:
    proc.process(5)     # step1 (must run at most once in this frame)
    assert runs == ['step1'], f'frame 1 ran the sleeper body {runs}'
    proc.process(0)     # step2
    proc.process(0)     # returns
    proc.process(0)
except KeyError as error:
    raise AssertionError(
        f'process() failed on kill/start bookkeeping: {error!r}, '
        f'runs={runs}')
assert runs == ['step1', 'step2'], runs
assert proc.state(sleep_gen) == CoroutineState.TERMINATED
assert not proc._generators and not proc._promises
print('ok')

"""A huge (exactly representable, int) wait yielded while the processor's
timer happens to be a float makes process() raise OverflowError and leaves
the queue of active coroutines rotated wrongly for all later frames."""
import sys
import os
sys.path.insert(0, os.getcwd())

import desper                                               # noqa: E402
from desper.logic.coroutines import CoroutineProcessor      # noqa: E402
from desper.logic.coroutines import CoroutineState          # noqa: E402

proc = CoroutineProcessor()
log = []


def sleeper():
    yield 1
    log.append('sleeper awake')
    yield 10 ** 400             # "sleep forever", an exact int
    log.append('never')


def other_sleeper():
    yield 100


def ticker():
    while True:
        log.append('tick')
        yield


gen = sleeper()
proc.start(gen)
proc.start(other_sleeper())
proc.start(ticker())
proc.process(0)
log.clear()

# 1.5 is exactly representable; the timer becomes the float 1.5 because
# other_sleeper keeps the wait queue non-empty
try:
    proc.process(1.5)
except OverflowError as error:
    print('process raised', repr(error))
    # the frame was aborted: from now on frames skip active coroutines
    log.clear()
    proc.process(0)
    assert log == ['tick'], (
        f'process() raised OverflowError for a legal wait, and the next '
        f'frame ran {log} instead of one tick of the ticker')
    raise AssertionError('process() raised OverflowError for a legal wait')

assert proc.state(gen) == CoroutineState.PAUSED
assert log == ['sleeper awake', 'tick'], log
print('ok')

"""A decorated subclass stops inheriting its base's mapping: events added
to the base afterwards reach undecorated subclasses but not decorated
ones."""
import sys
import os

sys.path.insert(0, os.getcwd())

import desper  # noqa: E402

log = []


@desper.event_handler('a')
class Base:

    def a(self):
        log.append((type(self).__name__, 'a'))

    def late(self):
        log.append((type(self).__name__, 'late'))


class Undecorated(Base):
    pass


@desper.event_handler('b')
class Decorated(Base):

    def b(self):
        log.append((type(self).__name__, 'b'))


# The base learns a new event (class decorated again)
desper.event_handler('late')(Base)

dispatcher = desper.EventDispatcher()
handlers = [Base(), Undecorated(), Decorated()]
for handler in handlers:
    dispatcher.add_handler(handler)

dispatcher.dispatch('late')
received = sorted(name for name, _ in log)
assert received == ['Base', 'Decorated', 'Undecorated'], (
    f"'late' is mapped by Base, hence inherited by both subclasses, but it "
    f'was received only by {received}; Decorated.__events__ = '
    f'{Decorated.__events__}')

"""A handler removed by a callback keeps receiving the event being
dispatched (the listeners are snapshotted, only *dead* handlers are
skipped), even though it is no longer registered when it is called."""
import sys
import os

sys.path.insert(0, os.getcwd())

import desper  # noqa: E402

log = []
dispatcher = desper.EventDispatcher()


@desper.event_handler('hit')
class Listener:

    def __init__(self, tag):
        self.tag = tag

    def hit(self):
        # Was I registered when I got called?
        log.append((self.tag, dispatcher.is_handler(self)))
        # Whoever is called first removes everybody else
        for other in listeners:
            if other is not self:
                dispatcher.remove_handler(other)


listeners = [Listener(tag) for tag in range(4)]
for listener in listeners:
    dispatcher.add_handler(listener)

dispatcher.dispatch('hit')

unregistered_calls = [tag for tag, registered in log if not registered]
assert not unregistered_calls, (
    f'listeners {unregistered_calls} were called by dispatch() after '
    f'remove_handler() had returned for them (is_handler() was False '
    f'inside their own callback); full log: {log}')
assert len(log) == 1, log

"""A callback that is an unhashable callable leaves the handler
half-registered: add_handler raises, yet the handler keeps receiving the
events registered before the failure and can no longer be removed."""
import sys
import os

sys.path.insert(0, os.getcwd())

import desper  # noqa: E402

log = []


class Callback:
    """Callable class attribute with value equality (hence unhashable)."""

    def __init__(self, tag):
        self.tag = tag

    def __call__(self, handler, *args, **kwargs):
        log.append((self.tag, args, kwargs))

    def __eq__(self, other):
        return isinstance(other, Callback) and other.tag == self.tag


@desper.event_handler('first', 'second')
class Handler:

    def first(self, *args, **kwargs):
        log.append(('first', args, kwargs))

    second = Callback('second')


dispatcher = desper.EventDispatcher()
handler = Handler()

raised = None
try:
    dispatcher.add_handler(handler)
except TypeError as error:
    raised = error

if raised is None:
    # Registration accepted: both events must be delivered exactly once
    dispatcher.dispatch('first', 1)
    dispatcher.dispatch('second', 2, k=3)
    assert log == [('first', (1,), {}), ('second', (2,), {'k': 3})], log
    dispatcher.remove_handler(handler)
    dispatcher.dispatch('first', 4)
    assert len(log) == 2, log
    sys.exit(0)

# Registration refused: then the handler must not be registered at all
assert not dispatcher.is_handler(handler)
dispatcher.dispatch('first', 1)
assert log == [], (
    f'add_handler raised {raised!r} and is_handler() is False, but the '
    f'handler still received: {log}')
dispatcher.remove_handler(handler)
dispatcher.dispatch('first', 2)
assert log == [], f'a removed handler still received: {log}'

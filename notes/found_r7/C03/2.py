"""event_handler composes the new mapping with whatever getattr(cls,
'__events__') finds - including the mapping of the *metaclass*, which is
not a base of the decorated class."""
import sys
import os

sys.path.insert(0, os.getcwd())

import desper  # noqa: E402

log = []


@desper.event_handler('on_meta')
class Meta(type):
    """A handler class whose instances are classes."""

    def on_meta(cls, *args):
        log.append(('on_meta', cls.__name__, args))


@desper.event_handler('on_plain')
class Plain(metaclass=Meta):
    """Bases: object only. Its mapping shall be {'on_plain': 'on_plain'}"""

    def on_plain(self, *args):
        log.append(('on_plain', args))


dispatcher = desper.EventDispatcher()
plain = Plain()
dispatcher.add_handler(plain)

dispatcher.dispatch('on_plain', 1)
assert log == [('on_plain', (1,))], log

# No base of Plain maps 'on_meta': the instance shall receive nothing
# (Plain itself, the class, is not registered)
dispatcher.dispatch('on_meta', 2)
assert Plain.__events__ == {'on_plain': 'on_plain'}, (
    f'mapping of the metaclass leaked into the class: {Plain.__events__}')
assert log == [('on_plain', (1,))], (
    f'an event nobody listens to was delivered: {log[1:]}')

import sys, random
sys.path.insert(0, '.')
import desper
from fractions import Fraction

# differential tester: coroutines with scripted yields; ops between frames and
# from inside bodies: start / kill / restart. Reference model is time-based.

def run(seed):
    rnd = random.Random(seed)
    P = desper.CoroutineProcessor()
    log = []          # (frame, name) advanced
    N = rnd.randint(1, 6)
    scripts = {i: [rnd.choice([None, 0, -1, 1, 2, 3, 5, Fraction(1, 2), 4])
                   for _ in range(rnd.randint(0, 8))] for i in range(N)}
    acts = {i: {rnd.randint(0, 8): (rnd.choice('ksr'), rnd.randrange(N))
                for _ in range(rnd.randint(0, 3))} for i in range(N)}
    frame = [0]
    gens = {}

    touched = set()
    prev = [[]]
    def do(op, j):
        touched.add(j)
        g = gens[j]
        if g.gi_frame is None: return
        try:
            if op == 'k':
                P.kill(g); model_kill(j)
            elif op == 's':
                P.start(g); model_start(j)
            else:
                P.kill(g); model_kill(j); P.start(g); model_start(j)
        except ValueError:
            pass

    def body(i):
        for step, y in enumerate(scripts[i]):
            log.append((frame[0], i))
            a = acts[i].get(step)
            if a and gens[a[1]] is not gens[i]:
                do(*a)
            if y is not None and y > 0:
                status[i] = 'wait'; remaining[i] = y
            yield y
        log.append((frame[0], i))
        status[i] = 'dead'

    # model: status[i] in 'dead','run','wait'; wake[i] = remaining
    status = {i: 'dead' for i in range(N)}
    remaining = {}
    def model_kill(j):
        assert status[j] != 'dead'
        status[j] = 'dead'
    def model_start(j):
        assert status[j] == 'dead'
        status[j] = 'run'
        started_in_frame.add(j)
    started_in_frame = set()
    for i in range(N):
        gens[i] = body(i)
    for i in range(N):
        if rnd.random() < .8:
            P.start(gens[i]); status[i] = 'run'
    exp = []
    pos = {i: 0 for i in range(N)}
    for f in range(1, 30):
        frame[0] = f
        dt = rnd.choice([0, 1, 1, 2, Fraction(1, 2), 3])
        if rnd.random() < .2:
            do(rnd.choice('ksr'), rnd.randrange(N))
        started_in_frame.clear()
        # expected set: those runnable at frame begin or whose wait expires
        for i in range(N):
            if status[i] == 'wait':
                remaining[i] -= dt
                if remaining[i] <= 0:
                    status[i] = 'run'
        before = len(log)
        snapshot = {i for i in range(N) if status[i] == 'run'}
        P.process(dt)
        ran = [i for (_, i) in log[before:]]
        assert len(ran) == len(set(ran)), (seed, f, 'twice', ran)
        # model update by replaying: each that ran consumed one script item
        for i in ran:
            assert i in snapshot or i in started_in_frame, (seed, f, 'ran but not runnable', i, ran)
        for i in snapshot:
            if i not in ran:
                # acceptable only if killed during frame by someone
                assert status[i] == 'dead' or i in started_in_frame, \
                    (seed, f, 'not advanced', i, ran, status)
        stay = [i for i in ran if status[i] == 'run' and i not in touched]
        p = [i for i in prev[0] if i in stay]
        q = [i for i in ran if i in p]
        assert p == q, (seed, f, 'order', prev[0], ran)
        prev[0] = stay
        touched.clear()
        # cross-check states
        for i in range(N):
            st = P.state(gens[i])
            want = {'dead': 0, 'wait': 1, 'run': 2}[status[i]]
            assert st == want, (seed, f, 'state', i, st, status[i])

for s in range(int(sys.argv[1]) if len(sys.argv) > 1 else 20000):
    run(s)
print('ok')

"""A finished coroutine started again by a finalizer that runs while its
promise receives the return value: the next frame dies with KeyError and
the remaining coroutines lose that frame and the one after it."""
import sys
sys.path.insert(0, '')
import desper

P = desper.CoroutineProcessor()
log = []


def short():
    log.append('s')
    yield
    return 'done'


def ticker():
    while True:
        log.append('t')
        yield


g = short()


class Resource:
    """Placeholder result; when replaced by the real result, run g again."""

    def __del__(self):
        P.start(g)      # legal: g is TERMINATED at this point


promise = P.start(g)
promise.value = Resource()      # public attribute of the promise
P.start(ticker())

P.process(1)        # s, t
P.process(1)        # g ends; value replaced; Resource.__del__ restarts g
frames = []
for frame in range(3):
    log.clear()
    try:
        P.process(1)
        frames.append(list(log))
    except KeyError as e:
        frames.append('KeyError %r' % (e,))

assert all(f == ['t'] for f in frames), (
    'ticker must advance exactly once per frame; frames 3..5 gave %r'
    % (frames,))
print('ok')

"""A live, never removed handler silently stops receiving events.

The handler sits in a reference cycle and its finalizer keeps it alive
(a pool that recycles objects).  The cyclic collector clears weak
references BEFORE running finalizers, so the dispatcher forgets a handler
that goes on living and that nobody ever removed.
"""
import gc
import sys
sys.path.insert(0, '.')

import desper

received = []
pool = []


@desper.event_handler('on_tick')
class Pooled:

    def __init__(self):
        self.me = self              # any reference cycle will do

    def on_tick(self, *args):
        received.append(args)

    def __del__(self):
        pool.append(self)           # recycled, not destroyed


dispatcher = desper.EventDispatcher()
handler = Pooled()
dispatcher.add_handler(handler)
del handler
gc.collect()

handler = pool.pop()                # alive and well, never removed
dispatcher.dispatch('on_tick', 1)

assert dispatcher.is_handler(handler), (
    'a live handler that was added and never removed is no longer '
    'registered')
assert received == [(1,)], (
    f'registered live handler received {received} instead of [(1,)]')

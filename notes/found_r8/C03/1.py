"""event_handler makes a class inherit the event mapping of its METACLASS.

A metaclass may itself be a handler class (its instances - classes - are
the listeners, eg. a registry of plugin classes).  Decorating one of those
classes so that its *instances* listen too looks the inherited mapping up
with getattr(cls, '__events__'), which falls through to the metaclass.
"""
import sys
sys.path.insert(0, '.')

import desper

calls = []


@desper.event_handler('on_reload')
class Plugin(type):
    """Handler class whose listeners are classes."""

    def on_reload(cls, *args):
        calls.append(('Plugin.on_reload', cls, args))


@desper.event_handler('on_tick')
class Enemy(metaclass=Plugin):
    """Handler class whose listeners are plain instances."""

    def on_tick(self, *args):
        calls.append(('Enemy.on_tick', self, args))


# Plugin is not a base of Enemy (Enemy.__mro__ == (Enemy, object)), so
# Enemy's own mapping must be exactly what its decorator declared
assert Plugin not in Enemy.__mro__
mapping_ok = dict(Enemy.__events__) == {'on_tick': 'on_tick'}

dispatcher = desper.EventDispatcher()
enemy = Enemy()
dispatcher.add_handler(enemy)      # only the instance: the class is NOT added
assert not dispatcher.is_handler(Enemy)

dispatcher.dispatch('on_reload')   # nobody listens to this event

assert calls == [], (
    'dispatch("on_reload") called something although no registered handler '
    f'maps that event through its class or bases: {calls}')
assert mapping_ok, (
    f'Enemy inherited the mapping of its metaclass: {Enemy.__events__}')

"""switch() issued by the clean-up code (finally) of a killed coroutine:
on_switch_out is delivered and the running world is muted, but the loop never
leaves it (the SwitchWorld is swallowed when the processor lets go of the
generator)."""
import os
import sys

sys.path.insert(0, os.getcwd())
import desper  # noqa: E402

log = []
sys.unraisablehook = lambda info: log.append(
    ('swallowed', type(info.exc_value).__name__))


@desper.event_handler('on_switch_in', 'on_switch_out', 'ping')
class Listener:
    def __init__(self, tag):
        self.tag = tag

    def on_switch_in(self, a, b):
        log.append(('in', self.tag))

    def on_switch_out(self, a, b):
        log.append(('out', self.tag))

    def ping(self):
        log.append(('ping', self.tag))


class Named(desper.WorldHandle):
    def __init__(self, tag):
        super().__init__()
        self.tag = tag
        self.transform_functions.append(self.fill)

    def fill(self, handle, world):
        world.create_entity(Listener(self.tag))
        world.add_processor(Script(), 10)
        world.add_processor(desper.CoroutineProcessor(), 0)


def cutscene():
    try:
        while True:
            yield
    finally:
        # whenever the cutscene ends (also when skipped): go to the menu
        desper.switch(menu)


class Script(desper.Processor):
    frame = 0

    def process(self, dt):
        self.frame += 1
        log.append(('frame', self.world is level(), self.frame))
        coroutines = self.world.get_processor(desper.CoroutineProcessor)
        if self.world is menu():
            desper.quit_loop()
        if self.frame == 1:
            self.promise = coroutines.start(cutscene())
        elif self.frame == 2:
            self.promise.kill()           # skip the cutscene
            del self.promise
        elif self.frame == 4:
            self.world.dispatch('ping')
        elif self.frame == 5:
            desper.quit_loop()


level, menu = Named('level'), Named('menu')
desper.default_loop.switch(level)
desper.default_loop.start()

asked = ('out', 'level') in log
assert asked, log
assert desper.default_loop.current_world is menu(), (
    'switch(menu) was asked by a coroutine (on_switch_out was delivered) but '
    'the loop kept running the world that was left, with dispatching %s: %r'
    % ('on' if level().dispatch_enabled else 'OFF', log))

"""A switch requested by an event callback while a world file is being
resolved reaches the loop as SwitchWorld('<error text>'): the target handle
and the clear flags are lost and the loop dies instead of switching."""
import json
import os
import sys
import tempfile

sys.path.insert(0, os.getcwd())
import desper  # noqa: E402

log = []


@desper.event_handler('on_switch_in', 'on_switch_out', 'on_missing_save')
class Listener:
    def __init__(self, tag='?'):
        self.tag = tag

    def on_switch_in(self, a, b):
        log.append(('in', self.tag))

    def on_switch_out(self, a, b):
        log.append(('out', self.tag))

    def on_missing_save(self):
        # event callback asking for a switch: within the quantifier
        desper.switch(menu)


class Named(desper.WorldHandle):
    def __init__(self, tag):
        super().__init__()
        self.transform_functions.append(
            lambda h, w: w.create_entity(Listener(tag)))


class SaveHandle(desper.Handle):
    def load(self):
        # No save file: tell the running world about it
        desper.default_loop.current_world.dispatch('on_missing_save')
        return {}


class Once(desper.Processor):
    done = False

    def process(self, dt):
        if self.done:
            desper.quit_loop()
        self.done = True
        desper.switch(resources.get('level'))


class Quitter(desper.Processor):
    def process(self, dt):
        log.append('menu frame')
        desper.quit_loop()


tmp = tempfile.mkdtemp()
level_file = os.path.join(tmp, 'level.json')
with open(level_file, 'w') as f:
    json.dump({'entities': [{'components': [
        {'type': '__main__.Listener', 'args': ['$res{save}']}]}]}, f)

resources = desper.ResourceMap()
start, menu = Named('start'), Named('menu')
menu.transform_functions.append(lambda h, w: w.add_processor(Quitter()))
resources['start'] = start
resources['menu'] = menu
resources['save'] = SaveHandle()
resources['level'] = desper.WorldFromFileHandle(level_file)

start().add_processor(Once())
desper.default_loop.switch(start)
try:
    desper.default_loop.start()
except BaseException as ex:       # AssertionError, or TypeError under -O
    raise AssertionError(
        'switch(menu) asked by an event callback did not switch: the loop '
        'died with %s; log=%r; current handle is menu: %r' % (
            type(ex).__name__, log,
            desper.default_loop.current_world_handle is menu)) from None

assert desper.default_loop.current_world_handle is menu, log
assert log == [('out', 'start'), ('in', 'menu'), 'menu frame'], log

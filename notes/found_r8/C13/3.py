"""quit_loop() from an event callback released while a world is being entered:
after start() is called again the entered world runs, but its on_switch_in
(and the rest of its load-time backlog) is never delivered, and newer events
overtake it."""
import os
import sys

sys.path.insert(0, os.getcwd())
import desper  # noqa: E402

log = []


@desper.event_handler('on_switch_in', 'on_switch_out', 'on_world_load',
                      'ping')
class Listener:
    def __init__(self, tag):
        self.tag = tag

    def on_world_load(self, handle, world):
        log.append(('load', self.tag))
        if self.tag == 'B' and 'paused' not in log:
            log.append('paused')
            desper.quit_loop()          # eg. "pause" asked during loading

    def on_switch_in(self, a, b):
        log.append(('in', self.tag))

    def on_switch_out(self, a, b):
        log.append(('out', self.tag))

    def ping(self):
        log.append(('ping', self.tag))


class Script(desper.Processor):
    def process(self, dt):
        log.append(('frame', self.tag))
        if self.tag == 'A':
            desper.switch(hb)
        self.world.dispatch('ping')
        desper.quit_loop()


class Named(desper.WorldHandle):
    def __init__(self, tag):
        super().__init__()
        self.tag = tag
        self.transform_functions.append(self.fill)

    def fill(self, handle, world):
        world.create_entity(Listener(self.tag))
        script = Script()
        script.tag = self.tag
        world.add_processor(script)


ha, hb = Named('A'), Named('B')
loop = desper.default_loop
loop.switch(ha)
loop.start()            # A asks for B; B's on_world_load quits the loop
assert loop.current_world is hb() and not loop.running, log
log.append('restart')
loop.start()            # B, the entered world, runs a frame

tail = log[log.index('restart') + 1:]
assert ('frame', 'B') in tail, log
assert ('in', 'B') in log, (
    'B was entered through switch() and runs, but never got on_switch_in: '
    '%r; still queued in the running world: %r'
    % (log, [e[0] for e in hb()._event_queue]))
assert log.index(('in', 'B')) < log.index(('ping', 'B')), log

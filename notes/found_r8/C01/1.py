"""Type queries miss real subclasses whose metaclass customises mro().

X is in CM.__mro__ (so issubclass(CM, X) and isinstance(CM(), X) are true
through plain type.__subclasscheck__, no ABC registration involved), yet
X.__subclasses__() does not list CM because CPython fills that list from
__bases__ only.  World walks type.__subclasses__, so get(X),
has_component(e, X) and get_component(e, X) do not see the component,
while get(object) / get(CM) / get_components(e) do.
"""
import sys
sys.path.insert(0, '.')

import desper


class X:
    pass


class InjectX(type):
    """Documented hook: a metaclass may compute the MRO of its classes."""

    def mro(cls):
        return [cls, X, object]


class CM(metaclass=InjectX):
    pass


component = CM()
assert CM.__mro__ == (CM, X, object)
assert issubclass(CM, X) and isinstance(component, X)
assert type(CM).__subclasscheck__ is type.__subclasscheck__   # not virtual

world = desper.World()
entity = world.create_entity(component)

# these agree that the component is attached
assert world.get_components(entity) == (component,)
assert world.get(CM) == [(entity, component)]
assert world.get(object) == [(entity, component)]

# ... and these tell another story
assert world.get(X) == [(entity, component)], (
    f'get(X) = {world.get(X)!r}, but the attached component {component!r} '
    'is an instance of a (real) subclass of X')
assert world.has_component(entity, X), 'has_component(entity, X) is False'
assert world.get_component(entity, X) is component, 'get_component misses it'

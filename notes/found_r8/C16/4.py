"""Files whose path grows beyond PATH_MAX are dropped without a word."""
import os
import shutil
import sys
import tempfile

LIB = os.getcwd()
sys.path.insert(0, LIB)
import desper                                              # noqa: E402


class H(desper.Handle):
    def __init__(self, path):
        self.path = path


NAME = 'd' * 200
DEPTH = 24          # 24 * 201 characters > PATH_MAX (4096)

tmp = tempfile.mkdtemp()
try:
    # a perfectly legal finite tree: every component is short enough,
    # only the total length of the deepest paths exceeds PATH_MAX
    os.chdir(tmp)
    for level in range(DEPTH):
        os.mkdir(NAME)
        os.chdir(NAME)
        open(f'f{level}.txt', 'w').close()
    os.chdir(LIB)

    populator = desper.DirectoryResourcePopulator(tmp)
    populator.add_rule('', H)
    tree = desper.ResourceMap()
    populator(tree)          # no exception, no warning

    found, node = 0, tree
    for level in range(DEPTH):
        node = node.maps.get(NAME)
        if node is None:
            break
        found += f'f{level}.txt' in node.handles
    assert found == DEPTH, (
        f'only {found} of {DEPTH} files were added; the deeper part of the '
        'tree is silently missing from the map')
finally:
    os.chdir(LIB)
    shutil.rmtree(tmp, ignore_errors=True)
print('ok')

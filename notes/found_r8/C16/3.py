"""root='' (the current directory) with a rule for the root itself: nothing."""
import os
import sys
import tempfile

LIB = os.getcwd()
sys.path.insert(0, LIB)
import desper                                              # noqa: E402


class H(desper.Handle):
    def __init__(self, path):
        self.path = path


def populate(root, rule):
    populator = desper.DirectoryResourcePopulator(root)
    populator.add_rule(rule, H)
    tree = desper.ResourceMap()
    populator(tree)
    return tree


with tempfile.TemporaryDirectory() as tmp:
    os.mkdir(os.path.join(tmp, 'a'))
    open(os.path.join(tmp, 'a', 'f.txt'), 'w').close()
    open(os.path.join(tmp, 'top.txt'), 'w').close()
    os.chdir(tmp)
    try:
        # '' is the current directory for every os.path function the
        # populator uses (join, relpath); e.g. it is what
        # os.path.dirname('main.py') returns. A rule for a sub-directory works:
        assert isinstance(populate('', 'a').get('a/f.txt'), H)
        # ... and so does the same tree spelled '.':
        assert isinstance(populate('.', '').get('a/f.txt'), H)
        # but the rule for the root directory itself is silently skipped
        tree = populate('', '')
        assert isinstance(tree.get('a/f.txt'), H) and \
            isinstance(tree.get('top.txt'), H), (
            "root='' with rule '': existing directory treated as missing, "
            f"map is empty: maps={dict(tree.maps)} "
            f"handles={dict(tree.handles)}")
    finally:
        os.chdir(LIB)
print('ok')

"""A root map whose key delimiter is not '/' gets a flat, wrong structure."""
import os
import sys
import tempfile

sys.path.insert(0, os.getcwd())
import desper                                              # noqa: E402


class H(desper.Handle):
    def __init__(self, path):
        self.path = path

    def load(self):
        return self.path


class ColonMap(desper.ResourceMap):
    """Documented customisation: another delimiter for composite keys."""
    split_char = ':'


with tempfile.TemporaryDirectory() as root:
    os.makedirs(os.path.join(root, 'a', 'sub'))
    for rel in ('a/f.txt', 'a/sub/g.txt'):
        open(os.path.join(root, rel), 'w').close()

    populator = desper.DirectoryResourcePopulator(root)
    populator.add_rule('a', H)
    tree = ColonMap()
    populator(tree)

    a = tree.get('a')
    assert isinstance(a, desper.ResourceMap), 'directory a is no sub-map'
    # every directory on the way to a file is a sub-map and the file is
    # reachable by its relative path
    assert isinstance(a.get('sub'), desper.ResourceMap), (
        "directory a/sub is not a sub-map of a; root.maps has keys "
        f"{sorted(tree.maps)} and root.handles has keys "
        f"{sorted(tree.handles)}")
    assert isinstance(a.get('f.txt'), H), 'a/f.txt not reachable through a'
    assert isinstance(tree.get('a:sub:g.txt'), H), \
        'a/sub/g.txt not reachable under the composite key of this map'
print('ok')

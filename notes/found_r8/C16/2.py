"""A rule whose extension filter is a plain Container (no __len__) crashes."""
import os
import sys
import tempfile

sys.path.insert(0, os.getcwd())
import desper                                              # noqa: E402


class H(desper.Handle):
    def __init__(self, path):
        self.path = path


class TextLike:
    """A typing.Container[str]: membership only, no length, no iteration."""

    def __contains__(self, ext):
        return ext.lower() in ('.txt', '.md')


with tempfile.TemporaryDirectory() as root:
    os.mkdir(os.path.join(root, 'a'))
    for name in ('x.txt', 'y.png'):
        open(os.path.join(root, 'a', name), 'w').close()

    populator = desper.DirectoryResourcePopulator(root)
    # DirectoryPopulatorRule.file_exts is annotated Container[str]
    populator.rules.append(
        desper.DirectoryPopulatorRule('a', H, file_exts=TextLike()))
    tree = desper.ResourceMap()
    try:
        populator(tree)
    except TypeError as exc:
        raise AssertionError(
            f'population with a Container filter failed: {exc!r}') from exc

    assert isinstance(tree.get('a/x.txt'), H), 'accepted file not reachable'
    assert tree.get('a/y.png') is None, 'rejected file was added'
print('ok')

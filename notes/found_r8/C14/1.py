"""C14: the first frame after start() gets dt != 0 when the loop object
carries a stale last_timestamp (copy of a running loop / loop() called
directly before)."""
import copy
import os
import sys
sys.path.insert(0, os.getcwd())
import desper  # noqa: E402


class H(desper.Handle):
    def __init__(self, world):
        self.world = world

    def load(self):
        return self.world


dts = []
copies = []


class P(desper.Processor):
    frames = 0

    def process(self, dt):
        dts.append(dt)
        P.frames += 1
        if P.frames == 2:
            copies.append(copy.copy(loop))      # snapshot of a running loop
        if P.frames % 3 == 0:
            raise desper.Quit()


readings = iter(range(10, 10000, 7))
world = desper.World()
world.add_processor(P())
loop = desper.SimpleLoop(lambda: next(readings))
loop.switch(H(world))

loop.start()
assert dts == [0, 7, 7], dts

# (a) a copy taken while the original was running, started later
del dts[:]
twin = copies[0]
twin.start()
assert twin.running is False
first_a = dts[0]

# (b) same loop object: loop() used directly once (Quit reaches the caller),
# then a regular start()
try:
    loop.loop()
except desper.Quit:
    pass
del dts[:]
loop.start()
first_b = dts[0]

assert first_a == 0, \
    'copy of a running loop: first dt after start() is %r, not 0' % (first_a,)
assert first_b == 0, \
    'start() after a direct loop(): first dt is %r, not 0' % (first_b,)

"""C14: a Quit that is also a SwitchWorld does not stop the loop."""
import os
import sys
sys.path.insert(0, os.getcwd())
import desper  # noqa: E402


class H(desper.Handle):
    def __init__(self, world):
        self.world = world

    def load(self):
        return self.world


class QuitToMenu(desper.Quit, desper.SwitchWorld):
    """Application exception: quit now, remember where to resume."""


log = []


class PA(desper.Processor):
    def process(self, dt):
        log.append('A')
        raise QuitToMenu(handle_b)


class PB(desper.Processor):
    def process(self, dt):
        log.append('B')
        raise desper.Quit()


world_a, world_b = desper.World(), desper.World()
world_a.add_processor(PA())
world_b.add_processor(PB())
handle_a, handle_b = H(world_a), H(world_b)

readings = iter(range(100))
loop = desper.SimpleLoop(lambda: next(readings))
loop.switch(handle_a)
loop.start()

assert isinstance(QuitToMenu(handle_b), desper.Quit)
assert log == ['A'], \
    'a Quit was raised in the first frame but the loop went on: %r' % log
assert loop.current_world is world_a and \
    loop.current_world_handle is handle_a, \
    'Quit changed the current world / handle'

"""An exception raised between leaving the queue and reaching the first
callback (RecursionError at the call of dispatch) loses the event: it is
delivered zero times. BORDERLINE: needs an enable near the recursion limit."""
import sys
sys.path.insert(0, '.')
import desper

d = desper.EventDispatcher()
log = []


@desper.event_handler('ev')
class Listener:
    def ev(self, n):
        log.append(n)


h = Listener()
d.add_handler(h)


def enable_at_depth(n):
    if n:
        enable_at_depth(n - 1)
    else:
        d.dispatch_enabled = True


bad = []
base = sys.getrecursionlimit()
for depth in range(base - 60, base):
    log.clear()
    d.dispatch_enabled = False
    for i in range(3):
        d.dispatch('ev', i)
    try:
        enable_at_depth(depth)
    except RecursionError:
        pass
    d.dispatch_enabled = True       # plenty of stack now: release the rest
    assert not d._event_queue
    if log != [0, 1, 2]:
        bad.append((depth, list(log)))

assert not bad, ('events dispatched while disabled were never delivered '
                 '(depth, deliveries): %r' % bad)

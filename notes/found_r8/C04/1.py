"""A callback that disables dispatching does not stop the event it is part of:
the remaining listeners of that event run while dispatch_enabled is False."""
import sys
sys.path.insert(0, '.')
import desper

d = desper.EventDispatcher()
seen = []       # (listener, dispatch_enabled when the callback was entered)


@desper.event_handler('ev')
class Listener:
    def __init__(self, name):
        self.name = name

    def ev(self, n):
        seen.append((self.name, n, d.dispatch_enabled))
        d.dispatch_enabled = False      # nested disable during the release


a, b = Listener('a'), Listener('b')
d.add_handler(a)
d.add_handler(b)

d.dispatch_enabled = False
d.dispatch('ev', 1)
d.dispatch('ev', 2)
assert seen == []

d.dispatch_enabled = True               # release; first callback disables

ran_disabled = [s for s in seen if not s[2]]
assert not ran_disabled, (
    'callbacks ran while dispatching was disabled: %r (all calls: %r, '
    'still pending: %r)' % (ran_disabled, seen, d._event_queue))

"""A handler removed by a callback of the event being released still receives
that event: it is not registered at delivery time."""
import sys
sys.path.insert(0, '.')
import desper

d = desper.EventDispatcher()
calls = []      # (listener, is_handler when its callback was entered)


@desper.event_handler('ev')
class Listener:
    other = None

    def __init__(self, name):
        self.name = name

    def ev(self):
        calls.append((self.name, d.is_handler(self)))
        d.remove_handler(self.other)    # "will stop receiving all events"


a, b = Listener('a'), Listener('b')
a.other, b.other = b, a
d.add_handler(a)
d.add_handler(b)

d.dispatch_enabled = False
d.dispatch('ev')
d.dispatch_enabled = True               # release

unregistered = [c for c in calls if not c[1]]
assert not unregistered, (
    'event delivered to a handler that remove_handler() had already '
    'removed: %r (all calls: %r)' % (unregistered, calls))

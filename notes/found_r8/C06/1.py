"""remove_processor rejects a query type of the hierarchy that is not
itself derived from Processor (mixin base, abc.ABC, object), while
get_processor with the same type matches."""
import sys
import os
sys.path.insert(0, os.getcwd())

import desper


class Mixin:
    pass


class P(Mixin, desper.Processor):
    def process(self, dt=1):
        pass


failures = []
for query in (Mixin, object):
    world = desper.World()
    p = P()
    world.add_processor(p)
    assert world.get_processor(query) is p      # the query matches p
    try:
        removed = world.remove_processor(query)
    except AssertionError as e:
        failures.append(f'remove_processor({query.__name__}) raised '
                        f'AssertionError({e}) although '
                        f'get_processor({query.__name__}) matches')
        continue
    assert removed is p and world.processors == ()

assert not failures, '; '.join(failures)
print('ok')

"""Type queries follow __bases__ (type.__subclasses__), Python's subclass
relation follows the MRO.  A metaclass overriding mro() (legal, documented)
makes the two differ: queries then match non-subclasses / miss subclasses."""
import sys
import os
sys.path.insert(0, os.getcwd())

import desper


class A:
    pass


class B:
    pass


class Inject(type):
    def mro(cls):                   # A is in the MRO but not in __bases__
        return [cls, A, object]


class Drop(type):
    def mro(cls):                   # B is in __bases__ but not in the MRO
        return [cls, object]


class D(metaclass=Inject):
    pass


class E(B, metaclass=Drop):
    pass


world = desper.World()
d, x = D(), E()
ed = world.create_entity(d)
ex = world.create_entity(x)

assert issubclass(D, A) and isinstance(d, A)
assert not issubclass(E, B) and not isinstance(x, B)

errors = []
if not world.has_component(ed, A):
    errors.append('has_component misses D instance for query A '
                  '(issubclass(D, A) is True)')
if world.get_component(ed, A) is not d:
    errors.append('get_component misses D instance for query A')
if (ed, d) not in world.get(A):
    errors.append('get(A) misses D instance')
if world.has_component(ex, B):
    errors.append('has_component matches E instance for query B '
                  '(issubclass(E, B) is False)')
if world.get(B):
    errors.append('get(B) reports an object that is not an instance of B')
if world.remove_component(ex, B) is x:
    errors.append('remove_component(B) detached a non-instance of B')

assert not errors, '; '.join(errors)
print('ok')

"""Two processors of one exact type after a replacement.

The on_remove of the processor being replaced registers a third instance of
the same type (a different object, neither the one leaving nor the one
coming in). add_processor then inserts the incoming one without looking
again. Exits non-zero on the original tree.
"""
import os
import sys

sys.path.insert(0, os.getcwd())

import desper  # noqa: E402


@desper.event_handler('on_add', 'on_remove')
class Music(desper.Processor):
    fallback = None

    def __init__(self, name):
        self.name = name
        self.events = []
        self.frames = []

    def on_add(self):
        self.events.append('on_add')

    def on_remove(self):
        self.events.append('on_remove')
        # Never leave the world without music
        if self.fallback is not None:
            fallback, self.fallback = self.fallback, None
            self.world.add_processor(fallback)

    def process(self, dt):
        self.frames.append(dt)

    def __repr__(self):
        return f'Music({self.name})'


world = desper.World()
first, second, spare = Music('first'), Music('second'), Music('spare')
first.fallback = spare

world.add_processor(first)
world.add_processor(second)         # replaces first, whose on_remove adds spare

listed = world.processors
world.process(7)
called = [p for p in (first, second, spare) if p.frames]
gone = world.remove_processor(Music)
left = world.processors

errors = []
if sum(type(p) is Music for p in listed) != 1:
    errors.append(f'processors lists two of one exact type: {listed}')
if len(called) != 1:
    errors.append(f'one frame called {called}')
if spare.events == ['on_add'] and spare not in left:
    errors.append(f'{spare} left the world (processors == {left}) '
                  f'without on_remove: {spare.events}; removed was {gone}')

assert not errors, '; '.join(errors)
print('ok')

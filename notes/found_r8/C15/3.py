"""C15: $res{...} / $handle{...} naming a resource whose key contains a line
break are not replaced (the marker regexes use '.' without DOTALL).

Run from the worktree root: /venv/bin/python FOUND/3.py
"""
import sys
import os
sys.path.insert(0, os.getcwd())

import json
import tempfile
import types

import desper
from desper.model.world import WorldFromFileHandle


class Label:
    def __init__(self, *args):
        self.args = args


module = types.ModuleType('c15_nl')
module.Label = Label
sys.modules['c15_nl'] = module


class Const(desper.Handle):
    def __init__(self, value):
        self.value = value

    def load(self):
        return self.value


root = desper.ResourceMap()
handle = Const('TITLE')
root['texts/two\nlines'] = handle        # any string is a legal key
assert root['texts/two\nlines'] == 'TITLE'

filename = os.path.join(tempfile.mkdtemp(), 'world.json')
with open(filename, 'w') as fout:
    json.dump({'entities': [{'id': 1, 'components': [
        {'type': 'c15_nl.Label',
         'args': ['$res{texts.two\nlines}', '$handle{texts.two\nlines}']}
    ]}]}, fout)
root['worlds/w'] = WorldFromFileHandle(filename)

label = root['worlds/w'].get_component(1, Label)
assert label.args[0] == 'TITLE', (
    f'$res{{texts.two\\nlines}} was not replaced by the resource: '
    f'{label.args[0]!r}')
assert label.args[1] is handle, (
    f'$handle{{texts.two\\nlines}} was not replaced by the handle: '
    f'{label.args[1]!r}')
print('ok')

"""C15: the object named by ${...} is resolved a second time as $res{}/$handle{}.

Run from the worktree root: /venv/bin/python FOUND/1.py
"""
import sys
import os
sys.path.insert(0, os.getcwd())

import json
import tempfile
import types

import desper
from desper.model.world import WorldFromFileHandle

# An importable module with two string constants (eg. help texts that
# document the reference syntax itself)
consts = types.ModuleType('c15_consts')
consts.RES_HELP = '$res{texts.hello}'
consts.HANDLE_HELP = '$handle{texts.hello}'


class Label:
    def __init__(self, *args, **kwargs):
        self.args = args
        self.kwargs = kwargs


consts.Label = Label
sys.modules['c15_consts'] = consts


class Const(desper.Handle):
    def __init__(self, value):
        self.value = value

    def load(self):
        return self.value


filename = os.path.join(tempfile.mkdtemp(), 'world.json')
with open(filename, 'w') as fout:
    json.dump({'entities': [{'id': 'e', 'components': [
        {'type': 'c15_consts.Label',
         'args': ['${c15_consts.RES_HELP}'],
         'kwargs': {'text': '${c15_consts.HANDLE_HELP}'}}]}]}, fout)

root = desper.ResourceMap()
root['texts/hello'] = Const('HELLO')
root['worlds/w'] = WorldFromFileHandle(filename)

label = root['worlds/w'].get_component('e', Label)

assert label.args == (consts.RES_HELP,), (
    f'${{c15_consts.RES_HELP}} names the string {consts.RES_HELP!r}, '
    f'but the component was built with {label.args[0]!r}')
assert label.kwargs == {'text': consts.HANDLE_HELP}, (
    f'${{c15_consts.HANDLE_HELP}} names the string {consts.HANDLE_HELP!r}, '
    f'but the component was built with {label.kwargs["text"]!r}')
print('ok')

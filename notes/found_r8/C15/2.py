"""C15: a dotted name is resolved to a submodule even when, in Python, the
name denotes an attribute of the package (class re-exported under the name
of its own module).

Run from the worktree root: /venv/bin/python FOUND/2.py
"""
import sys
import os
sys.path.insert(0, os.getcwd())

import importlib
import json
import tempfile

import desper
from desper.model.world import WorldFromFileHandle

# A package in the "one class per file" style:
#   c15pkg/__init__.py :  from .Player import Player
#   c15pkg/Player.py   :  class Player: ...
base = tempfile.mkdtemp()
os.mkdir(os.path.join(base, 'c15pkg'))
with open(os.path.join(base, 'c15pkg', '__init__.py'), 'w') as fout:
    fout.write('from .Player import Player\n')
with open(os.path.join(base, 'c15pkg', 'Player.py'), 'w') as fout:
    fout.write('class Player:\n'
               '    def __init__(self, *args):\n'
               '        self.args = args\n')
sys.path.insert(1, base)

c15pkg = importlib.import_module('c15pkg')
assert isinstance(c15pkg.Player, type)      # c15pkg.Player IS the class

filename = os.path.join(base, 'world.json')
with open(filename, 'w') as fout:
    json.dump({'entities': [{'id': 1, 'components': [
        {'type': 'c15pkg.Player.Player',       # long way round, works
         'args': ['${c15pkg.Player}']}]}]}, fout)

root = desper.ResourceMap()
root['worlds/w'] = WorldFromFileHandle(filename)
player = root['worlds/w'].get_component(1, c15pkg.Player)

assert player.args[0] is c15pkg.Player, (
    f'${{c15pkg.Player}} names {c15pkg.Player!r} in Python, '
    f'but the component was built with {player.args[0]!r}')
print('ok')

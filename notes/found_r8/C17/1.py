"""A snapshot can be re-initialised: no raise, and its contents change."""
import sys
sys.path.insert(0, '.')
import desper


class H(desper.Handle):
    def __init__(self, value):
        self.value = value

    def load(self):
        return self.value


m = desper.ResourceMap()
old = H('old')
m['a'] = old
m['sub/k'] = H('k')
snap = m.get_static_map()
assert snap.a == 'old' and snap.get('a') is old

# The map moves on; a snapshot is supposed to stay what it was.
m['a'] = H('new')

problems = []
try:
    snap.__init__()                 # public member of the snapshot
except ValueError:
    pass                            # what an immutable object should do
if snap.get('a') is not old:
    problems.append('snap.__init__() rebound attribute a to %r'
                    % (snap['a'],))

snap2 = m.get_static_map()
try:
    desper.StaticResourceMap.__init__(snap2)
except ValueError:
    pass
if snap2['a'] != m['a']:
    problems.append('StaticResourceMap.__init__(snap) emptied _handle_names:'
                    ' snap["a"] is now the handle %r, not the resource %r'
                    % (snap2['a'], m['a']))

assert not problems, '; '.join(problems)
print('ok')

"""clear() called with dispatching ENABLED: an on_remove that switches
dispatching off makes every later on_remove of the same clear() vanish
(they are postponed, then the queue is wiped by clear() itself)."""
import sys
sys.path.insert(0, '.')
import desper

log = []


@desper.event_handler('on_add', 'on_remove')
class Plain:
    def on_add(self, entity, world):
        log.append(('add', entity))

    def on_remove(self, entity, world):
        log.append(('rem', entity))


class Pauser(Plain):
    def on_remove(self, entity, world):
        log.append(('rem', entity))
        world.dispatch_enabled = False      # e.g. "pause while tearing down"


world = desper.World()
world.create_entity(Pauser())       # entity 1
victim = Plain()
world.create_entity(victim)         # entity 2
assert world.dispatch_enabled

world.clear()                       # called while dispatching is enabled
world.dispatch_enabled = True       # nothing comes out either

assert world.get(Plain) == [] and not world.is_handler(victim)
assert ('rem', 2) in log, (
    f'component of entity 2 was detached by clear() but never got on_remove:'
    f' {log}')
print('ok')

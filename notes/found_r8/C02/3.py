"""create_entity(c, c): the same instance listed twice becomes attached
once but receives on_add twice (one on_remove later)."""
import sys
sys.path.insert(0, '.')
import desper

log = []


@desper.event_handler('on_add', 'on_remove')
class Comp:
    def on_add(self, entity, world):
        log.append('add')

    def on_remove(self, entity, world):
        log.append('rem')


world = desper.World()
comp = Comp()
components = [comp]
components.append(components[0])        # e.g. a prototype yielding it twice
entity = world.create_entity(*components)
assert world.get_components(entity) == (comp,)
world.delete_entity(entity, immediate=True)

assert log == ['add', 'rem'], (
    f'one attach / one detach of a single instance, callbacks seen: {log}')
print('ok')

"""Postponed lifecycle callbacks travel as an ordinary event addressed to
the world as a handler of itself: world.remove_handler(world) (or a sweep
that unregisters "every handler I know") silently loses all of them."""
import sys
sys.path.insert(0, '.')
import desper

log = []


@desper.event_handler('on_add', 'on_remove')
class Comp:
    def on_add(self, entity, world):
        log.append(('add', entity))

    def on_remove(self, entity, world):
        log.append(('rem', entity))


world = desper.World()
assert world.is_handler(world)          # visible through the public API
world.remove_handler(world)             # legal EventDispatcher operation

world.dispatch_enabled = False
entity = world.create_entity(Comp())
world.delete_entity(entity, immediate=True)
world.dispatch_enabled = True

assert log == [('add', entity), ('rem', entity)], (
    f'postponed on_add/on_remove were lost, not postponed: {log}')
print('ok')

"""create_entity: a sibling component is attached but not yet a listener
while an earlier sibling's on_add runs (and, symmetrically, is still a
listener after being detached while a sibling's on_remove runs)."""
import sys
sys.path.insert(0, '.')
import desper

heard = []
seen = {}


@desper.event_handler('ping')
class Listener:
    def ping(self):
        heard.append(self)


@desper.event_handler('on_add', 'on_remove')
class Talker:
    def on_add(self, entity, world):
        sibling = world.get_component(entity, Listener)
        seen['add'] = (sibling is not None, world.is_handler(sibling))
        world.dispatch('ping')

    def on_remove(self, entity, world):
        seen['rem'] = (world.get_components(entity),
                       world.is_handler(listener))
        world.dispatch('ping')


world = desper.World()
listener = Listener()
entity = world.create_entity(Talker(), listener)

attached, registered = seen['add']
assert attached, 'precondition: sibling is attached during on_add'
heard_on_add = list(heard)
heard.clear()

world.delete_entity(entity, immediate=True)
left, still_registered = seen['rem']

errors = []
if not registered or heard_on_add != [listener]:
    errors.append('create_entity: sibling attached (get_component finds it) '
                  f'but is_handler={registered}, heard ping={heard_on_add}')
if still_registered or heard:
    errors.append(f'delete_entity: sibling detached (components={left}) '
                  f'but is_handler={still_registered}, heard ping={heard}')
assert not errors, '; '.join(errors)
print('ok')

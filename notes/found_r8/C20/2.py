"""C20: copy.copy() of a transform shares the listener tables (and the
queue of postponed events) with the original: an assignment on one of the
two transforms notifies listeners that were added only to the other."""
import copy
import sys
sys.path.insert(0, '.')

import desper


@desper.event_handler('on_position_change')
class Listener:
    def __init__(self):
        self.seen = []

    def on_position_change(self, value):
        self.seen.append(value)


errors = []
for cls in desper.Transform2D, desper.Transform3D:
    a = cls()
    la = Listener()
    a.add_handler(la)

    b = copy.copy(a)            # a second, independent transform component
    lb = Listener()
    b.add_handler(lb)           # listener of b only

    p = (1, 2) if cls is desper.Transform2D else (1, 2, 3)
    a.position = p
    if b.position == p:
        errors.append(f'{cls.__name__}: the copy changed with the original')
    if lb.seen:
        errors.append(f'{cls.__name__}: listener added to the copy only was '
                      f'notified of an assignment on the original: {lb.seen}')
    if a.is_handler(lb):
        errors.append(f'{cls.__name__}: original.is_handler(listener of the '
                      'copy) is True')

    # postponed events of one leak out through the other
    la.seen.clear(); lb.seen.clear()
    b.remove_handler(lb)
    a.dispatch_enabled = False
    a.position = p
    b.dispatch_enabled = False      # b was "enabled": nothing to release,
    b.dispatch_enabled = True       # yet this releases a's postponed event
    if la.seen:
        errors.append(f'{cls.__name__}: event postponed by the original '
                      f'released by enabling the copy: {la.seen}')

if errors:
    raise AssertionError('\n'.join(errors))
print('ok')

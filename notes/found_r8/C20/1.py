"""C20: a negative 2D rotation given as decimal.Decimal is stored and
notified UNREDUCED (Decimal's % keeps the sign of the dividend)."""
import sys
sys.path.insert(0, '.')
from decimal import Decimal, InvalidOperation

import desper


@desper.event_handler('on_rotation_change')
class Listener:
    def __init__(self):
        self.seen = []

    def on_rotation_change(self, value):
        self.seen.append(value)


errors = []

# 1. setter
t = desper.Transform2D()
listener = Listener()
t.add_handler(listener)
t.rotation = Decimal(-30)           # exactly representable real, negative
if not (0 <= t.rotation < 360) or t.rotation != 330.0:
    errors.append(f'setter: rotation Decimal(-30) stored as {t.rotation!r}, '
                  'expected 330.0 (reduced modulo 360)')
if listener.seen != [330.0]:
    errors.append(f'setter: listener notified with {listener.seen!r}, '
                  'expected [330.0]')

# 2. constructor ("stored the same way")
t2 = desper.Transform2D(rotation=Decimal('-0.5'))
if t2.rotation != 359.5:
    errors.append(f'constructor: Decimal(-0.5) stored as {t2.rotation!r}, '
                  'expected 359.5')

# 3. negative zero survives as -0.0 (every other zero is stored as 0.0)
t.rotation = Decimal('-0')
if repr(t.rotation) != '0.0':
    errors.append(f'Decimal(-0) stored as {t.rotation!r}, expected 0.0')

# 4. a large Decimal cannot be assigned at all
try:
    t.rotation = Decimal(10) ** 40 + 5
    if t.rotation != float((10 ** 40 + 5) % 360):
        errors.append(f'10**40+5 stored as {t.rotation!r}')
except InvalidOperation as e:
    errors.append(f'Decimal(10**40 + 5) cannot be assigned: {e!r}')

if errors:
    raise AssertionError('\n'.join(errors))
print('ok')

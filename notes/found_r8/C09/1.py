"""A promise is orphaned by kill + start: it never gets the returned value.

Exits non-zero on the original tree.
"""
import sys
sys.path.insert(0, '.')
import desper                                           # noqa: E402
from desper import CoroutineProcessor, CoroutineState   # noqa: E402

proc = CoroutineProcessor()


def job():
    yield
    return 42


# --- case 1: killed from outside, started again before the next frame
gen = job()
promise = proc.start(gen)
proc.process(1)
promise.kill()
proc.start(gen)          # carries on from where it stopped
proc.process(1)          # generator returns 42

assert promise.generator is gen
assert promise.state == CoroutineState.TERMINATED
# its generator returned 42, its state is TERMINATED ...


def job2():
    yield
    # a coroutine that "resets" itself: no observable effect on its state
    proc.kill(gen2)
    proc.start(gen2)
    return 43


# --- case 2: the coroutine kills and re-starts itself during its last step
gen2 = job2()
promise2 = proc.start(gen2)
proc.process(1)
proc.process(1)
assert promise2.state == CoroutineState.TERMINATED

assert promise.value == 42 and promise2.value == 43, (
    'generator returned, promise is TERMINATED, but promise.value is '
    f'{promise.value!r} (expected 42) / {promise2.value!r} (expected 43)')

"""Non-generators whose __class__ reports GeneratorType are accepted.

start()/kill()/state() promise TypeError for non-generators, but the test is
inspect.isgenerator() == isinstance(), which honours a lying __class__:
proxies (wrapt-style, lazy objects) and unittest.mock.Mock(spec=<generator>)
pass it.  start() registers the object, state() says ACTIVE and every later
process() fails with TypeError (and never gets rid of the object).

Exits non-zero on the original tree.
"""
import sys
import unittest.mock
sys.path.insert(0, '.')
import desper                                           # noqa: E402
from desper import CoroutineProcessor, CoroutineState   # noqa: E402


def job():
    yield


class Proxy:
    """Transparent proxy: reports the class of what it wraps."""

    def __init__(self, target):
        self._target = target

    @property
    def __class__(self):
        return type(self._target)


problems = []
for name, fake in (('proxy', Proxy(job())),
                   ('Mock(spec=generator)', unittest.mock.Mock(spec=job()))):
    proc = CoroutineProcessor()
    other = job()
    proc.start(other)
    try:
        proc.start(fake)
    except TypeError:
        continue                      # what the contract promises
    problems.append(f'start({name}) accepted a non-generator, '
                    f'state={proc.state(fake)!r}')
    try:
        proc.process(1)
    except TypeError as error:
        problems.append(f'process() failed: {error}')

assert not problems, '; '.join(problems)

"""process() fails with KeyError: start() issued while the result is stored.

The finishing step of process() removes the generator from its tables, THEN
overwrites promise.value, THEN deletes the promise entry.  Code that runs when
the old promise.value is released (a placeholder object with a finaliser, a
weakref callback on it, ...) sees the coroutine as TERMINATED and may legally
start it again; process() then deletes the NEW promise entry, and the next
frame dies with KeyError in pure start/kill bookkeeping.

Exits non-zero on the original tree.
"""
import sys
sys.path.insert(0, '.')
import desper                                           # noqa: E402
from desper import CoroutineProcessor, CoroutineState   # noqa: E402

proc = CoroutineProcessor()


def job():
    yield
    return 5


gen = job()
seen = []


class Pending:
    """Placeholder shown by the UI until the result is in.

    When it is replaced by the real result, the job is queued again.
    """

    def __del__(self):
        seen.append(proc.state(gen))
        proc.start(gen)          # legal: the coroutine is TERMINATED


promise = proc.start(gen)
promise.value = Pending()
proc.process(1)
proc.process(1)                  # gen returns 5; Pending() is released

assert seen == [CoroutineState.TERMINATED], seen
assert promise.value == 5
assert proc.state(gen) == CoroutineState.ACTIVE      # started again: accepted

try:
    proc.process(1)              # the exhausted generator simply ends again
except KeyError as error:
    raise AssertionError(
        'process() failed because of start/kill bookkeeping: '
        f'KeyError({error})') from error
assert proc.state(gen) == CoroutineState.TERMINATED

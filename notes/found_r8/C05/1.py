"""add_component re-instates a deletion request that was fulfilled meanwhile.

A pending entity (two components) gets one component replaced; the
on_remove of the replaced component runs a frame (or clears the world).
That frame IS the "next process()": it removes the entity and frees the
identifier. add_component then attaches the new component to the free
identifier - and marks that brand new entity as dead again, although
nobody asked for its deletion after the request was fulfilled.
"""
import sys
sys.path.insert(0, '')
import desper


@desper.event_handler('on_remove')
class A:
    def __init__(self, action=None):
        self.action = action

    def on_remove(self, entity, world):
        if self.action is not None:
            self.action(world)


class B:
    pass


failures = []
for label, action in (('process()', lambda w: w.process()),
                      ('clear()', lambda w: w.clear())):
    world = desper.World()
    e = world.create_entity(A(action), B())
    world.delete_entity(e)              # entity exists here
    new = A()
    world.add_component(e, new)         # on_remove of the old A runs action

    # The request was fulfilled by the nested frame / wiped by clear():
    # the identifier was free, `new` founded a fresh entity
    if not world.entity_exists(e):
        failures.append(f'{label}: entity {e} re-founded by add_component '
                        'after its deletion was completed does not exist '
                        '(a fulfilled request came back)')
    world.process()
    if world.get_components(e) != (new,):
        failures.append(f'{label}: the following process() removed a '
                        'component of an entity nobody deleted: '
                        f'{world.get_components(e)}')

assert not failures, '\n'.join(failures)
print('ok')

"""C19 / Prototype: an init method whose name starts with two underscores
(custom ``init_prefix`` such as ``'__init_'``, or prefix ``'_'`` with a
private type ``_Bar``) is defined but never used: the component is
silently built by the default constructor instead.
"""
import sys
sys.path.insert(0, '')
import desper                                               # noqa: E402


class Foo:
    def __init__(self, tag='default-constructor'):
        self.tag = tag


class _Bar(Foo):
    pass


class Private(desper.Prototype):
    component_types = (Foo,)
    init_prefix = '__init_'          # "private" init methods

    def __init_Foo(self, component_type):
        return component_type('init-method')


class Under(desper.Prototype):
    component_types = (_Bar,)
    init_prefix = '_'                # '_' + '_Bar' == '__Bar'

    def __Bar(self, component_type):
        return component_type('init-method')


# The methods exist, and they are *named* init_prefix + type name
methods = {f.__name__ for f in vars(Private).values() if callable(f)}
assert Private.init_prefix + Foo.__name__ in methods, methods
methods = {f.__name__ for f in vars(Under).values() if callable(f)}
assert Under.init_prefix + _Bar.__name__ in methods, methods

# Same prototypes with a harmless prefix behave as documented
class Control(desper.Prototype):
    component_types = (Foo,)
    init_prefix = 'x__init_'

    def x__init_Foo(self, component_type):
        return component_type('init-method')


assert [c.tag for c in Control()] == ['init-method']

for proto in (Private, Under):
    tags = [c.tag for c in proto()]
    assert tags == ['init-method'], (
        f'{proto.__name__}: no init_methods entry, a method named '
        f'{proto.init_prefix + proto.component_types[0].__name__!r} is '
        f'defined, but the component was built by {tags}')
print('ok')

"""C19 / Controller: any broadcast of an event that happens to be called
``on_add`` (a very generic name: inventory, scene graph, ...) reaches every
attached Controller and silently overwrites what it knows about its entity
and world; every shorthand then works on the wrong entity / crashes.
"""
import sys
sys.path.insert(0, '')
import desper                                               # noqa: E402


class Health:
    pass


@desper.event_handler('on_add')
class Inventory:
    """Game code with its own idea of an ``on_add`` event."""
    items = ()

    def on_add(self, item, slot):
        self.items += ((item, slot),)


world = desper.World()
inventory = Inventory()
world.add_handler(inventory)

ctrl = desper.Controller()
entity = world.create_entity(ctrl, Health())
other = world.create_entity(Health())
assert (ctrl.entity, ctrl.world) == (entity, world)

# A second, unrelated entity id is used as payload so that the damage is
# silent; any two positional values do.
world.dispatch('on_add', other, world)
assert inventory.items == ((other, world),)

assert world.get_component(entity, desper.Controller) is ctrl, 'still attached'
assert ctrl.entity == entity and ctrl.world is world, (
    f'Controller attached to entity {entity!r} now believes it is entity '
    f'{ctrl.entity!r}: world.dispatch("on_add", ...) reached Controller.on_add')
assert ctrl.get_components() == world.get_components(entity)
print('ok')

"""ResourceMap.clear() decides "is this child mine?" with ``==`` instead
of ``is``: clearing one map detaches a resource that belongs to ANOTHER
map which merely compares equal (e.g. a dataclass ResourceMap subclass).
"""
import os
import sys
from dataclasses import dataclass

sys.path.insert(0, os.getcwd())
import desper                                           # NOQA
from desper import ResourceMap, Handle                  # NOQA


class Font(Handle):
    def load(self):
        return 'font'


@dataclass
class Level(ResourceMap):
    """A map with a little metadata; @dataclass generates a value __eq__."""
    music: str = 'theme.ogg'

    def __post_init__(self):
        super().__init__()


root = ResourceMap()
level1, level2 = Level(), Level()
root['level1'] = level1
root['level2'] = level2

font = Font()
level1['font'] = font
level2['font'] = font          # latest assignment: back-link -> level2/'font'
assert font.parent is level2 and font.key == 'font'

level1.clear()                 # level2 is not touched by this

assert root.get('level1/font') is None
assert root.get('level2/font') is font          # still reachable, one place only
assert root['level2/font'] == 'font'
assert font.parent is level2 and font.key == 'font', (
    'font is stored (only) in level2 under "font", but after clearing the '
    f'unrelated map level1 it records parent={font.parent!r}, '
    f'key={font.key!r}')
print('ok')

"""A resource stored in two places keeps ONE back-link (the latest place).
When that latest place lets go of it (clear() or overwrite), the resource
is still reachable at the older place but its back-link is None / points to
a map that does not contain it any more.  Plain ResourceMap/Handle only.
"""
import os
import sys

sys.path.insert(0, os.getcwd())
import desper                                           # NOQA
from desper import ResourceMap, Handle                  # NOQA


class H(Handle):
    def load(self):
        return 'res'


# --- variant 1: clear() of the latest container ---------------------------
root = ResourceMap()
h = H()
root['sprites/player'] = h
sprites = root.get('sprites')

root['favourites/quick'] = h            # an alias in the same tree
root.get('favourites').clear()          # ... dropped again

assert root.get('favourites/quick') is None
assert root.get('sprites/player') is h          # stored in exactly one place
msg1 = ('h is stored only at sprites/player but records '
        f'parent={h.parent!r}, key={h.key!r}')

# --- variant 2: overwrite at the latest place -----------------------------
root2 = ResourceMap()
g = H()
root2['a'] = g
root2['b/c'] = g
root2['b/c'] = H()                      # g is now stored only at root2['a']
assert root2.get('a') is g
msg2 = ('g is stored only at root2["a"] but records '
        f'parent is root2: {g.parent is root2}, key={g.key!r}')

assert h.parent is sprites and h.key == 'player', msg1
assert g.parent is root2 and g.key == 'a', msg2
print('ok')

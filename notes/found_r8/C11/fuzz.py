import sys, random
sys.path.insert(0, '.')
import desper
from desper import ResourceMap, Handle


class H(Handle):
    def __init__(self, v):
        self.v = v

    def load(self):
        return self.v


def reach(m, seen=None):
    """Yield (container, name, child) over everything reachable."""
    seen = seen if seen is not None else set()
    if id(m) in seen:
        return
    seen.add(id(m))
    for layer in m.handles.maps:
        for k, h in layer.items():
            yield m, k, h
    for k, s in m.maps.items():
        yield m, k, s
        yield from reach(s, seen)


def model_get(model, keys):
    cur = model
    for k in keys[:-1]:
        cur = cur[k]
        if not isinstance(cur, dict):
            raise KeyError(k)
    return cur[keys[-1]]


def model_set(model, keys, val):
    cur = model
    for k in keys[:-1]:
        if not isinstance(cur.get(k), dict):
            cur[k] = {}
        cur = cur[k]
    cur[keys[-1]] = val


def build(rng, depth=0):
    """random prepopulated map + its model"""
    m, mod = ResourceMap(), {}
    for _ in range(rng.randrange(3)):
        k = rng.choice(ALPHA)
        if depth < 2 and rng.random() < .4:
            s, smod = build(rng, depth + 1)
            m[k] = s
            mod[k] = smod
        else:
            if rng.random() < .3:
                m.handles.maps.insert(0, {})
            h = H(rng.random())
            m[k] = h
            mod[k] = h
    return m, mod


ALPHA = ['a', 'b', '', 'c', ' ', '.']


def check(root, model, rng):
    # back-links (skip children stored more than once)
    count = {}
    for c, k, ch in reach(root):
        count[id(ch)] = count.get(id(ch), 0) + 1
    for c, k, ch in reach(root):
        if count[id(ch)] == 1 and ch is not root:
            assert ch.parent is c and ch.key == k, (c, k, ch, ch.parent, ch.key)
    for _ in range(6):
        keys = [rng.choice(ALPHA) for _ in range(rng.randrange(1, 4))]
        key = '/'.join(keys)
        sentinel = object()
        try:
            exp = model_get(model, keys)
        except KeyError:
            exp = sentinel
        g = root.get(key, sentinel)
        try:
            v = root[key]
        except KeyError:
            v = sentinel
        assert (g is sentinel) == (v is sentinel), key
        assert (g is sentinel) == (exp is sentinel), (key, g, exp)
        if exp is not sentinel:
            if isinstance(exp, dict):
                assert isinstance(g, ResourceMap) and v is g
            else:
                assert g is exp and v == exp.v, key
            cur = root
            for k in keys:
                cur = cur[k]
            assert cur is v or cur == v


def run(seed):
    rng = random.Random(seed)
    root, model = ResourceMap(), {}
    objs = {id(root): model}
    for step in range(30):
        r = rng.random()
        keys = [rng.choice(ALPHA) for _ in range(rng.randrange(1, 4))]
        if r < .5:
            h = H(rng.random())
            root['/'.join(keys)] = h
            model_set(model, keys, h)
        elif r < .8:
            s, smod = build(rng)
            root['/'.join(keys)] = s
            model_set(model, keys, smod)
        else:
            try:
                tgt = model_get(model, keys)
            except KeyError:
                continue
            if isinstance(tgt, dict):
                sub = root.get('/'.join(keys))
                kids = [ch for c, k, ch in reach(sub) if c is sub]
                sub.clear()
                tgt.clear()
                assert not sub.maps and not len(sub.handles)
                for ch in kids:
                    assert ch.parent is None and ch.key is None
        check(root, model, rng)


for seed in range(int(sys.argv[1]) if len(sys.argv) > 1 else 3000):
    try:
        run(seed)
    except Exception:
        print('seed', seed)
        raise
print('ok')

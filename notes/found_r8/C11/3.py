"""A composed key is split ONCE, with the split_char of the map it is given
to; the sub-maps on the way are entered through ``.maps`` and never asked.
If a sub-map has its own split_char (a documented per-class setting), the
step-by-step spelling m['a']['b.c'] splits again and no longer denotes
what m['a/b.c'] denotes.
"""
import os
import sys

sys.path.insert(0, os.getcwd())
import desper                                           # NOQA
from desper import ResourceMap, Handle                  # NOQA


class H(Handle):
    def load(self):
        return 'res'


class DottedMap(ResourceMap):
    split_char = '.'


root = ResourceMap()                    # '/'-composed keys
sub = DottedMap()
root['a'] = sub
h = H()
root['a/b.c'] = h                       # components: 'a', 'b.c'

assert root.get('a/b.c') is h
assert root['a/b.c'] == 'res'
assert h.parent is sub and h.key == 'b.c'       # the name it is stored under
try:
    step = root['a'][h.key]             # same path, one component at a time
except KeyError as e:
    raise AssertionError(
        "root['a/b.c'] exists, but root['a']['b.c'] raises "
        f'KeyError({e}) - and root["a"].get("b.c") is '
        f'{root["a"].get("b.c")!r}') from None
assert step == 'res'
print('ok')

"""C10: the dispatcher keeps a handler alive through the callbacks it
stores strongly (function -> __class__ cell -> class -> instance)."""
import gc
import os
import sys
import weakref

sys.path.insert(0, os.getcwd())
import desper  # noqa: E402

calls = []


def make_handler():
    @desper.event_handler('ev')
    class Base:
        def ev(self):
            pass

    @desper.event_handler('ev')
    class Single(Base):
        instance = None         # the usual singleton / registry idiom

        def ev(self):
            super().ev()        # zero-arg super: closure on __class__
            calls.append('ev')

    Single.instance = Single()
    return Single.instance


# Control: without a dispatcher the program can drop such a handler
ref = weakref.ref(make_handler())
gc.collect()
assert ref() is None, 'control: handler is plain cyclic garbage'

for dispatcher in desper.EventDispatcher(), desper.World():
    handler = make_handler()
    dispatcher.add_handler(handler)
    ref = weakref.ref(handler)
    del handler                 # last reference of the program
    gc.collect()
    calls.clear()
    dispatcher.dispatch('ev')
    assert ref() is None and not calls, (
        f'{type(dispatcher).__name__} keeps a dropped handler alive and '
        f'registered: alive={ref() is not None}, calls={calls}')
print('ok')

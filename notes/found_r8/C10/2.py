"""C10: the dispatcher keeps a handler alive through the event NAMES it
stores strongly (per-instance channel objects that know their owner)."""
import gc
import os
import sys
import weakref

sys.path.insert(0, os.getcwd())
import desper  # noqa: E402

calls = []


class Channel:
    """Private event name of one listener (hashable by identity)."""

    def __init__(self, owner):
        self.owner = owner


class Listener:
    def __init__(self):
        self.channel = Channel(self)
        self.__events__ = {self.channel: 'on_message'}

    def on_message(self, *args):
        calls.append(args)


# Control: unregistered, such a listener is plain cyclic garbage
ref = weakref.ref(Listener())
gc.collect()
assert ref() is None, 'control'

for dispatcher in desper.EventDispatcher(), desper.World():
    listener = Listener()
    dispatcher.add_handler(listener)
    ref = weakref.ref(listener)
    channel = weakref.ref(listener.channel)
    del listener                # last reference of the program
    gc.collect()
    if channel() is not None:
        dispatcher.dispatch(channel(), 'hello')
    assert ref() is None and not calls, (
        f'{type(dispatcher).__name__} keeps a dropped handler alive and '
        f'registered: alive={ref() is not None}, calls={calls}')
print('ok')

"""A name that is a map in `maps` and (through a deeper, shared handle layer)
also a handle: the map answers with the handle, the snapshot blows up."""
import os
import sys
sys.path.insert(0, os.getcwd())
import desper                                               # noqa: E402


class H(desper.Handle):
    def __init__(self, v):
        self.v = v

    def load(self):
        return self.v


# "scoped" maps: the child's handles fall back on the parent's layer,
# which is what a ChainMap is for (layered handles)
base = desper.ResourceMap()
child = desper.ResourceMap()
child.handles = base.handles.new_child()

child['y'] = desper.ResourceMap()       # 'y' is a sub-map of child
h = H('resource')
base['y'] = h                           # 'y' becomes a handle of the base

# the map itself resolves handles first
assert child.get('y') is h
assert child['y'] == 'resource'

snap = child.get_static_map()
try:
    got_handle = snap.get('y')
    got = snap['y']
except Exception as e:
    raise AssertionError(
        f"child['y'] is 'resource' but snap['y'] raises {e!r}")
assert got_handle is h, f'snap.get yields {got_handle!r}, map yields {h!r}'
assert got == 'resource', got

"""A resource named __del__ (not a member of the snapshot): dropping the
snapshot calls the handle, i.e. loads a resource nobody asked for (a sub-map
of that name prints "Exception ignored ... not callable" instead)."""
import gc
import os
import sys
sys.path.insert(0, os.getcwd())
import desper                                               # noqa: E402
from desper.model.tree import StaticResourceMap            # noqa: E402

assert '__del__' not in dir(StaticResourceMap()), 'not a snapshot member'

loads = []


class H(desper.Handle):
    def load(self):
        loads.append(self.key)
        return 42


m = desper.ResourceMap()
m['__del__'] = H()
snap = m.get_static_map()
assert snap.get('__del__') is m.get('__del__')
assert not m.get('__del__').cached

del snap
gc.collect()
assert loads == [], (
    f'dropping the snapshot loaded {loads}: the read-only mirror changed '
    'the state of the mirrored handles')

"""A type with an entry in init_methods must be built by that entry, whatever
else the prototype defines.  The library resolves the name-based init method
first (getattr) even when an entry exists, so an attribute of that name whose
lookup fails (or has side effects) breaks / disturbs the iteration."""
import os
import sys

sys.path.insert(0, os.getcwd())
import desper  # noqa: E402


class Sprite:
    def __init__(self, image=None):
        self.image = image


lookups = []


class Base(desper.Prototype):
    component_types = (Sprite,)

    # Lazily computed attribute: only valid once an image has been loaded
    @property
    def init_Sprite(self):
        lookups.append('init_Sprite')
        raise RuntimeError('no image loaded yet')


class Fixed(Base):
    # The documented way to take precedence over the name-based method
    init_methods = {Sprite: lambda t: t('explicit')}


try:
    built = list(Fixed())
except RuntimeError as ex:
    raise AssertionError(
        'Sprite has an entry in init_methods, yet iterating the prototype '
        f'evaluated the name-based attribute init_Sprite and failed: {ex!r}')

assert [c.image for c in built] == ['explicit'], built
assert not lookups, (
    'the entry in init_methods was used, but init_Sprite was looked up '
    f'anyway: {lookups}')
print('ok')

"""A deferred deletion is applied twice: add_component re-arms a request
that a frame (run from the on_remove of the replaced component) has
already carried out, so the component attached afterwards - to an
identifier that is free again - is born dead and destroyed by the next
process()."""
import os
import sys

sys.path.insert(0, os.getcwd())

import desper  # noqa: E402

removed = []


@desper.event_handler('on_remove')
class Sprite:
    def __init__(self, name, run_frame=False):
        self.name = name
        self.run_frame = run_frame

    def on_remove(self, entity, world):
        removed.append(self.name)
        if self.run_frame:
            world.process()      # a frame run from a lifecycle callback


class Body:
    pass


world = desper.World()
e = world.create_entity(Sprite('old', run_frame=True), Body())

world.delete_entity(e)                      # deferred
# Replace the sprite: the old one is notified, and its callback runs the
# next frame. That frame is "the next process()": it removes Body and
# frees the identifier (the request has been fulfilled).
new = Sprite('new')
world.add_component(e, new)

assert removed == ['old'], removed
assert world.get_component(e, Body) is None, 'frame did not apply deletion'

# The identifier was freed by that frame, so `new` sits on a fresh entity
# nobody asked to delete.
assert world.entity_exists(e), (
    'identifier not free after the process() that applied the deletion: '
    'the entity holding the newly attached component is still marked dead')

world.process()
assert world.get_components(e) == (new,), (
    'the deferred deletion was applied a second time', removed)
print('ok')

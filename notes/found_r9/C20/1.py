"""A tiny negative 2D rotation is stored (and notified) as 360.0.

BORDERLINE: the input is exactly representable, the exact result
(360 - 2**-70) is not, so this may fall under "float rounding".
"""
import sys
import os
sys.path.insert(0, os.getcwd())
import fractions

import desper


@desper.event_handler('on_rotation_change')
class Listener:
    def __init__(self):
        self.got = []

    def on_rotation_change(self, value):
        self.got.append(value)


for angle in (-2.0 ** -70, fractions.Fraction(-1, 2 ** 70), -5e-324):
    transform = desper.Transform2D()
    listener = Listener()
    transform.add_handler(listener)

    transform.rotation = angle
    stored = transform.rotation
    assert listener.got == [stored], listener.got

    # Assigning the stored value back must not change it (a reduced
    # angle is a fixed point of the reduction)
    transform.rotation = stored
    assert transform.rotation == stored, (
        f'rotation = {angle!r} stored {stored!r}, which is not reduced: '
        f'assigning it back gives {transform.rotation!r}')
    assert 0 <= stored < 360, (
        f'rotation = {angle!r} stored {stored!r}, outside [0, 360)')

    built = desper.Transform2D(rotation=angle).rotation
    assert 0 <= built < 360, (
        f'Transform2D(rotation={angle!r}) stored {built!r}')

print('ok')

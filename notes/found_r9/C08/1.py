"""Decimal wait + Fraction dt: process() raises TypeError and the active
queue is left rotated (LOW CONFIDENCE: same family as the known 'float dt
turns the clock into a float')."""
import os
import sys
from decimal import Decimal
from fractions import Fraction

sys.path.insert(0, os.getcwd())

import desper  # noqa: E402

proc = desper.CoroutineProcessor()
log = []


def sleeper():
    yield 1                 # keeps the clock running
    while True:
        yield


def dec():
    log.append('d0')
    yield                   # next frame
    log.append('d1')
    yield Decimal(2)        # exact positive number
    log.append('d2')


proc.start(sleeper())
proc.start(dec())
proc.process(Fraction(1, 2))        # exact, non-negative dt
try:
    proc.process(Fraction(1, 2))
except TypeError as exc:
    raise AssertionError(
        'process() failed for an exact Decimal wait with an exact Fraction '
        f'clock: {exc!r}') from None
for _ in range(4):
    proc.process(Fraction(1, 2))
assert log == ['d0', 'd1', 'd2'], log
print('ok')

"""A deletion request that was already honoured comes back to life.

add_component() replacing a component of an entity that awaits deletion
remembers "this entity is dying" BEFORE the removal callback of the
replaced component runs, and re-instates the request afterwards.  If
that callback runs a frame (world.process()) the request is honoured in
the meantime (the whole entity is deleted), yet the freshly attached
component ends up on an entity that is "awaiting deletion" again:
entity_exists()/entities deny an entity that owns a component and for
which no deletion is pending any more, and the next frame destroys it.
"""
import sys
import os
sys.path.insert(0, os.getcwd())

import desper  # noqa: E402


class Tag:
    pass


@desper.event_handler('on_remove')
class Frame:
    """Component that runs a frame when it is removed."""
    run = False

    def on_remove(self, entity, world):
        if self.run:
            world.process()


world = desper.World()
old = Frame()
old.run = True
entity = world.create_entity(Tag(), old)

world.delete_entity(entity)             # deferred request

new = Frame()
world.add_component(entity, new)        # replaces ``old`` -> frame runs

# The frame run by the callback honoured the request: Tag is gone
assert world.get(Tag) == [], world.get(Tag)
# ... and ``new`` was attached afterwards, to a brand new entity
assert world.get_components(entity) == (new,)
assert world.get(Frame) == [(entity, new)]

# No deletion was requested since the frame: the entity must be alive
assert world.entity_exists(entity), (
    'entity owns a component and its deletion request was already '
    'honoured by process(), but entity_exists() says False')
assert world.entities == (entity,), world.entities

world.process()
assert world.get(Frame) == [(entity, new)], (
    'a second frame deleted the entity again', world.get(Frame))
print('ok')

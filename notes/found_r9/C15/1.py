"""Two listed processors of the same exact type: only the last survives.

Also: listing desper.OnUpdateProcessor throws the default one away.
"""
import json
import os
import sys
import tempfile

sys.path.insert(0, os.getcwd())
import desper                                           # NOQA


class Spawner(desper.Processor):
    def __init__(self, kind):
        self.kind = kind

    def process(self, dt=1):
        pass


sys.modules['found1_mod'] = sys.modules[__name__]

desc = {'processors': [
    {'type': 'found1_mod.Spawner', 'args': ['orc']},
    {'type': 'found1_mod.Spawner', 'args': ['elf']},
]}

fd, fname = tempfile.mkstemp(suffix='.json')
with os.fdopen(fd, 'w') as fout:
    json.dump(desc, fout)

try:
    root = desper.ResourceMap()
    handle = desper.WorldFromFileHandle(fname)
    root['worlds/w'] = handle
    world = handle()
finally:
    os.unlink(fname)

listed = [p.kind for p in world.processors if isinstance(p, Spawner)]
defaults = [type(p).__name__ for p in world.processors
            if not isinstance(p, Spawner)]

assert defaults == ['OnUpdateProcessor', 'CoroutineProcessor'], defaults
assert listed == ['orc', 'elf'], (
    f'description lists 2 processors (orc, elf), loaded world has {listed}')

"""A string argument that merely STARTS like a reference loses its tail.

"${os.sep}data" is not of the form ${dotted.name} (the whole string is not a
reference), yet it is replaced by os.sep and "data" silently disappears.
Same for "$res{a.b} (copy)" and "$handle{a.b}!".
"""
import json
import os
import sys
import tempfile

sys.path.insert(0, os.getcwd())
import desper                                           # NOQA


class Label:
    def __init__(self, *texts):
        self.texts = texts


class Value(desper.Handle):
    def load(self):
        return 'LOADED'


sys.modules['found2_mod'] = sys.modules[__name__]

texts = ['${os.sep}data', '$res{a.b} (copy)', '$handle{a.b}!']
desc = {'entities': [{'components': [
    {'type': 'found2_mod.Label', 'args': texts}]}]}

fd, fname = tempfile.mkstemp(suffix='.json')
with os.fdopen(fd, 'w') as fout:
    json.dump(desc, fout)

try:
    root = desper.ResourceMap()
    root['a/b'] = Value()
    handle = desper.WorldFromFileHandle(fname)
    root['worlds/w'] = handle
    world = handle()
finally:
    os.unlink(fname)

(_, label), = world.get(Label)
assert list(label.texts) == texts, (
    f'arguments {texts} are not references (text follows the closing brace) '
    f'but the component was built from {label.texts}')

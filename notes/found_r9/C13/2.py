"""switch(X, clear_current=True) where X is a second handle yielding the world
that is running: the handle being left is never cleared.

switch() decides "this is a switch to the current handle" by comparing
WORLDS (target_handle() is from_world) and then clears the TARGET handle
in place of the current one. With two handles that yield the same world the
current handle of the loop keeps its instance although clear_current was
requested.
"""
import sys
sys.path.insert(0, '.')
import desper


class Proc(desper.Processor):
    todo = []

    def process(self, dt):
        if not Proc.todo:
            raise desper.Quit()
        Proc.todo.pop(0)()


def populate(handle, world):
    handle.loads = getattr(handle, 'loads', 0) + 1
    world.add_processor(Proc())


main = desper.WorldHandle()
main.transform_functions.append(populate)


class Shortcut(desper.Handle):
    """Eg. 'continue' menu entry: yields whatever world `main` holds."""

    def load(self):
        return main()


shortcut = Shortcut()
loop = desper.default_loop
loop.switch(main)
first = main()

Proc.todo = [
    lambda: desper.switch(shortcut),                        # caches shortcut
    lambda: desper.switch(main),                            # back to main
    lambda: desper.switch(shortcut, clear_current=True),    # leave main, clear it
]
loop.start()

assert loop.current_world_handle is shortcut
# clear_current: the handle that was left (main) must yield a fresh instance
assert not main.cached or main() is not first, (
    'clear_current ignored: the left handle still yields the old instance '
    '(loads=%d)' % main.loads)
print('ok')

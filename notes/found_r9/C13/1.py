"""switch(current_handle, clear_current=True) with a handle whose clear()
disposes of its world: on_switch_out is never delivered in the world left.

A Handle subclass may release its resource in clear() (that is what the
method is for); for a world handle that means World.clear(). Leaving such a
world for ANOTHER handle delivers on_switch_out first and clears afterwards
(Loop.switch). Switching to the CURRENT handle clears first, inside
switch(), so the world being left has lost all its listeners when
on_switch_out is dispatched.
"""
import sys
sys.path.insert(0, '.')
import desper

LOG = []


@desper.event_handler('on_switch_in', 'on_switch_out')
class Listener:
    def __init__(self, label):
        self.label = label

    def on_switch_in(self, from_, to):
        LOG.append((self.label, 'in'))

    def on_switch_out(self, from_, to):
        LOG.append((self.label, 'out'))


class Proc(desper.Processor):
    todo = []

    def process(self, dt):
        if not Proc.todo:
            raise desper.Quit()
        Proc.todo.pop(0)()


class DisposingHandle(desper.WorldHandle):
    """Frees the world it loaded when its cache is cleared."""

    def __init__(self, name):
        super().__init__()
        self.name = name
        self.loads = 0
        self.transform_functions.append(DisposingHandle.populate)

    def populate(self, world):
        self.loads += 1
        world.add_processor(Proc())
        world.create_entity(Listener('%s%d' % (self.name, self.loads)))

    def clear(self):
        if self.cached:
            self().clear()      # release entities, processors, listeners
        super().clear()


def run(first, todo):
    LOG.clear()
    Proc.todo = list(todo)
    loop = desper.default_loop
    loop.switch(first)
    loop.start()
    return list(LOG)


# Control: leaving A for another handle with clear_current: out is delivered
a, b = DisposingHandle('A'), DisposingHandle('B')
log = run(a, [lambda: desper.switch(b, clear_current=True)])
assert log == [('A1', 'out'), ('B1', 'in')], log
assert not a.cached

# Same request towards the current handle
a = DisposingHandle('A')
log = run(a, [lambda: desper.switch(a, clear_current=True)])
assert ('A2', 'in') in log, log
assert ('A1', 'out') in log, (
    'on_switch_out was not delivered in the world being left '
    '(self-switch with clear_current): %r' % (log,))
print('ok')

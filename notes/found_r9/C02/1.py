"""A component that re-attaches ITSELF to another entity from its own
on_remove (object pooling) ends up attached but not listening."""
import sys
sys.path.insert(0, '.')
import desper  # noqa: E402

pings = []


@desper.event_handler('on_add', 'on_remove', 'ping')
class Pooled:
    def on_add(self, entity, world):
        pass

    def on_remove(self, entity, world):
        # Recycle: park the component on a different entity
        if entity != 'pool':
            world.add_component('pool', self)

    def ping(self):
        pings.append(self)


class Other:
    pass


def check(how):
    pings.clear()
    world = desper.World()
    comp = Pooled()
    entity = world.create_entity(comp, Other())
    if how == 'remove_component':
        world.remove_component(entity, Pooled)
    elif how == 'delete_entity(immediate)':
        world.delete_entity(entity, immediate=True)
    elif how == 'process':
        world.delete_entity(entity)
        world.process()
    elif how == 'replacement':
        world.add_component(entity, Pooled())

    assert world.get_component('pool', Pooled) is comp, how   # attached
    world.dispatch('ping')
    assert world.is_handler(comp) and comp in pings, (
        f'{how}: component is attached to entity "pool" (it received '
        f'on_add("pool", world)) but is not a listener of the world: '
        f'is_handler={world.is_handler(comp)}, got ping={comp in pings}')


for how in ('remove_component', 'delete_entity(immediate)', 'process',
            'replacement'):
    check(how)
print('ok')

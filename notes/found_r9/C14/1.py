"""BORDERLINE (see 1.md): quit_loop(target) does not deliver on_quit to a
given world that is dormant (switched out); the event is buffered and
pops up as a phantom on_quit when that world is entered again.
"""
import os
import sys

sys.path.insert(0, os.getcwd())

import desper     # NOQA

log = []


@desper.event_handler('on_quit')
class Saver:

    def on_quit(self):
        log.append('on_quit')


class Handle(desper.Handle):

    def __init__(self, world):
        self.world = world

    def load(self):
        return self.world


menu, game = desper.World(), desper.World()
saver = Saver()
menu.add_handler(saver)
menu_handle, game_handle = Handle(menu), Handle(game)
loop = desper.SimpleLoop(iter(range(100)).__next__)
frames = []


class MenuProcessor(desper.Processor):

    def process(self, dt):
        frames.append('menu')
        if frames.count('menu') == 1:
            desper.switch(game_handle, from_world=self.world)
        raise desper.Quit()


class GameProcessor(desper.Processor):

    def process(self, dt):
        frames.append('game')
        if frames.count('game') == 1:
            # Quit, letting the menu world know (it saves the settings)
            desper.quit_loop(menu)
        desper.switch(menu_handle, from_world=self.world)


menu.add_processor(MenuProcessor())
game.add_processor(GameProcessor())
loop.switch(menu_handle)

loop.start()
assert loop.running is False and loop.current_world is game
delivered_at_quit = list(log)

# Restart: the game goes back to the menu, nobody calls quit_loop
loop.start()
phantom = log[len(delivered_at_quit):]

assert delivered_at_quit == ['on_quit'] and phantom == [], \
    ('quit_loop(menu) delivered %r before raising Quit; later, with no '
     'quit_loop call, the menu world received %r'
     % (delivered_at_quit, phantom))
print('ok')

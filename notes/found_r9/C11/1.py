"""BORDERLINE (see 1.md): $res{}/$handle{} never returns in a tree where the
root is stored, once, inside one of its own descendants ('..' shortcut)."""
import json
import os
import signal
import sys
import tempfile

sys.path.insert(0, os.getcwd())

import desper                                                   # noqa: E402
from desper import ResourceMap, Handle, WorldFromFileHandle     # noqa: E402


class Comp:
    def __init__(self, x):
        self.x = x


sys.modules['__main__'].Comp = Comp
path = os.path.join(tempfile.mkdtemp(), 'w.json')
with open(path, 'w') as fout:
    json.dump({'entities': [{'components': [
        {'type': '__main__.Comp', 'args': ['$handle{t}']}]}]}, fout)

root, sub = ResourceMap(), ResourceMap()
root['s'] = sub
sub['..'] = root            # every node still has exactly one location
root['t'] = Handle()
sub['w'] = WorldFromFileHandle(path)

# C11 itself holds on this tree
for node, container, name in ((sub, root, 's'), (root, sub, '..'),
                              (sub.get('w'), sub, 'w')):
    if node.parent is not container or node.key != name:
        raise AssertionError('back-links wrong')
if root['s/../s'] is not sub:
    raise AssertionError('paths wrong')


def too_long(*_):
    raise AssertionError(
        'loading a world that uses $handle{} did not finish within 5s: '
        'get_root_map() follows .parent forever (world.py:331)')


signal.signal(signal.SIGALRM, too_long)
signal.alarm(5)
world = root['s/w']
signal.alarm(0)
print('ok')

"""C03 (borderline, snapshot semantics): a handler removed by a callback while
an event is being delivered is still called by that same dispatch, AFTER
remove_handler() returned - unless it happens to have no other strong
reference, in which case it is skipped. Whether the removed handler is called
also depends on set iteration order."""
import sys
import os

sys.path.insert(0, os.getcwd())
import desper                                               # noqa: E402

calls_while_unregistered = []


@desper.event_handler('on_x')
class Handler:
    def __init__(self, dispatcher):
        self.dispatcher = dispatcher
        self.peers = []

    def on_x(self):
        if not self.dispatcher.is_handler(self):
            calls_while_unregistered.append(self)
        for peer in self.peers:
            self.dispatcher.remove_handler(peer)


dispatcher = desper.EventDispatcher()
handlers = [Handler(dispatcher) for _ in range(8)]
for handler in handlers:
    handler.peers = [peer for peer in handlers if peer is not handler]
    dispatcher.add_handler(handler)

# Whoever is called first removes the seven others.
dispatcher.dispatch('on_x')

assert not calls_while_unregistered, (
    '%d handlers were called although remove_handler() had already returned '
    'for them (is_handler() False at call time)'
    % len(calls_while_unregistered))
print('ok')

"""C03 defect (arguments clause): callbacks are looked up on the CLASS and
called as f(handler, *args), which equals handler.f(*args) only for plain
functions. staticmethod / classmethod / functools.partial class attributes
receive the handler as a spurious extra positional argument, and a callback
overridden on the instance is ignored."""
import sys
import os
import functools

sys.path.insert(0, os.getcwd())
import desper                                               # noqa: E402

log = []


def _free(*args, **kwargs):
    log.append(('on_partial', args, kwargs))


@desper.event_handler('on_static', 'on_class', 'on_partial', 'on_plain')
class Handler:
    @staticmethod
    def on_static(*args, **kwargs):
        log.append(('on_static', args, kwargs))

    @classmethod
    def on_class(cls, *args, **kwargs):
        log.append(('on_class', args, kwargs))

    on_partial = functools.partial(_free)

    def on_plain(self, *args, **kwargs):
        log.append(('on_plain', args, kwargs))


dispatcher = desper.EventDispatcher()
handler = Handler()
dispatcher.add_handler(handler)

problems = []
for event in ('on_plain', 'on_static', 'on_class', 'on_partial'):
    # what "the method the handler maps to that name" does with (1, x=2)
    log.clear()
    getattr(handler, handler.__events__[event])(1, x=2)
    direct = list(log)
    log.clear()
    dispatcher.dispatch(event, 1, x=2)
    if log != direct:
        problems.append('%s: dispatch(.., 1, x=2) delivered %r, calling the '
                        'mapped method gives %r' % (event, log, direct))

# instance-level override of the mapped method
handler.on_plain = lambda *args, **kwargs: log.append(('override', args))
log.clear()
dispatcher.remove_handler(handler)
dispatcher.add_handler(handler)             # registered AFTER the override
dispatcher.dispatch('on_plain', 3)
if log != [('override', (3,))]:
    problems.append('instance override ignored: %r' % (log,))

assert not problems, '\n'.join(problems)
print('ok')

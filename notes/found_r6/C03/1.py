"""C03 defect: callbacks whose class-level lookup yields a fresh object each
time (functools.partialmethod, functools.singledispatchmethod, any custom
descriptor) are delivered twice after a double add_handler and can never be
removed (remove_handler raises KeyError and the handler keeps listening)."""
import sys
import os
import functools

sys.path.insert(0, os.getcwd())
import desper                                               # noqa: E402

log = []


def _record(self, tag, *args):
    log.append((tag, args))


@desper.event_handler('on_x')
class Handler:
    # perfectly ordinary stdlib way to define a method
    on_x = functools.partialmethod(_record, 'x')


# --- clause: registering twice does not duplicate deliveries -------------
dispatcher = desper.EventDispatcher()
handler = Handler()
dispatcher.add_handler(handler)
dispatcher.add_handler(handler)
dispatcher.dispatch('on_x', 1)
problems = []
if log != [('x', (1,))]:
    problems.append('handler registered twice got %d deliveries: %r'
                    % (len(log), log))

# --- clause: a removed handler receives nothing --------------------------
dispatcher = desper.EventDispatcher()
handler = Handler()
dispatcher.add_handler(handler)          # registered exactly once
log.clear()
try:
    dispatcher.remove_handler(handler)
except KeyError as error:
    problems.append('remove_handler raised KeyError(%s)' % (error,))
dispatcher.dispatch('on_x', 2)
if log:
    problems.append('removed handler still received %r' % (log,))

assert not problems, '; '.join(problems)
print('ok')

"""C03 defect: an add_handler() that FAILS (a mapped callback is not a class
attribute) leaves the handler half registered: it is not a handler
(is_handler False), remove_handler cannot take it out, yet dispatch keeps
calling it - "calls nothing else" is violated."""
import sys
import os

sys.path.insert(0, os.getcwd())
import desper                                               # noqa: E402

log = []


@desper.event_handler('on_a', 'on_b')
class Handler:
    def __init__(self):
        # callback kept on the instance, not on the class
        self.on_b = lambda *args: log.append(('on_b', args))

    def on_a(self, *args):
        log.append(('on_a', args))


dispatcher = desper.EventDispatcher()
handler = Handler()

try:
    dispatcher.add_handler(handler)
    registered = True
except AttributeError:
    registered = False            # registration was refused

if not registered:
    assert not dispatcher.is_handler(handler)
    dispatcher.remove_handler(handler)      # belt and braces: silently no-op
    dispatcher.dispatch('on_a', 1)
    assert log == [], (
        'add_handler raised, is_handler() is False, remove_handler() was '
        'called, and still dispatch delivered %r to the rejected object'
        % (log,))
else:
    dispatcher.dispatch('on_a', 1)
    dispatcher.dispatch('on_b', 2)
    assert sorted(log) == [('on_a', (1,)), ('on_b', (2,))], log
print('ok')

"""A listener whose callback is an unhashable callable (eg. a dataclass
instance with __call__) cannot be registered on a transform: add_handler
raises TypeError, hence the listener is never notified.
"""
import os
import sys
from dataclasses import dataclass

sys.path.insert(0, os.getcwd())
import desper  # noqa: E402


@dataclass          # eq=True -> __hash__ is None: instances are unhashable
class Recorder:
    """Reusable callback object, used as class attribute of listeners."""
    prefix: str

    def __call__(self, handler, value):
        handler.log.append((self.prefix, value))


@desper.event_handler('on_position_change', 'on_rotation_change',
                      'on_scale_change')
class Listener:
    on_position_change = Recorder('position')
    on_rotation_change = Recorder('rotation')
    on_scale_change = Recorder('scale')

    def __init__(self):
        self.log = []


for cls in desper.Transform2D, desper.Transform3D:
    transform = cls()
    listener = Listener()
    try:
        transform.add_handler(listener)
    except TypeError as exc:
        raise AssertionError(
            f'{cls.__name__}: a listener with an unhashable callback cannot '
            f'be registered ({exc}), so it is never notified') from exc

    value = (4, 5) if cls is desper.Transform2D else (4, 5, 6)
    transform.position = value
    assert listener.log == [('position', value)], listener.log

"""A listener whose callbacks are functools.partialmethod objects is
notified TWICE per assignment once it has been added twice, and cannot be
removed any more (remove_handler raises KeyError and leaves it registered).
"""
import os
import sys
from functools import partialmethod

sys.path.insert(0, os.getcwd())
import desper  # noqa: E402


@desper.event_handler('on_position_change', 'on_rotation_change',
                      'on_scale_change')
class Listener:
    """One generic callback bound to the three events (a very common idiom)."""

    def __init__(self):
        self.log = []

    def _changed(self, what, value):
        self.log.append((what, value))

    on_position_change = partialmethod(_changed, 'position')
    on_rotation_change = partialmethod(_changed, 'rotation')
    on_scale_change = partialmethod(_changed, 'scale')


for cls in desper.Transform2D, desper.Transform3D:
    transform = cls()
    listener = Listener()
    transform.add_handler(listener)
    transform.add_handler(listener)     # idempotent for ordinary listeners

    value = (1, 2) if cls is desper.Transform2D else (1, 2, 3)
    transform.scale = value
    assert transform.scale == value
    assert listener.log == [('scale', value)], (
        f'{cls.__name__}: listener must be notified exactly once, '
        f'got {listener.log}')

    try:
        transform.remove_handler(listener)
    except KeyError as exc:
        raise AssertionError(
            f'{cls.__name__}: remove_handler of a registered listener '
            f'raised KeyError and left it registered') from exc

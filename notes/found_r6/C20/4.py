"""Vectors given at construction are NOT stored the way assigned vectors are:
the constructor converts to Vec2/Vec3, the setters store the object as is.
"""
import os
import sys

sys.path.insert(0, os.getcwd())
import desper  # noqa: E402

for cls, value in (desper.Transform2D, [1, 2]), (desper.Transform3D, [1, 2, 3]):
    for name in 'position', 'scale':
        assigned = cls()
        setattr(assigned, name, value)
        constructed = cls(**{name: value})

        assert getattr(assigned, name) == value       # holds, stored as is
        assert getattr(constructed, name) == getattr(assigned, name), (
            f'{cls.__name__}({name}={value}).{name} is '
            f'{getattr(constructed, name)!r} but after assigning the same '
            f'value it is {getattr(assigned, name)!r}: not stored the same way')

# Second symptom of the same asymmetry, with plain tuples (the documented
# parameter type): arithmetic works on constructed values only
transform = desper.Transform2D(position=(1, 2))
transform.position += (1, 1)
assert transform.position == (2, 3)
transform.position = (1, 2)
transform.position += (1, 1)
assert transform.position == (2, 3), (
    f'after assigning (1, 2), position += (1, 1) gives {transform.position}')

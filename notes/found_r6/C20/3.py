"""When a listener corrects the property from inside its callback (eg. clamps
the position), the other listeners may receive the OLD value last: their
final notification carries a value which is not the one the property holds.
"""
import os
import sys

sys.path.insert(0, os.getcwd())
import desper  # noqa: E402
from desper.math import Vec2, Vec3  # noqa: E402

LIMIT = 10


@desper.event_handler('on_position_change')
class Clamper:
    """Keeps the x coordinate of a transform within LIMIT."""

    def __init__(self, transform):
        self.transform = transform

    def on_position_change(self, value):
        if value[0] > LIMIT:
            self.transform.position = type(value)(LIMIT, *value[1:])


@desper.event_handler('on_position_change')
class Mirror:
    """Passive listener (eg. a sprite following the transform)."""

    def __init__(self, transform):
        self.transform = transform
        self.position = None
        self.stale = []

    def on_position_change(self, value):
        self.position = value
        read = self.transform.position      # "a read right afterwards"
        if read != value:
            self.stale.append((value, read))


# The order in which listeners are called is arbitrary (a set), so repeat
# the scenario a few times: it fails whenever the clamper is not called last
for trial in range(20):
    for cls, vec in (desper.Transform2D, Vec2(50, 1)), \
                    (desper.Transform3D, Vec3(50, 1, 1)):
        transform = cls()
        clamper = Clamper(transform)
        mirrors = [Mirror(transform) for _ in range(8)]
        for listener in (*mirrors[:4], clamper, *mirrors[4:]):
            transform.add_handler(listener)

        transform.position = vec

        for mirror in mirrors:
            assert not mirror.stale, (
                f'{cls.__name__}: notified with {mirror.stale[0][0]} while '
                f'a read of the property returns {mirror.stale[0][1]}')
            assert mirror.position == transform.position, (
                f'{cls.__name__}: last notification carried '
                f'{mirror.position} but position is {transform.position}')

"""remove_component(e, object) detaches TWO objects when one of them is None.

The walk treats "the removed component is None" as "nothing was removed
yet" and goes on to remove a second matching component.
"""
import sys
sys.path.insert(0, '.')
import desper  # noqa: E402

w = desper.World()
e = w.create_entity(None, 5, 'text')
before = w.get_components(e)
assert len(before) == 3, before

w.remove_component(e, object)
after = w.get_components(e)

assert len(after) == len(before) - 1, (
    'remove_component(e, object) must detach exactly one component, '
    f'but {len(before) - len(after)} were detached: '
    f'before={before!r} after={after!r}')
print('ok')

"""Single-result queries never come back on a ladder of diamonds.

Hierarchy (67 classes, perfectly legal):
    A0;  Bi(Ai), Ci(Ai);  A(i+1)(Bi, Ci)     for i in 0..21
get(A0) is instantaneous (it has a visited set) but has_component,
get_component, remove_component, get_processor and remove_processor walk
every PATH of the DAG: 2**22 paths here, 2**40 with 121 classes.
"""
import signal
import sys
sys.path.insert(0, '.')
import desper  # noqa: E402

LEVELS = 22
BUDGET = 2      # seconds; get() needs well under a millisecond


def ladder(levels):
    root = top = type('A0', (), {})
    for i in range(levels):
        left = type(f'B{i}', (top,), {})
        right = type(f'C{i}', (top,), {})
        top = type(f'A{i + 1}', (left, right), {})
    return root, top


root, top = ladder(LEVELS)
w = desper.World()
e = w.create_entity(object())       # owns nothing from the hierarchy

assert w.get(root) == []            # fast: visited set


def too_slow(*_):
    raise AssertionError(
        f'has_component(e, A0) did not answer within {BUDGET}s on a '
        f'{3 * LEVELS + 1}-class hierarchy (walk is exponential: no '
        'visited set, unlike get())')


signal.signal(signal.SIGALRM, too_slow)
signal.alarm(BUDGET)
assert w.has_component(e, root) is False
signal.alarm(0)
print('ok')

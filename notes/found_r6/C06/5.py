"""Classes that compare equal (metaclass __eq__/__hash__) are treated as one
type: a component replaces an unrelated one and get(T) reports an object
that is not an instance of T.
"""
import sys
sys.path.insert(0, '.')
import desper  # noqa: E402


class Versioned(type):
    """Classes are 'the same record type' when their tag is equal."""

    def __eq__(cls, other):
        return isinstance(other, Versioned) and cls.tag == other.tag

    def __hash__(cls):
        return hash(cls.tag)


class PositionV1(metaclass=Versioned):
    tag = 'position'


class PositionV2(metaclass=Versioned):      # NOT a subclass of PositionV1
    tag = 'position'


assert not issubclass(PositionV2, PositionV1)

w = desper.World()
old, new = PositionV1(), PositionV2()
e = w.create_entity(old)
w.add_component(e, new)

comps = w.get_components(e)
assert any(c is old for c in comps), (
    'adding a PositionV2 detached the PositionV1 component, although the '
    'two classes are unrelated (they merely compare equal)')
assert all(isinstance(c, PositionV1) for _, c in w.get(PositionV1)), (
    'get(PositionV1) reported an object that is not a PositionV1')
print('ok')

"""Objects whose class changes after attachment (state pattern:
`obj.__class__ = Other`) are matched by their OLD type, not by their type.

Worst symptom: remove_processor() returns the processor but leaves it in
World.processors, so it keeps being processed and can never be removed.
"""
import sys
sys.path.insert(0, '.')
import desper  # noqa: E402


class Idle(desper.Processor):
    def process(self, dt=1):
        pass


class Running(desper.Processor):
    runs = 0

    def process(self, dt=1):
        self.runs += 1


class Egg:
    pass


class Bird:
    pass


w = desper.World()

# --- processors -----------------------------------------------------------
p = Idle()
w.add_processor(p)
p.__class__ = Running                   # type(p) is now Running
removed = w.remove_processor(desper.Processor)
assert removed is p
assert p not in w.processors, (
    'remove_processor returned the processor but it is still in '
    'World.processors and will keep being processed')
# --- components -----------------------------------------------------------
c = Egg()
e = w.create_entity(c)
c.__class__ = Bird                      # type(c) is now Bird
got = w.get(Egg)
assert all(isinstance(x, Egg) for _, x in got), (
    f'get(Egg) reported an object whose type is {type(got[0][1]).__name__}, '
    'not Egg or a subclass')
assert w.has_component(e, Bird), 'has_component(e, Bird) misses the Bird'

print('ok')

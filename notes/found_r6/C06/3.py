"""remove_processor(T) refuses a query type that get_processor(T) accepts.

With multiple inheritance a processor class has bases that are not
themselves Processor subclasses (mixins, `object`).  get_processor finds the
processor through such a base, remove_processor raises AssertionError
(and under `python -O` it works, so behaviour depends on the flag).
"""
import sys
sys.path.insert(0, '.')
import desper  # noqa: E402


class Pausable:
    paused = False


class Physics(Pausable, desper.Processor):
    def process(self, dt=1):
        pass


w = desper.World()
p = Physics()
w.add_processor(p)

for query in (Pausable, object):
    assert w.get_processor(query) is p      # the query type matches p

    try:
        removed = w.remove_processor(query)
    except AssertionError as err:
        raise AssertionError(
            f'remove_processor({query.__name__}) must detach the one '
            f'processor whose type is a subclass of {query.__name__} (as '
            f'get_processor does), but it raised: {err}') from None

    assert removed is p and w.processors == ()
    w.add_processor(p)
print('ok')

"""File names that contain ResourceMap.split_char are split into bogus
sub-maps by the populator; sibling files then destroy each other.
(split_char is documented as changeable "at any time".)"""
import os
import sys
import tempfile

sys.path.insert(0, os.getcwd())
import desper  # noqa: E402


class FileHandle(desper.Handle):
    def __init__(self, filename):
        self.filename = filename


root = tempfile.mkdtemp()
os.makedirs(os.path.join(root, 'd'))
for name in ('a', 'a.txt', 'x:y'):
    open(os.path.join(root, 'd', name), 'w').close()

problems = []
for split_char, names in (('.', ('a', 'a.txt')), (':', ('x:y',))):
    desper.ResourceMap.split_char = split_char
    try:
        populator = desper.DirectoryResourcePopulator(root)
        populator.add_rule('d', FileHandle)
        resource_map = desper.ResourceMap()
        populator(resource_map)

        d_map = resource_map.get('d')
        for name in names:
            got = resource_map.get(split_char.join(('d', name)))
            if not (isinstance(got, FileHandle)
                    and os.path.basename(got.filename) == name):
                problems.append(
                    f'split_char={split_char!r}: file d/{name} is not '
                    f'reachable through its handle, got {got!r}')
        bogus = set(d_map.maps)     # directory d has no sub-directories
        if bogus:
            problems.append(
                f'split_char={split_char!r}: sub-maps {sorted(bogus)} were '
                'added under d although d contains no directory')
    finally:
        desper.ResourceMap.split_char = '/'

assert not problems, '\n'.join(problems)
print('ok')

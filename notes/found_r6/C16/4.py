"""DirectoryPopulatorRule.file_exts is declared Container[str], but the
populator calls len() on it: a pure container (only __contains__) crashes
population."""
import os
import sys
import tempfile

sys.path.insert(0, os.getcwd())
import desper  # noqa: E402


class FileHandle(desper.Handle):
    def __init__(self, filename):
        self.filename = filename


class ImageExtensions:
    """A Container[str]: case-insensitive membership, no __len__/__iter__."""

    def __contains__(self, ext):
        return ext.lower() in ('.png', '.jpg')


root = tempfile.mkdtemp()
os.makedirs(os.path.join(root, 'd'))
for name in ('a.PNG', 'b.txt'):
    open(os.path.join(root, 'd', name), 'w').close()

populator = desper.DirectoryResourcePopulator(root)
populator.rules.append(desper.DirectoryPopulatorRule(
    'd', FileHandle, file_exts=ImageExtensions()))
resource_map = desper.ResourceMap()
try:
    populator(resource_map)
except TypeError as e:
    raise AssertionError(
        f'population crashed on a Container[str] extension filter: {e}')

assert isinstance(resource_map.get('d/a.PNG'), FileHandle)
assert resource_map.get('d/b.txt') is None
print('ok')

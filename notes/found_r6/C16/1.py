"""nest_on_conflict trusts handle.parent/handle.key instead of the place where
the conflicting handle was actually found: the older handle is lost (or the
populator crashes) when that handle is also stored somewhere else."""
import os
import sys
import tempfile

sys.path.insert(0, os.getcwd())
import desper  # noqa: E402


class FileHandle(desper.Handle):
    def __init__(self, filename, *args):
        self.filename = filename
        self.args = args

    def load(self):
        return self.filename


def all_layers(resource_map, name):
    return [layer[name] for layer in resource_map.handles.maps
            if name in layer]


root = tempfile.mkdtemp()
for d in ('d1', 'd2'):
    os.makedirs(os.path.join(root, d))
    open(os.path.join(root, d, 'a'), 'w').close()

# --- Variant 1: populator only. A factory that shares one handle between
# files with identical content/name (a de-duplicating cache).
shared = {}


def deduplicating(filename):
    return shared.setdefault(os.path.basename(filename), FileHandle(filename))


populator = desper.DirectoryResourcePopulator(root, nest_on_conflict=True)
populator.add_rule('d1', deduplicating)
populator.add_rule('d2', deduplicating)
populator.add_rule('d1', FileHandle, 'second')   # conflicts with rule 1

resource_map = desper.ResourceMap()
populator(resource_map)

older = shared['a']
newer = resource_map.get('d1/a')
assert newer.args == ('second',), newer
d1_layers = all_layers(resource_map.get('d1'), 'a')
d2_layers = resource_map.get('d2').handles.maps

problems = []
if older not in d1_layers:
    problems.append(
        'variant 1: nest_on_conflict=True but the older handle of d1/a is '
        f'gone, layers of d1 hold {d1_layers!r}; instead an empty layer was '
        f'pushed on the unrelated map d2: {d2_layers!r}')

# --- Variant 2: a handle that lost its parent (it was also stored in a map
# that has been cleared) makes population crash.
target = desper.ResourceMap()
other = desper.ResourceMap()
old = FileHandle('old')
target['d1/a'] = old
other['alias'] = old
other.clear()                # resets old.parent / old.key
populator2 = desper.DirectoryResourcePopulator(root, nest_on_conflict=True)
populator2.add_rule('d1', FileHandle)
try:
    populator2(target)
except AttributeError as e:
    problems.append(f'variant 2: population crashed with AttributeError: {e}')
else:
    if old not in all_layers(target.get('d1'), 'a'):
        problems.append('variant 2: older handle lost')

assert not problems, '\n'.join(problems)
print('ok')

"""A rule path that exists but is a regular file is silently skipped instead
of being rejected with ValueError when the path ends with a separator
('sprites/'), or when it is '' / '.' and the root itself is a file."""
import os
import sys
import tempfile

sys.path.insert(0, os.getcwd())
import desper  # noqa: E402


class FileHandle(desper.Handle):
    def __init__(self, filename):
        self.filename = filename


root = tempfile.mkdtemp()
open(os.path.join(root, 'sprites'), 'w').close()      # a FILE, not a dir


def rejected(populator_root, rule_path):
    populator = desper.DirectoryResourcePopulator(populator_root)
    populator.add_rule(rule_path, FileHandle)
    try:
        populator(desper.ResourceMap())
    except ValueError:
        return True
    return False


# sanity: the plain spelling is rejected
assert rejected(root, 'sprites')

problems = []
if not rejected(root, 'sprites/'):
    problems.append("rule 'sprites/' (sprites is a regular file): no "
                    "ValueError, rule silently skipped")
if not rejected(os.path.join(root, 'sprites'), ''):
    problems.append("rule '' with a root that is a regular file: no "
                    "ValueError, rule silently skipped")
if not rejected(os.path.join(root, 'sprites'), '.'):
    problems.append("rule '.' with a root that is a regular file: no "
                    "ValueError, rule silently skipped")

assert not problems, '\n'.join(problems)
print('ok')

"""A fresh CoroutineProcessor keeps time in a float (``_timer = 0.``), one
that has emptied its wait queue once keeps it in an int (``_timer = 0``).
On the fresh one, exact integer waits / dts are pushed through float
arithmetic: a paused coroutine is resumed BEFORE its wait elapsed, and
large-but-legal ints make process() raise OverflowError."""
import sys
sys.path.insert(0, '.')
import desper                                               # noqa: E402

S = desper.CoroutineState
WAIT = 2 ** 53 + 1          # an int: exactly representable, no rounding


def sleeper(log):
    log.append('before')
    yield WAIT
    log.append('after')
    yield


def warmed_up():
    """A processor whose timer has been reset once (int 0)."""
    proc = desper.CoroutineProcessor()

    def one():
        yield 1
    proc.start(one())
    proc.process(1)
    proc.process(1)
    return proc


def early(proc):
    log = []
    gen = sleeper(log)
    proc.start(gen)
    proc.process(0)                     # runs up to ``yield WAIT``
    assert proc.state(gen) == S.PAUSED
    proc.process(WAIT - 1)              # one second short of the wait
    return log, proc.state(gen)


# Reference behaviour: the very same calls on a warmed-up processor
log, state = early(warmed_up())
assert (log, state) == (['before'], S.PAUSED), (log, state)

# 1) fresh processor: resumed one second early
log, state = early(desper.CoroutineProcessor())
assert log == ['before'] and state == S.PAUSED, (
    f'coroutine waiting {WAIT}s was resumed after {WAIT - 1}s on a fresh '
    f'processor: ran {log}, state {state.name} (PAUSED expected, as on a '
    'processor whose timer was reset before)')

# 2) fresh processor: process() itself fails
proc = desper.CoroutineProcessor()


def long_sleeper():
    yield 10 ** 400


gen = long_sleeper()
proc.start(gen)
try:
    proc.process(1)
except OverflowError as error:
    raise AssertionError(f'process() raised {error!r} for an int wait that '
                         'a warmed-up processor accepts')
assert proc.state(gen) == S.PAUSED

"""LOW CONFIDENCE / debatable reading of "its promise".

The caller starts a coroutine exactly once and keeps the promise.  In its
last step the body kills and re-starts itself (legal, in-body), then returns
9.  The generator returned, the caller's promise says TERMINATED, yet its
value stays None: start() silently replaced the registered promise with a
new one that nobody outside the body ever sees."""
import sys
sys.path.insert(0, '.')
import desper                                               # noqa: E402

proc = desper.CoroutineProcessor()


def body():
    yield
    proc.kill(gen)          # e.g. a generic "reset me" helper ...
    proc.start(gen)         # ... whose promise is thrown away
    return 9


gen = body()
promise = proc.start(gen)
proc.process(1)
proc.process(1)

assert promise.state == desper.CoroutineState.TERMINATED
assert promise.generator is gen
assert promise.value == 9, (
    f'generator returned 9 and the promise is TERMINATED, but promise.value '
    f'is {promise.value!r}')

"""A Controller attached to an entity ends up knowing another entity/world.

An ``on_add`` notification postponed while dispatching was disabled is
delivered later even if the controller has left that entity meanwhile and
has been attached somewhere else: it overwrites ``entity``/``world`` with
stale values, so every shorthand acts on the wrong entity.
"""
import sys
import os

sys.path.insert(0, os.getcwd())

import desper  # noqa: E402


class Ctrl(desper.Controller):
    pass


# --- Variant 1: two worlds, no user callbacks at all ----------------------
a, b = desper.World(), desper.World()
ctrl = Ctrl()

a.dispatch_enabled = False          # eg. a world that is not current yet
a.add_component(1, ctrl)            # on_add(1, a) is postponed
a.remove_component(1, Ctrl)         # ctrl leaves world a for good
b.add_component(7, ctrl)            # attached to entity 7 of b, told so
assert ctrl.world is b and ctrl.entity == 7
a.dispatch_enabled = True           # stale on_add(1, a) reaches ctrl

assert b.get_components(7) == (ctrl,) and a.get_components(1) == ()
problems = []
if ctrl.world is not b or ctrl.entity != 7:
    problems.append(
        f'two worlds: ctrl is attached to entity 7 of b only, but believes '
        f'entity={ctrl.entity!r}, world is a={ctrl.world is a}; '
        f'ctrl.get_components()={ctrl.get_components()!r} instead of '
        f'{b.get_components(7)!r}')


# --- Variant 2: one world, a plain event handler moves the controller -----
@desper.event_handler('on_move')
class Mover:

    def __init__(self, world):
        self.world = world

    def on_move(self):
        moved = self.world.remove_component(2, Ctrl)
        self.world.add_component(3, moved)


w = desper.World()
mover = Mover(w)
w.add_handler(mover)
ctrl2 = Ctrl()

w.dispatch_enabled = False
w.dispatch('on_move')               # queued first
w.add_component(2, ctrl2)           # on_add(2, w) queued second
w.dispatch_enabled = True           # on_move: 2 -> 3, then stale on_add(2)

assert w.get_components(3) == (ctrl2,) and w.get_components(2) == ()
if ctrl2.entity != 3:
    problems.append(
        f'one world: ctrl2 is attached to entity 3 only, but believes '
        f'entity={ctrl2.entity!r}; ctrl2.has_component(Ctrl)='
        f'{ctrl2.has_component(Ctrl)} while world.has_component(3, Ctrl)='
        f'{w.has_component(3, Ctrl)}')

assert not problems, '\n'.join(problems)
print('ok')

"""C04 defect 4 (borderline): a handler that was removed (but is still
alive) by an earlier callback of the same delivery still receives the
released event, although it is no longer registered when its callback runs.
The source comment (events.py:139-140) treats "removed" and "died" as the
same thing, only the second is actually honoured."""
import os
import sys

sys.path.insert(0, os.getcwd())
import desper  # noqa: E402

d = desper.EventDispatcher()
violations = []


@desper.event_handler('ev')
class Listener:
    other = None

    def ev(self, number):
        if not d.is_handler(self):
            violations.append(number)
        d.remove_handler(self.other)


a, b = Listener(), Listener()
a.other, b.other = b, a
d.add_handler(a)
d.add_handler(b)

d.dispatch_enabled = False
d.dispatch('ev', 1)
d.dispatch_enabled = True

assert not violations, (
    'released event delivered to a handler that is not registered at '
    f'delivery time (is_handler() is False inside its callback): {violations}')

"""C04 defect 1: a handler whose callback is a functools.partialmethod
(or any descriptor that builds a fresh object at every class access) gets
every released event twice after a second (normally idempotent)
add_handler(), and cannot be removed any more (remove_handler raises
KeyError and the handler keeps receiving events)."""
import functools
import os
import sys

sys.path.insert(0, os.getcwd())
import desper  # noqa: E402

log = []


@desper.event_handler('ev')
class Handler:
    def _impl(self, tag, value):
        log.append((tag, value))

    ev = functools.partialmethod(_impl, 'ev')


# Control: the same history with a plain method delivers once
@desper.event_handler('ev')
class Plain:
    def ev(self, value):
        log.append(('plain', value))


for cls in (Plain, Handler):
    log.clear()
    d = desper.EventDispatcher()
    h = cls()
    d.add_handler(h)
    d.add_handler(h)            # registering again is a no-op for Plain
    d.dispatch_enabled = False
    d.dispatch('ev', 1)
    assert log == [], log
    d.dispatch_enabled = True
    assert len(log) == 1, (
        f'{cls.__name__}: event dispatched once while disabled was '
        f'delivered {len(log)} times to the same handler: {log}')

# Second symptom (same root cause): removal fails, handler still served
log.clear()
d = desper.EventDispatcher()
h = Handler()
d.add_handler(h)
d.dispatch_enabled = False
d.dispatch('ev', 2)
try:
    d.remove_handler(h)
except KeyError as ex:
    raise AssertionError(f'remove_handler raised KeyError: {ex!r}')
d.dispatch_enabled = True
assert log == [], f'removed handler received the released event: {log}'

"""C04 defect 2: a callback that (disables and) enables dispatching while
a release is in progress makes the nested assignment drain the rest of the
queue *before* the current event has reached its remaining listeners: those
listeners receive the postponed events out of dispatch order.

Also reachable through the loop API: a callback of the current world that
calls ``loop.switch(handle_of_current_world)`` (SimpleLoop.switch assigns
``dispatch_enabled = True``)."""
import os
import sys

sys.path.insert(0, os.getcwd())
import desper  # noqa: E402

d = desper.EventDispatcher()
toggled = []


@desper.event_handler('ev')
class Listener:
    def __init__(self):
        self.received = []

    def ev(self, number):
        self.received.append(number)
        # Whoever gets event 1 first pauses and resumes dispatching
        if number == 1 and not toggled:
            toggled.append(self)
            d.dispatch_enabled = False
            d.dispatch_enabled = True


a, b = Listener(), Listener()
d.add_handler(a)
d.add_handler(b)

d.dispatch_enabled = False
for number in (1, 2, 3):
    d.dispatch('ev', number)
d.dispatch_enabled = True

for listener in (a, b):
    assert sorted(listener.received) == [1, 2, 3], listener.received  # once
    assert listener.received == [1, 2, 3], (
        'postponed events 1, 2, 3 reached a listener out of dispatch '
        f'order: {listener.received}')

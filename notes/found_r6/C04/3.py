"""C04 defect 3 (borderline, literal reading of the first clause): once a
callback disables dispatching, the remaining listeners of the event being
delivered are still called, i.e. callbacks run while dispatching is
disabled. Same with SwitchWorld-free use of ``desper.switch``-like code that
disables a world from one of its own callbacks."""
import os
import sys

sys.path.insert(0, os.getcwd())
import desper  # noqa: E402

d = desper.EventDispatcher()
ran_while_disabled = []


@desper.event_handler('ev')
class Listener:
    def ev(self, number):
        if not d.dispatch_enabled:
            ran_while_disabled.append((self, number))
        d.dispatch_enabled = False      # nested disable


a, b = Listener(), Listener()
d.add_handler(a)
d.add_handler(b)

d.dispatch_enabled = False
d.dispatch('ev', 1)
d.dispatch('ev', 2)
d.dispatch_enabled = True               # release; first callback disables

assert not ran_while_disabled, (
    'a callback ran while dispatch_enabled was False: '
    f'{[n for _, n in ran_while_disabled]}')

"""process() / clear() abort with KeyError when the on_remove callback of one
dying entity removes ANOTHER entity that is also scheduled: the rest of the
deletions are skipped and the queries keep listing entities that had to go."""
import os
import sys
sys.path.insert(0, os.getcwd())
import desper  # noqa: E402


class A:
    pass


@desper.event_handler('on_remove')
class Killer:
    """When removed, takes a (different) companion entity with it."""

    def __init__(self, other):
        self.other = other

    def on_remove(self, entity, world):
        if world.get_components(self.other):
            world.delete_entity(self.other, immediate=True)


# --- deferred deletion -----------------------------------------------------
w = desper.World()
w.create_entity(Killer(2), entity_id=1)
w.create_entity(A(), entity_id=2)
w.create_entity(A(), entity_id=3)
for e in (1, 2, 3):
    w.delete_entity(e)
try:
    w.process()
    err = None
except KeyError as ex:
    err = ex
assert err is None and w.get(A) == [], (
    f'process() raised {err!r}; entity 3 was awaiting deletion but '
    f'get(A) still lists {w.get(A)!r}')

# --- clear() ---------------------------------------------------------------
w = desper.World()
w.create_entity(Killer('b'), entity_id='a')
w.create_entity(A(), entity_id='b')
w.create_entity(A(), entity_id='c')
try:
    w.clear()
    err = None
except KeyError as ex:
    err = ex
assert err is None and w.entities == (), (
    f'clear() raised {err!r}, left entities {w.entities!r}')

"""The type index is keyed by type(component) AT ATTACH TIME and by type
equality/hash: (a) a component whose __class__ is reassigned afterwards,
(b) two classes that compare equal through their metaclass, are misreported."""
import os
import sys
sys.path.insert(0, os.getcwd())
import desper  # noqa: E402

errors = []

# (a) state-pattern: the component changes class while attached ------------
class Idle:
    pass


class Running:
    pass


w = desper.World()
c = Idle()
e = w.create_entity(c)
c.__class__ = Running               # legal Python, layouts are compatible
if w.get(Running) != [(e, c)] or w.get(Idle) or not w.has_component(
        e, Running) or w.get_component(e, Running) is not c:
    errors.append(
        f'(a) attached component is a {type(c).__name__} but get(Running)='
        f'{w.get(Running)!r}, get(Idle)={w.get(Idle)!r}, '
        f'has_component(e, Running)={w.has_component(e, Running)}')


# (b) value-equal classes ---------------------------------------------------
class ByName(type):
    def __eq__(cls, other):
        return isinstance(other, ByName) and cls.__name__ == other.__name__

    def __hash__(cls):
        return hash(cls.__name__)


P1 = ByName('P', (), {})
P2 = ByName('P', (), {})            # unrelated class, not a subclass of P1
w = desper.World()
p = P1()
e = w.create_entity(p)
if w.get(P2) or w.has_component(e, P2):
    errors.append(f'(b) get(P2) lists an instance of unrelated P1: '
                  f'{w.get(P2)!r}, has_component={w.has_component(e, P2)}')
w.add_component(e, P2())
if len(w.get_components(e)) != 2:
    errors.append('(b) adding a P2 replaced the P1 component: '
                  f'{w.get_components(e)!r}')

assert not errors, '\n'.join(errors)

"""While process() carries out a deferred deletion, the dying entity pops up
again as a LIVING entity and the queries contradict each other (observed by
a read-only on_remove callback). The immediate path is consistent."""
import os
import sys
sys.path.insert(0, os.getcwd())
import desper  # noqa: E402

seen = {}


class A:
    pass


@desper.event_handler('on_remove')
class Probe:
    def on_remove(self, entity, world):     # read-only, global queries
        seen['entities'] = world.entities
        seen['get(Probe)'] = world.get(Probe)
        seen['get(A)'] = world.get(A)


for immediate in (True, False):
    seen.clear()
    w = desper.World()
    e = w.create_entity(Probe(), A())
    w.delete_entity(e, immediate=immediate)
    if not immediate:
        assert w.entities == ()             # hidden: awaiting deletion
        w.process()
    assert w.entities == () and w.get(A) == []
    # e was awaiting deletion before and is gone after: it must never be
    # listed as alive in between, and get() must not list half of it.
    assert e not in seen['entities'], (
        f'immediate={immediate}: entity {e} reported alive by world.entities '
        f'during its deferred deletion: {seen}')
    assert bool(seen['get(Probe)']) == bool(seen['get(A)']), (
        f'immediate={immediate}: get() lists only part of the entity: {seen}')

"""A deferred delete_entity() of an id that owns nothing is silently kept:
the next entity that gets this id (even an automatic one) is born 'dead',
and process() blows up with KeyError if no entity takes the id."""
import os
import sys
sys.path.insert(0, os.getcwd())
import desper  # noqa: E402


class A:
    pass


w = desper.World()
try:
    w.delete_entity(1)          # documented: "Raises a KeyError if the given
except KeyError:                # entity does not exist" - it does not raise
    pass

e = w.create_entity(A())        # automatic id -> 1
assert w.get(A) and w.get(A)[0][0] == e and w.has_component(e, A)
assert w.entity_exists(e) and e in w.entities, (
    f'fresh entity {e!r} owns a component (get(A)={w.get(A)!r}) but '
    f'entity_exists={w.entity_exists(e)}, entities={w.entities!r}: '
    'a delete request issued BEFORE it existed was kept')

w.process()
assert w.get(A), 'the fresh entity was destroyed by a stale request'

"""remove_component(e, object) removes TWO components when one of them is None."""
import os
import sys
sys.path.insert(0, os.getcwd())
import desper  # noqa: E402

w = desper.World()
e = w.create_entity(None, 5)        # a NoneType component and an int component
assert len(w.get_components(e)) == 2

removed = w.remove_component(e, object)   # documented: only the FIRST match

left = w.get_components(e)
assert len(left) == 1, (
    f'remove_component(e, object) returned {removed!r} but removed 2 '
    f'components: left={left!r}, entity_exists={w.entity_exists(e)}, '
    f'get(object)={w.get(object)!r}')

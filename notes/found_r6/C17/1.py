"""Snapshot with a non-identifier name exposes a writable __dict__:
attributes of the snapshot (and of sub-maps) can be set and deleted through
vars() without anything raising."""
import os
import sys
sys.path.insert(0, os.getcwd())
import desper  # noqa: E402


class H(desper.Handle):
    def __init__(self, v):
        self.v = v

    def load(self):
        return self.v


m = desper.ResourceMap()
h = H('original')
m['a b'] = h                 # non identifier name -> snapshot gets a __dict__
m['sub/c d'] = H('inner')
snap = m.get_static_map()

problems = []
try:
    vars(snap)['a b'] = H('replaced')
except Exception:
    pass
else:
    problems.append('setting attribute "a b" through vars(snap) did not raise')
if snap.get('a b') is not h:
    problems.append('snapshot changed: get("a b") no longer the map handle '
                    f'(now loads {snap["a b"]!r}, map loads {m["a b"]!r})')

try:
    del vars(snap.sub)['c d']
except Exception:
    pass
else:
    problems.append('deleting attribute "c d" of the sub-map did not raise')
if not hasattr(snap.sub, 'c d'):
    problems.append('sub-map lost "c d" which the map still has')

try:
    snap.__dict__['ghost'] = 1
except Exception:
    pass
else:
    problems.append('adding attribute "ghost" did not raise')
if hasattr(snap, 'ghost'):
    problems.append('name "ghost" absent from the map is now in the snapshot')

assert not problems, 'static map is not immutable: ' + '; '.join(problems)
print('ok')

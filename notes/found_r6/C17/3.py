"""Resource names that are special to Python's object model but are NOT members
of a snapshot (__weakref__, __dict__, __getattr__) break the mirror."""
import os
import sys
sys.path.insert(0, os.getcwd())
import desper  # noqa: E402
from desper.model.tree import StaticResourceMap  # noqa: E402


class H(desper.Handle):
    def __init__(self, v):
        self.v = v

    def load(self):
        return self.v


problems = []
plain = StaticResourceMap()
for name in ('__weakref__', '__dict__', '__getattr__'):
    # none of these is a member of a snapshot: no collision
    assert not hasattr(plain, name), name

for name in ('__weakref__', '__dict__'):
    m = desper.ResourceMap()
    m[name] = H(name)
    assert m[name] == name
    try:
        snap = m.get_static_map()
        assert snap[name] == name and snap.get(name) is m.get(name)
    except Exception as e:
        problems.append(f'{name!r}: get_static_map() -> {e!r}')

# __getattr__: the snapshot is built, but absent names stop being absent
m = desper.ResourceMap()
m['__getattr__'] = H('hook')
snap = m.get_static_map()
assert snap['__getattr__'] == 'hook'
try:
    snap['missing']
except AttributeError:
    pass
except Exception as e:
    problems.append("'__getattr__': looking up an absent name calls the "
                    f'handle as a hook -> {e!r}')

assert not problems, '; '.join(problems)
print('ok')

"""A deep (but perfectly usable) resource tree cannot be snapshotted:
get_static_map() dies with RecursionError although the map itself resolves the
same path iteratively."""
import os
import sys
sys.path.insert(0, os.getcwd())
import desper  # noqa: E402


class H(desper.Handle):
    def load(self):
        return 'leaf'


DEPTH = 500       # default recursion limit (1000) is left untouched
path = '/'.join(['d'] * DEPTH)
m = desper.ResourceMap()
m[path] = H()
assert m[path] == 'leaf'          # the map walks it fine

try:
    snap = m.get_static_map()
except RecursionError as e:
    raise AssertionError(
        f'get_static_map() failed on a tree of depth {DEPTH} '
        f'(RecursionError: {e}); the property is stated for any depth')

node = snap
for _ in range(DEPTH - 1):
    node = node['d']
assert node['d'] == 'leaf'
print('ok')

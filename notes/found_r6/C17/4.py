"""Two further, more debatable, departures:
 (a) composite paths ('a/b') resolve on the map but not on the snapshot;
 (b) calling snap.__init__() again silently rewrites the snapshot from the
     current state of the map (the snapshot is not frozen)."""
import os
import sys
sys.path.insert(0, os.getcwd())
import desper  # noqa: E402


class H(desper.Handle):
    def __init__(self, v):
        self.v = v

    def load(self):
        return self.v


problems = []

# (a)
m = desper.ResourceMap()
m['a/b'] = H('deep')
snap = m.get_static_map()
assert snap['a']['b'] == m['a/b'] == 'deep'
for what, fn in (("snap['a/b']", lambda: snap['a/b']),
                 ("snap.get('a/b')", lambda: snap.get('a/b'))):
    try:
        fn()
    except Exception as e:
        problems.append(f"(a) {what} -> {e!r} while the map resolves 'a/b'")

# (b)
m = desper.ResourceMap()
h1 = H(1)
m['x'] = h1
snap = m.get_static_map()
m['x'] = H(2)                      # the map moves on, the snapshot must not
assert snap.get('x') is h1
try:
    snap.__init__()
except Exception:
    pass
if snap.get('x') is not h1:
    problems.append('(b) snap.__init__() replaced attribute x of the snapshot '
                    'without raising')

assert not problems, '; '.join(problems)
print('ok')

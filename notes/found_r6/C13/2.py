"""on_switch_in is dropped (instead of held) when the entered world has no
listener for it YET: a listener created by one of the world's own pending
load-time callbacks (on_add) never receives it, although on_switch_in is
supposed to come after those callbacks."""
import os
import sys

sys.path.insert(0, os.getcwd())

import desper                                   # noqa: E402

log = []


@desper.event_handler('on_switch_in')
class Greeter:
    def on_switch_in(self, from_world, to_world):
        log.append(('in', from_world, to_world))


@desper.event_handler('on_add')
class Spawner:
    """Load-time callback populating the world (eg. a level builder)."""

    def on_add(self, entity, world):
        log.append('spawner on_add')
        world.create_entity(Greeter())


class Driver(desper.Processor):
    def process(self, dt):
        log.append(('frame', self.world))
        if self.world is first_handle():
            desper.switch(second_handle)
        desper.quit_loop()


def populate_first(world_handle, world):
    world.add_processor(Driver())


def populate_second(world_handle, world):
    world.add_processor(Driver())
    world.create_entity(Spawner())


first_handle = desper.WorldHandle()
first_handle.transform_functions.append(populate_first)
second_handle = desper.WorldHandle()
second_handle.transform_functions.append(populate_second)

desper.default_loop.switch(first_handle)
desper.default_loop.start()

first, second = first_handle(), second_handle()
assert desper.default_loop.current_world is second
assert log[:3] == [('frame', first), 'spawner on_add',
                   ('in', first, second)] and log[3:] == [('frame', second)], (
    'on_switch_in was not delivered after the load-time callbacks of the '
    f'entered world: {[e if isinstance(e, str) else e[0] for e in log]}')
print('ok')

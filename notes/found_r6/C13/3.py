"""An on_switch_out listener that frees the cached worlds (Handle.clear on the
handles of the resource map, target included) makes on_switch_in go to a world
that is thrown away: the loop loads the target again and that instance, the
one that runs, never hears on_switch_in."""
import os
import sys

sys.path.insert(0, os.getcwd())

import desper                                   # noqa: E402

log = []
frames = []
resources = desper.ResourceMap()


@desper.event_handler('on_switch_in', 'on_switch_out')
class Listener:
    def __init__(self, world):
        self.world = world

    def on_switch_in(self, from_world, to_world):
        log.append(('in', self.world, from_world, to_world))

    def on_switch_out(self, from_world, to_world):
        log.append(('out', self.world, from_world, to_world))
        # Leaving: free every level kept in memory
        for handle in resources.get('worlds').handles.values():
            handle.clear()


class Driver(desper.Processor):
    def process(self, dt):
        frames.append(self.world)
        if len(frames) == 1:
            desper.switch(resources.get('worlds/second'))
        desper.quit_loop()


def populate(world_handle, world):
    world.add_processor(Driver())
    world.create_entity(Listener(world))


for name in 'first', 'second':
    handle = desper.WorldHandle()
    handle.transform_functions.append(populate)
    resources['worlds/' + name] = handle

desper.default_loop.switch(resources.get('worlds/first'))
desper.default_loop.start()

first, running = frames
assert running is desper.default_loop.current_world
assert running is resources['worlds/second']

outs = [entry for entry in log if entry[0] == 'out']
ins = [entry for entry in log if entry[0] == 'in']
assert len(outs) == 1 and outs[0][1] is first
assert outs[0][3] is running, (
    'on_switch_out announced a world that is not the one that runs')
assert [entry[1] for entry in ins] == [running], (
    'on_switch_in was not delivered in the world that runs '
    f'({len(ins)} delivered in total)')
print('ok')

"""switch(current_handle, clear_current=True) after the current handle lost
its cache: on_switch_in goes to a world that is thrown away, the world that
actually runs never receives it (and the handle is loaded twice)."""
import os
import sys

sys.path.insert(0, os.getcwd())

import desper                                   # noqa: E402

log = []
loads = []


@desper.event_handler('on_switch_in', 'on_switch_out')
class Listener:
    def __init__(self, world):
        self.world = world

    def on_switch_in(self, from_world, to_world):
        log.append(('in', self.world, from_world, to_world))

    def on_switch_out(self, from_world, to_world):
        log.append(('out', self.world, from_world, to_world))


class Driver(desper.Processor):
    frames = []

    def process(self, dt):
        Driver.frames.append(self.world)
        if len(Driver.frames) == 1:
            # Free the resource (e.g. a "reload level" feature) and ask
            # for a fresh instance of the very same handle
            handle.clear()
            desper.switch(handle, clear_current=True)
        desper.quit_loop()


def populate(world_handle, world):
    loads.append(world)
    world.add_processor(Driver())
    world.create_entity(Listener(world))


handle = desper.WorldHandle()
handle.transform_functions.append(populate)

desper.default_loop.switch(handle)
desper.default_loop.start()

first, running = Driver.frames
assert running is not first, 'clear_current did not give a fresh instance'
assert running is desper.default_loop.current_world

outs = [entry for entry in log if entry[0] == 'out']
ins = [entry for entry in log if entry[0] == 'in']
assert len(outs) == 1 and outs[0][1] is first, outs
assert outs[0][3] is running, (
    'on_switch_out announced a world that is not the one that runs '
    f'(loaded {len(loads)} worlds, announced #{loads.index(outs[0][3])}, '
    f'running #{loads.index(running)})')
assert [entry[1] for entry in ins] == [running], (
    'on_switch_in was not delivered in the world that runs: '
    f'{[loads.index(entry[1]) for entry in ins]}')
print('ok')

"""C10: a World (or any dispatcher with >= 1 listener) that is itself a
handler of another dispatcher is kept alive by its own bookkeeping, hence
is still registered and still called after the program dropped it."""
import sys
import gc
import weakref
sys.path.insert(0, '.')
import desper    # noqa: E402

gc.disable()     # no collector pass may happen between the two statements
calls = []


@desper.event_handler('on_quit')
class Level(desper.World):
    def on_quit(self):
        calls.append('level notified')


hub = desper.EventDispatcher()       # e.g. an application wide bus
level = Level()
hub.add_handler(level)
probe = weakref.ref(level)

del level                            # last reference of the program
hub.dispatch('on_quit')

assert probe() is None and not calls, (
    'the dropped World is kept alive by itself (world -> _handlers -> '
    '_HandlerRef -> bound _remove_weak_handler -> world), so it is still '
    'registered in the other dispatcher and was called: %r' % calls)

"""C10: a dead handler stays registered when its callback is a descriptor
that yields a fresh object on each class access (functools.partialmethod,
functools.singledispatchmethod)."""
import sys
import functools
sys.path.insert(0, '.')
import desper    # noqa: E402

unraisable = []
sys.unraisablehook = lambda u: unraisable.append(u.exc_value)


class Listener:
    __events__ = {'ev': 'on_ev'}
    calls = []

    def _impl(self, tag, *args):
        Listener.calls.append((tag, args))

    on_ev = functools.partialmethod(_impl, 'tagged')


d = desper.EventDispatcher()
h = Listener()
d.add_handler(h)
d.dispatch('ev', 1)
assert Listener.calls == [('tagged', (1,))], Listener.calls   # works fine

del h       # the program drops its last reference

assert not unraisable, (
    'dropping the last reference to a handler made the dispatcher raise '
    'inside its weak reference callback: %r' % unraisable)
assert not d._handlers and not d._events['ev'], (
    'dead handler is still registered: %r %r' % (d._handlers, d._events))

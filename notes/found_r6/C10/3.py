"""C10 (literal reading, probably by design): a World whose dispatching is
disabled keeps removed handlers alive in its event queue and calls them
after the program dropped them."""
import sys
import gc
import weakref
sys.path.insert(0, '.')
import desper    # noqa: E402

gc.disable()
log = []


@desper.event_handler('on_add', 'on_remove')
class Comp:
    def on_add(self, entity, world):
        log.append('on_add')

    def on_remove(self, entity, world):
        log.append('on_remove')


world = desper.World()
world.dispatch_enabled = False          # e.g. a switched-out world
comp = Comp()
probe = weakref.ref(comp)
entity = world.create_entity(comp)
world.delete_entity(entity, immediate=True)
assert not world.is_handler(comp) and not world.entities
del comp                                # last reference of the program

alive = probe() is not None
world.dispatch_enabled = True
assert not alive and not log, (
    'World kept the dropped, unregistered handler alive in its event queue '
    '(alive=%r) and called it afterwards: %r' % (alive, log))

"""The priority is stored on the processor instance, not in the world:
giving the same instance to a second world with another explicit priority
silently re-prioritises it in the first world, whose list is then unsorted
(and later insertions bisect an unsorted list)."""
import os
import sys

sys.path.insert(0, os.getcwd())

import desper                                               # noqa: E402

log = []


def make(tag):
    class Proc(desper.Processor):
        def process(self, dt=1):
            log.append(tag)
    Proc.__name__ = tag
    return Proc


A, B, C, D = (make(t) for t in 'ABCD')

first, second = desper.World(), desper.World()
first.add_processor(A(), 2)
shared = B()
first.add_processor(shared, 5)
first.add_processor(C(), 8)

second.add_processor(shared, -5)    # only the second world is touched ...
first.add_processor(D(), 3)         # ... but the first one is corrupted

first.process(1)
priorities = [p.priority for p in first.processors]
assert priorities == sorted(priorities), (
    f'first.processors is not in priority order: {priorities}, '
    f'called {log}')
# explicit priorities given to first: A=2, D=3, B=5, C=8
assert log == ['A', 'D', 'B', 'C'], log

"""A virtual subclass of Processor (Processor.register) has no class
default priority: adding it without an explicit priority raises, and when it
replaces a processor of the same type the old one is already gone."""
import os
import sys

sys.path.insert(0, os.getcwd())

import desper                                               # noqa: E402

log = []


@desper.Processor.register
class Duck:
    def __init__(self, tag):
        self.tag = tag

    def process(self, dt=1):
        log.append((self.tag, dt))


assert issubclass(Duck, desper.Processor)
assert isinstance(Duck('x'), desper.Processor)

world = desper.World()
old = Duck('old')
world.add_processor(old, 4)         # explicit priority: accepted
world.process(1)
assert log == [('old', 1)]

new = Duck('new')
try:
    world.add_processor(new)        # documented default priority is 0
except AttributeError as e:
    state = [p.tag for p in world.processors]
    raise AssertionError(
        f'add_processor of a Processor (virtual subclass) without explicit '
        f'priority raised {e!r}; world now holds {state} (old one was '
        f'removed, new one was not added)')

world.process(2)
assert log[1:] == [('new', 2)], log
assert new.priority == 0 and new.world is world

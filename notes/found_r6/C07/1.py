"""Processor classes whose metaclass compares classes by value.

Two distinct processor classes that compare (and hash) equal are mistaken
for one another: the first one gets on_remove, disappears from
get_processor, but stays in World.processors and keeps being processed.
"""
import abc
import os
import sys

sys.path.insert(0, os.getcwd())

import desper                                               # noqa: E402


class ByName(abc.ABCMeta):
    """Classes are equal when they share their name (eg. reloaded
    modules, generated classes)."""

    def __eq__(cls, other):
        return isinstance(other, ByName) and cls.__name__ == other.__name__

    def __hash__(cls):
        return hash(cls.__name__)


log = []


def make(tag):
    @desper.event_handler('on_add', 'on_remove')
    class Mover(desper.Processor, metaclass=ByName):
        def process(self, dt=1):
            log.append(('process', tag, dt))

        def on_add(self):
            log.append(('on_add', tag))

        def on_remove(self):
            log.append(('on_remove', tag))

    return Mover


First, Second = make('first'), make('second')
assert First is not Second and First == Second

world = desper.World()
first, second = First(), Second()
world.add_processor(first)
world.add_processor(second)
world.process(3)

removed = ('on_remove', 'first') in log
called = ('process', 'first', 3) in log
listed = any(p is first for p in world.processors)

# Either reading of "exact type" is fine, but not a mixture of the two:
# a processor that got on_remove must be gone for good.
assert not (removed and (called or listed)), (
    f'first got on_remove yet is still listed={listed} / called={called}; '
    f'log={log}, processors={world.processors}')
# And since the two types are different objects, both should be kept
assert not removed and called and listed, (
    f'a processor of another exact type was replaced: {log}')

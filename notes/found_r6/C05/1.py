"""process() raises KeyError when the on_remove of one deferred-deleted
entity finishes off ANOTHER entity whose deferred deletion is pending in
the same frame (immediate delete / its last component removed)."""
import os
import sys

sys.path.insert(0, os.getcwd())
import desper  # noqa: E402


class Plain:
    pass


@desper.event_handler('on_remove')
class Owner:
    """When it goes away, it takes its sidekick entity with it."""

    def __init__(self, sidekick, how):
        self.sidekick = sidekick
        self.how = how

    def on_remove(self, entity, world):
        # Touches only the OTHER entity, never the one being processed
        if self.how == 'immediate':
            world.delete_entity(self.sidekick, immediate=True)
        else:
            world.remove_component(self.sidekick, Plain)


failures = []
for how in ('immediate', 'remove last component'):
    world = desper.World()
    owner = world.create_entity(Owner(2, how))
    sidekick = world.create_entity(Plain())
    assert (owner, sidekick) == (1, 2)

    # Both entities exist when delete_entity is called (within quantifier)
    world.delete_entity(owner)
    world.delete_entity(sidekick)
    assert world.entities == ()
    assert len(world.get_components(sidekick)) == 1

    try:
        world.process()
    except Exception as ex:
        failures.append(f'{how}: process() raised {ex!r}')
        continue

    assert not world.get_components(owner)
    assert not world.get_components(sidekick)

assert not failures, (
    'process() must complete whatever happened to a deferred-deleted '
    'entity in between, but: ' + '; '.join(failures))
print('ok')

"""A brand new entity that nobody deleted is destroyed by process():
the on_remove of a deferred-deleted entity deletes another pending entity
immediately and reuses its (now free) identifier for a new entity. The
stale snapshot in _clear_dead_entities then kills the new entity."""
import os
import sys

sys.path.insert(0, os.getcwd())
import desper  # noqa: E402

removed = []


@desper.event_handler('on_remove')
class Tracked:
    def __init__(self, name):
        self.name = name

    def on_remove(self, entity, world):
        removed.append(self.name)


@desper.event_handler('on_remove')
class Respawner:
    """When its entity dies, respawn entity 2 from scratch."""

    def on_remove(self, entity, world):
        world.delete_entity(2, immediate=True)      # another entity
        world.create_entity(Tracked('new'), entity_id=2)


world = desper.World()
first = world.create_entity(Respawner())
second = world.create_entity(Tracked('old'))
assert (first, second) == (1, 2)

world.delete_entity(first)
world.delete_entity(second)     # exists right now: within the quantifier

world.process()

# 'old' was deleted immediately, which fulfils (and drops) its deferred
# request: "after which the identifier is free again". The entity created
# afterwards under the free identifier was never deleted by anybody.
assert removed.count('old') == 1, removed
assert world.entity_exists(2) and 'new' not in removed, (
    'entity 2 was re-created after its deletion had been fulfilled and '
    'nobody deleted it again, yet process() destroyed it: '
    f'removed={removed}, entities={world.entities}')
print('ok')

"""A WorldFromFileHandle that is not stored in a ResourceMap cannot load ANY
file, even one without a single $res{}/$handle{} reference."""
import sys, os, json, tempfile, types
sys.path.insert(0, os.getcwd())
import desper

mod = types.ModuleType('c15_f4')


class Comp:
    def __init__(self, val):
        self.val = val


mod.Comp = Comp
sys.modules['c15_f4'] = mod

fn = os.path.join(tempfile.mkdtemp(), 'w.json')
with open(fn, 'w') as f:
    json.dump({'entities': [{'id': 'e', 'components': [
        {'type': 'c15_f4.Comp', 'args': ['${c15_f4.Comp}']}]}]}, f)

try:
    world = desper.WorldFromFileHandle(fn)()
except TypeError as ex:
    raise AssertionError(
        'description without resource references failed to load from a '
        'free-standing handle: ' + str(ex).splitlines()[-1]) from None

assert world.get_component('e', Comp).val is Comp

"""A deeply nested (but perfectly parseable) JSON argument makes the load fail
with RecursionError inside the defensive copy of the description."""
import sys, os, json, tempfile, types
sys.path.insert(0, os.getcwd())
import desper

DEPTH = 600

mod = types.ModuleType('c15_f6')


class Comp:
    def __init__(self, val):
        self.val = val


mod.Comp = Comp
sys.modules['c15_f6'] = mod

nested = '[' * DEPTH + ']' * DEPTH
text = ('{"entities": [{"components": [{"type": "c15_f6.Comp", "args": [%s]}]}'
        ']}' % nested)
expected = json.loads(nested)               # the json module is fine with it
desper.populate_world_from_dict(            # ... and so is the dict loader
    desper.World(), {'entities': [{'components': [
        {'type': Comp, 'args': [expected]}]}]})

fn = os.path.join(tempfile.mkdtemp(), 'w.json')
with open(fn, 'w') as f:
    f.write(text)

root = desper.ResourceMap()
root['w'] = handle = desper.WorldFromFileHandle(fn)
try:
    world = handle()
except RecursionError:
    raise AssertionError(
        f'JSON argument nested {DEPTH} levels (accepted by json.load and by '
        'populate_world_from_dict) makes the file loader raise '
        'RecursionError') from None

depth, val = 0, world.get(Comp)[0][1].val
while val:
    depth, val = depth + 1, val[0]
assert depth == DEPTH - 1

"""Listing the same processor type twice, or listing one of the default
processor types, silently drops processors."""
import sys, os, json, tempfile, types
sys.path.insert(0, os.getcwd())
import desper

mod = types.ModuleType('c15_f7')


class Spawner(desper.Processor):
    def __init__(self, what):
        self.what = what

    def process(self, dt=1):
        pass


mod.Spawner = Spawner
sys.modules['c15_f7'] = mod

fn = os.path.join(tempfile.mkdtemp(), 'w.json')
with open(fn, 'w') as f:
    json.dump({'processors': [
        {'type': 'c15_f7.Spawner', 'args': ['enemies']},
        {'type': 'c15_f7.Spawner', 'args': ['coins']},
        {'type': 'desper.OnUpdateProcessor'},
    ]}, f)

root = desper.ResourceMap()
root['w'] = handle = desper.WorldFromFileHandle(fn)
world = handle()

names = [type(p).__name__ for p in world.processors]
listed = names[2:]
assert names[:2] == ['OnUpdateProcessor', 'CoroutineProcessor'], (
    f'default processors must come first, in order; got {names}')
assert listed == ['Spawner', 'Spawner', 'OnUpdateProcessor'], (
    f'3 processors listed, world has {listed} after the default ones')

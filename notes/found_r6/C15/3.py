"""An entity without id listed before an entity whose explicit id equals the
automatically generated one: the two entities are fused."""
import sys, os
sys.path.insert(0, os.getcwd())
import desper


class A:
    pass


class B:
    pass


desc = {'entities': [
    {'components': [{'type': A}]},              # gets automatic id 1
    {'id': 1, 'components': [{'type': B}]},     # explicit id 1
]}

world = desper.World()
desper.populate_world_from_dict(world, desc)

assert len(world.entities) == 2, (
    f'2 entities listed, world contains {world.entities}')
assert [type(c) for c in world.get_components(1)] == [B], (
    'entity listed with id 1 must have exactly [B], has '
    f'{[type(c).__name__ for c in world.get_components(1)]}')

"""object_from_string is lru_cached: a second load gets the object the name
denoted during the first load, not the one it denotes now."""
import sys, os, json, tempfile, types
sys.path.insert(0, os.getcwd())
import desper

mod = types.ModuleType('c15_f2')


class Comp:
    def __init__(self, val):
        self.val = val


mod.Comp = Comp
mod.DIFFICULTY = 'easy'
sys.modules['c15_f2'] = mod

fn = os.path.join(tempfile.mkdtemp(), 'w.json')
with open(fn, 'w') as f:
    json.dump({'entities': [{'components': [
        {'type': 'c15_f2.Comp', 'args': ['${c15_f2.DIFFICULTY}']}]}]}, f)


def load():
    root = desper.ResourceMap()
    root['w'] = handle = desper.WorldFromFileHandle(fn)
    world = handle()
    return world.get(Comp)[0][1]


assert load().val == 'easy'

mod.DIFFICULTY = 'hard'           # e.g. changed from an options menu


class Comp2(Comp):                # e.g. importlib.reload() / hot reload
    pass


mod.Comp = Comp2

comp = load()
assert comp.val == 'hard', (
    '${c15_f2.DIFFICULTY} names the object %r now, the freshly loaded world '
    'got the stale %r' % (mod.DIFFICULTY, comp.val))
assert type(comp) is Comp2, 'stale "type" as well'

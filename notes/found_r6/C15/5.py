"""World files are opened with the locale encoding instead of UTF-8: non-ASCII
string arguments are mangled or unreadable outside UTF-8 locales (C/POSIX
without coercion, Windows code pages)."""
import sys, os, json, tempfile, types, subprocess
sys.path.insert(0, os.getcwd())

if len(sys.argv) > 1:            # child: load the file and report the argument
    import desper

    mod = types.ModuleType('c15_f5')
    mod.Comp = type('Comp', (), {
        '__init__': lambda self, val: setattr(self, 'val', val)})
    sys.modules['c15_f5'] = mod
    root = desper.ResourceMap()
    root['w'] = handle = desper.WorldFromFileHandle(sys.argv[1])
    print(ascii(handle().get(mod.Comp)[0][1].val))
    sys.exit(0)

fn = os.path.join(tempfile.mkdtemp(), 'w.json')
with open(fn, 'w', encoding='utf-8') as f:      # JSON text is UTF-8 (RFC 8259)
    json.dump({'entities': [{'components': [
        {'type': 'c15_f5.Comp', 'args': ['café']}]}]}, f,
        ensure_ascii=False)

env = {**os.environ, 'LC_ALL': 'C', 'PYTHONCOERCECLOCALE': '0',
       'PYTHONUTF8': '0'}
res = subprocess.run([sys.executable, __file__, fn], env=env,
                     capture_output=True, text=True)
assert res.returncode == 0 and res.stdout.strip() == ascii('café'), (
    'string argument "caf\\u00e9" did not pass through unchanged under a '
    'non UTF-8 locale: ' + (res.stdout.strip() or
                            res.stderr.strip().splitlines()[-1]))

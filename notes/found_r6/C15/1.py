"""${name} whose value is a string looking like $res{..}/$handle{..} is
substituted a second time by the resource transformer."""
import sys, os, json, tempfile, types
sys.path.insert(0, os.getcwd())
import desper

mod = types.ModuleType('c15_f1')
mod.HINT = '$res{texts.greeting}'        # just a string constant
mod.HINT2 = '$handle{texts.greeting}'


class Comp:
    def __init__(self, *args, **kwargs):
        self.args, self.kwargs = args, kwargs


mod.Comp = Comp
sys.modules['c15_f1'] = mod


class Const(desper.Handle):
    def load(self):
        return 'hello'


fn = os.path.join(tempfile.mkdtemp(), 'w.json')
with open(fn, 'w') as f:
    json.dump({'entities': [{'components': [
        {'type': 'c15_f1.Comp', 'args': ['${c15_f1.HINT}'],
         'kwargs': {'k': '${c15_f1.HINT2}'}}]}]}, f)

root = desper.ResourceMap()
root['texts/greeting'] = Const()
root['worlds/w'] = handle = desper.WorldFromFileHandle(fn)
world = handle()
(_, comp), = world.get(Comp)

assert comp.args == (mod.HINT,), (
    f'${{c15_f1.HINT}} must be replaced by the named object {mod.HINT!r}, '
    f'component received {comp.args[0]!r}')
assert comp.kwargs == {'k': mod.HINT2}, (
    f'kwarg must be {mod.HINT2!r}, component received {comp.kwargs["k"]!r}')

"""Resources whose name contains a dot (the DEFAULT of the directory populator:
extensions are kept) cannot be referenced from a world file."""
import sys, os, json, tempfile, types
sys.path.insert(0, os.getcwd())
import desper

mod = types.ModuleType('c15_f8')


class Comp:
    def __init__(self, *args):
        self.args = args


mod.Comp = Comp
sys.modules['c15_f8'] = mod


class TextHandle(desper.Handle):
    def __init__(self, filename):
        self.filename = filename

    def load(self):
        with open(self.filename) as f:
            return f.read()


base = tempfile.mkdtemp()
os.makedirs(os.path.join(base, 'texts'))
os.makedirs(os.path.join(base, 'worlds'))
with open(os.path.join(base, 'texts', 'hello.txt'), 'w') as f:
    f.write('hi')
with open(os.path.join(base, 'worlds', 'w.json'), 'w') as f:
    json.dump({'entities': [{'components': [
        {'type': 'c15_f8.Comp',
         'args': ['$res{texts.hello.txt}', '$handle{texts.hello.txt}']}]}]}, f)

populator = desper.DirectoryResourcePopulator(base)      # default settings
populator.add_rule('texts', TextHandle)
populator.add_rule('worlds', desper.WorldFromFileHandle)
root = desper.ResourceMap()
populator(root)
assert root['texts/hello.txt'] == 'hi'        # the resource path exists

try:
    world = root['worlds/w.json']
except KeyError as ex:
    raise AssertionError('$res{texts.hello.txt} does not reach the resource '
                         'texts/hello.txt: KeyError') from None
comp = world.get(Comp)[0][1]
assert comp.args[0] == 'hi', comp.args
assert comp.args[1] is root.get('texts/hello.txt'), (
    f'$handle{{texts.hello.txt}} gave {comp.args[1]!r}')

"""C11: a back-link goes stale when one of two names of a value goes away.

Three short histories, all __setitem__/clear only.  In each, the value ends
up stored under exactly ONE name, reachable from the root, and yet records a
different (or no) container/name.
"""
import sys
sys.path.insert(0, '.')

import desper
from desper.model import ResourceMap, Handle


class H(Handle):
    def load(self):
        return 'resource'


def backlink_ok(root, path):
    """The value at root[path] records the map holding it and its name."""
    *front, last = path.split('/')
    holder = root.get('/'.join(front)) if front else root
    value = root.get(path)
    return value.parent is holder and value.key == last


errors = []

# (1) same map, the later name is re-assigned
m = ResourceMap()
h = H()
m['a'] = h
m['b'] = h
m['b'] = H()                      # 'b' now denotes another handle
if not backlink_ok(m, 'a'):
    errors.append(f"(1) m['a'] is h, stored only as 'a', but h.key == "
                  f"{h.key!r} (m[{h.key!r}] is a different handle)")

# (2) two maps, the later holder is cleared
root = ResourceMap()
h = H()
root['lvl1/tex'] = h
root['lvl2/tex'] = h
root['lvl2'].clear()
if not backlink_ok(root, 'lvl1/tex'):
    errors.append(f"(2) root['lvl1/tex'] still is h, but h.parent is "
                  f"{h.parent!r} / h.key is {h.key!r} after clearing lvl2")

# (3) a sub-map: later name replaced by a handle -> stale parent, and the
# only real holder can then no longer detach it
root = ResourceMap()
sub = ResourceMap()
root['x/s'] = sub
root['y/s'] = sub
root['y/s'] = H()
holder = root.get('x')
if not backlink_ok(root, 'x/s'):
    errors.append("(3) root['x/s'] is sub, but sub.parent is root['y'], "
                  "which does not contain it")
holder.clear()
if sub.parent is not None:
    errors.append("(3b) root['x'].clear() did not detach its direct child "
                  "sub (sub.parent is still the stale root['y'])")

assert not errors, '\n'.join(errors)
print('ok')

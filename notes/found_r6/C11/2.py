"""C11: composed keys bypass the accessors of intermediate sub-maps.

A ResourceMap subclass that fills itself on first access (a lazy directory
map) is a perfectly good sub-map when reached step by step, but the composed
key of the parent reads its `.maps` / `.handles` attributes directly.
"""
import sys
sys.path.insert(0, '.')

import desper
from desper.model import ResourceMap, Handle


class H(Handle):
    def load(self):
        return 'resource'


class LazyMap(ResourceMap):
    """Populates itself the first time it is queried."""
    _filled = False

    def _fill(self):
        if not self._filled:
            self._filled = True
            ResourceMap.__setitem__(self, 'b/c', H())

    def get(self, key, default=None):
        self._fill()
        return super().get(key, default)

    def __getitem__(self, key):
        self._fill()
        return super().__getitem__(key)


def probe(make_root):
    """Return (composed [], stepwise [], composed get) outcome."""
    out = []
    for query in (lambda m: m['a/b/c'],
                  lambda m: m['a']['b']['c'],
                  lambda m: m.get('a/b/c', 'DEFAULT')):
        m = make_root()
        try:
            out.append(query(m))
        except KeyError:
            out.append('KeyError')
    return out


def make_root():
    m = ResourceMap()
    m['a'] = LazyMap()
    return m


composed, stepwise, got = probe(make_root)
assert stepwise == 'resource', stepwise
assert composed == stepwise, (
    f"m['a']['b']['c'] == {stepwise!r} but m['a/b/c'] -> {composed} "
    f"and m.get('a/b/c') -> {got!r}: the composed key never calls the "
    "sub-map's own get/__getitem__")
print('ok')

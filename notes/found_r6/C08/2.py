"""process() itself raises (not the coroutine body) when a coroutine of a
fresh processor yields a huge exact int or a Decimal; a processor whose
timer has been reset once handles the same history fine."""
import sys
import os
sys.path.insert(0, os.getcwd())
from decimal import Decimal

import desper


def body(log, wait):
    log.append('a')
    yield wait
    log.append('a')


def other(log):
    while True:
        log.append('b')
        yield


def history(processor, wait):
    """Return the per frame logs, or the exception raised by process."""
    log = []
    processor.start(body(log, wait))
    processor.start(other(log))
    frames = []
    for dt in (1, 1, 1):
        del log[:]
        try:
            processor.process(dt)
        except Exception as exc:     # raised by the processor, not the body
            frames.append(repr(exc))
        else:
            frames.append(''.join(log))
    return frames


def used_processor():
    processor = desper.CoroutineProcessor()
    processor.start(x for x in [1])     # wait once, wake, timer is reset
    for _ in range(3):
        processor.process(1)
    return processor


for wait, expected in ((10 ** 400, ['ab', 'b', 'b']),
                       (Decimal(2), ['ab', 'b', 'ba'])):
    used = history(used_processor(), wait)
    assert used == expected, (wait, used)
    fresh = history(desper.CoroutineProcessor(), wait)
    assert fresh == expected, (
        f'yield {wait!r:.12}...: a fresh processor gives {fresh} instead of '
        f'{expected} (a processor whose timer was reset once gives {used})')

"""A fresh CoroutineProcessor wakes a coroutine one frame LATE with exact
(Fraction) time steps, while the very same processor is exact once its
internal timer has been reset for the first time."""
import sys
import os
sys.path.insert(0, os.getcwd())
from fractions import Fraction

import desper


def body(log):
    log.append('step')
    yield 1             # wait for exactly one second
    log.append('step')


def wake_frame(processor):
    """Index (1-based) of the 1/10 s frame in which the body resumes."""
    log = []
    processor.start(body(log))
    processor.process(Fraction(1, 10))      # first step, yields 1
    assert log == ['step']
    for frame in range(1, 20):
        processor.process(Fraction(1, 10))
        if len(log) == 2:
            return frame
    return None


used = desper.CoroutineProcessor()
# let a coroutine wait and wake once: the timer is reset to the int 0
used.start(iter_ := (x for x in [1]))
used.process(1)
used.process(1)
used.process(1)
frame_used = wake_frame(used)

fresh = desper.CoroutineProcessor()
frame_fresh = wake_frame(fresh)

# ten frames of exactly 1/10 accumulate exactly 1
assert frame_used == 10, frame_used
assert frame_fresh == 10, (
    f'fresh processor resumed the coroutine in frame {frame_fresh} instead '
    'of frame 10: ten exact steps of Fraction(1, 10) accumulate to exactly '
    '1, but the initial float timer (0.) degrades the sum to '
    '0.9999999999999999 (a processor whose timer was reset once is exact)')

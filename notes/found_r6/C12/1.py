"""A resource called ``_handle_names`` cannot be reached through a static map.

The name is an ordinary (non dunder, non mangled) identifier, legal as a
ResourceMap key and as a file name for the directory populator.
"""
import sys
import os

sys.path.insert(0, os.getcwd())

import desper      # NOQA


class Counting(desper.Handle):
    def __init__(self, value):
        self.value = value
        self.loads = 0

    def load(self):
        self.loads += 1
        return self.value


def reach(description, function, handle, expected):
    try:
        value = function()
    except Exception as ex:
        raise AssertionError(
            f'{description}: raised {type(ex).__name__}: {ex} instead of '
            'returning the loaded resource') from ex
    assert value is expected, f'{description}: got {value!r}'
    assert handle.loads == 1, f'{description}: {handle.loads} loads'


# 1. as a handle: every other path works, the static paths raise
resource = object()
handle = Counting(resource)
other = Counting(None)
root = desper.ResourceMap()
root['_handle_names'] = handle
root['other'] = other

reach('handle()', handle, handle, resource)
reach("root['_handle_names']", lambda: root['_handle_names'], handle,
      resource)
static = root.get_static_map()      # Builds fine
reach("static['other']", lambda: static['other'], other, None)
reach("static['_handle_names']", lambda: static['_handle_names'], handle,
      resource)
reach('static._handle_names', lambda: static._handle_names, handle,
      resource)

# 2. as a submap: every resource of the static map becomes unreachable
root = desper.ResourceMap()
root['_handle_names/x'] = Counting(1)
sibling = Counting(None)
root['sibling'] = sibling
static = root.get_static_map()
reach('static.sibling', lambda: static.sibling, sibling, None)

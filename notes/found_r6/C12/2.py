"""An access made while the handle is loading loads it a second time.

The value handed out by the inner access is then silently replaced, so
two accesses with no clear() in between return different objects.
"""
import sys
import os

sys.path.insert(0, os.getcwd())

import desper      # NOQA

root = desper.ResourceMap()
seen = []


class Level(desper.Handle):
    """A level that wants a back-reference to itself in its catalogue."""
    loads = 0

    def load(self):
        self.loads += 1
        level = {'run': self.loads}
        if self.loads == 1:
            # e.g. building an index of all the resources of the tree;
            # terminates because it is only done the first time
            seen.append(root['levels/first'])
        return level


handle = Level()
root['levels/first'] = handle

first = root['levels/first']
second = handle()
static = root.get_static_map().levels.first

assert handle.cached
assert first is second is static, 'sanity, accesses after the load agree'
assert handle.loads <= 1, (
    f'load ran {handle.loads} times with no clear() in between')
assert seen[0] is first, (
    'two accesses between the same clears returned different objects: '
    f'{seen[0]} and {first}')

"""World.clear() aborts with KeyError when the on_remove of one entity removes
ANOTHER entity: the remaining entities stay attached, never get on_remove,
processors and handlers are not cleared."""
import sys
sys.path.insert(0, '.')
import desper  # noqa: E402

log = []


@desper.event_handler('on_remove')
class Unit:
    def on_remove(self, entity, world):
        log.append(('on_remove', entity))
        if entity == 1:
            # the leader takes its follower (another entity) with it
            world.delete_entity(2, immediate=True)


world = desper.World()
units = [Unit(), Unit(), Unit()]
for unit in units:
    world.create_entity(unit)       # entities 1, 2, 3

error = None
try:
    world.clear()
except KeyError as ex:
    error = ex

assert error is None and world.entities == () \
    and sorted(log) == [('on_remove', 1), ('on_remove', 2),
                        ('on_remove', 3)], (
        f'clear() raised {error!r}; on_remove delivered: {log}; still '
        f'attached: {world.get(Unit)}; still listening: '
        f'{[world.is_handler(u) for u in units]}')

"""World.clear(): a component attached (to a NEW, different entity) by an
on_remove callback that runs during the clearing survives the clear, stays
attached, never receives on_remove, and silently stops being a listener of the
world's events."""
import sys
sys.path.insert(0, '.')
import desper  # noqa: E402

log = []


@desper.event_handler('on_add', 'on_remove', 'ping')
class Debris:
    def on_add(self, entity, world):
        log.append(('Debris.on_add', entity))

    def on_remove(self, entity, world):
        log.append(('Debris.on_remove', entity))

    def ping(self):
        log.append('Debris.ping')


@desper.event_handler('on_remove')
class Ship:
    def on_remove(self, entity, world):
        # spawn some debris where the ship was: a brand new entity
        world.create_entity(Debris(), entity_id='debris')


world = desper.World()
world.create_entity(Ship())
world.clear()

attached = world.get(Debris)
got_remove = ('Debris.on_remove', 'debris') in log
if attached:
    debris = attached[0][1]
    listening = world.is_handler(debris)
    world.dispatch('ping')
    heard = 'Debris.ping' in log
else:
    listening = heard = False

# Either clear() removes it too (then on_remove must have been delivered), or
# it stays attached (then it must still be a listener).
ok = (not attached and got_remove) or (attached and listening and heard)
assert ok, (
    f'after World.clear(): attached={bool(attached)} '
    f'on_remove delivered={got_remove} is_handler={listening} '
    f'receives events={heard}; log={log}')

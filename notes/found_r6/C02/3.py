"""Deferred deletion: when the on_remove of one dying entity removes ANOTHER
entity that is also waiting for its deferred deletion, World.process() raises
KeyError, processors are skipped for that frame and the on_remove of the
remaining dying entities is not delivered by that process() call."""
import sys
sys.path.insert(0, '.')
import desper  # noqa: E402

log = []


@desper.event_handler('on_remove')
class Plain:
    def on_remove(self, entity, world):
        log.append(('Plain.on_remove', entity))


@desper.event_handler('on_remove')
class Squad:
    """Leader: when it goes, its follower (another entity) goes with it."""

    def on_remove(self, entity, world):
        log.append(('Squad.on_remove', entity))
        world.remove_component(2, Plain)        # entity 2, not its own


class Ticker(desper.Processor):
    ticks = 0

    def process(self, dt=1):
        self.ticks += 1


world = desper.World()
ticker = Ticker()
world.add_processor(ticker)
world.create_entity(Squad())    # 1
world.create_entity(Plain())    # 2
world.create_entity(Plain())    # 3
for entity in (1, 2, 3):
    world.delete_entity(entity)  # all deferred

error = None
try:
    world.process()
except KeyError as ex:
    error = ex

expected = {('Squad.on_remove', 1), ('Plain.on_remove', 2),
            ('Plain.on_remove', 3)}
assert error is None and set(log) == expected and len(log) == 3 \
    and ticker.ticks == 1, (
        f'process() raised {error!r}; callbacks delivered: {log}; '
        f'processors ran {ticker.ticks} time(s); entity 3 still holds '
        f'{world.get_components(3)}')

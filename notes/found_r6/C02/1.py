"""Operations performed while the postponed queue is being released overtake
the callbacks that are still waiting in it: a component receives on_remove
BEFORE its (postponed) on_add, and its last callback is an on_add although it
is not attached any more."""
import sys
sys.path.insert(0, '.')
import desper  # noqa: E402

log = []


@desper.event_handler('on_add', 'on_remove')
class B:
    def on_add(self, entity, world):
        log.append(('B.on_add', entity))

    def on_remove(self, entity, world):
        log.append(('B.on_remove', entity))


@desper.event_handler('kill')
class Killer:
    """Ordinary (non lifecycle) listener: removes entity 2 when told so."""

    def kill(self, world):
        world.delete_entity(2, immediate=True)


# --- variant 1: an ordinary queued event whose handler touches ANOTHER entity
world = desper.World()
killer = Killer()
world.add_handler(killer)

world.dispatch_enabled = False
world.dispatch('kill', world)            # operation 1 (postponed)
b = B()
world.add_component(2, b)                # operation 2 (on_add postponed)
world.dispatch_enabled = True            # release: kill -> delete entity 2

variant1 = list(log)

# --- variant 2: a lifecycle callback of entity 1 touching entity 2
log.clear()


@desper.event_handler('on_add')
class A:
    def on_add(self, entity, world):
        world.remove_component(2, B)     # another entity, not its own


world = desper.World()
world.dispatch_enabled = False
world.add_component(1, A())
b2 = B()
world.add_component(2, b2)
world.dispatch_enabled = True
variant2 = list(log)

expected = [('B.on_add', 2), ('B.on_remove', 2)]
assert variant1 == expected and variant2 == expected, (
    'postponed callbacks not delivered in operation order: a component got '
    f'on_remove before its on_add (and ends on on_add while detached): '
    f'variant1={variant1} variant2={variant2} attached={world.get(B)}')

"""A World that listens to another World (registered with add_handler, e.g. a
World subclass interested in events broadcast by a "hub" world) makes every
postponed lifecycle callback of the hub fire TWICE."""
import sys
sys.path.insert(0, '.')
import desper  # noqa: E402

log = []


@desper.event_handler('on_add', 'on_remove')
class Comp:
    def on_add(self, entity, world):
        log.append(('on_add', entity, world is hub))

    def on_remove(self, entity, world):
        log.append(('on_remove', entity, world is hub))


@desper.event_handler('on_pause')
class Level(desper.World):
    """A world that wants to hear ``on_pause`` broadcast by the hub."""
    paused = False

    def on_pause(self):
        self.paused = True


hub = desper.World()
level = Level()
hub.add_handler(level)                  # legal: Level is an EventHandler

hub.dispatch_enabled = False
hub.create_entity(Comp())               # entity 1 of the hub
hub.delete_entity(1, immediate=True)
hub.dispatch_enabled = True

expected = [('on_add', 1, True), ('on_remove', 1, True)]
assert log == expected, (
    f'postponed callbacks delivered more than once: {log}, '
    f'expected {expected}')

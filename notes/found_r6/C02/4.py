"""A component that has been detached (on_remove delivered, no longer
is_handler) by an earlier listener of the very same event still receives that
event from the world: it is notified while it is NOT attached."""
import sys
sys.path.insert(0, '.')
import desper  # noqa: E402

log = []


@desper.event_handler('on_add', 'on_remove', 'ping')
class Unit:
    attached = False

    def __init__(self, name):
        self.name = name

    def on_add(self, entity, world):
        self.attached = True

    def on_remove(self, entity, world):
        self.attached = False

    def ping(self, world):
        log.append((self.name,
                    'attached' if self.attached else 'DETACHED',
                    'listener' if world.is_handler(self) else 'NOT-LISTENER'))
        # Last one standing: detach every other unit (other entities)
        for entity, unit in world.get(Unit):
            if unit is not self:
                world.remove_component(entity, Unit)


world = desper.World()
units = [Unit(i) for i in range(4)]
for unit in units:
    world.create_entity(unit)

world.dispatch('ping', world)

# Whatever the (unspecified) delivery order, the first unit detaches all the
# others, therefore exactly one unit may hear the event.
late = [entry for entry in log if entry[1] == 'DETACHED']
assert not late, (
    'components received a world event after their on_remove, while not '
    f'attached and not registered: {late} (full log {log})')

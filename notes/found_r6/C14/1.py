"""Quit while the next world loads, with clear_current=True: the loop
keeps the old world, but its (current) handle has been emptied."""
import os
import sys
sys.path.insert(0, os.getcwd())
import desper  # noqa: E402


class QuittingHandle(desper.Handle):
    def load(self):
        raise desper.Quit()     # eg. the user closes the loading screen


class Leaver(desper.Processor):
    def process(self, dt):
        raise desper.SwitchWorld(QuittingHandle(), clear_current=True)


class WorldHandle(desper.Handle):
    def load(self):
        world = desper.World()
        world.add_processor(Leaver())
        return world


handle = WorldHandle()
loop = desper.SimpleLoop(lambda: 0)
loop.switch(handle)
world = loop.current_world
assert handle.cached and handle() is world

loop.start()        # the frame quits (Quit raised while handling the switch)

assert loop.running is False
assert loop.current_world is world
assert loop.current_world_handle is handle
# "current world and handle unchanged": the handle object is the same but
# it no longer holds the current world - it was cleared before the next
# world turned out to be unavailable.
assert handle.cached, 'Quit during the switch left the current handle cleared'
assert loop.current_world_handle() is loop.current_world, \
    'current handle no longer yields the current world after Quit'

"""start() of a loop that is already running (modal sub-loop, eg. a pause
screen): the inner start does not begin with dt 0, and when it ends the
outer run loses the elapsed time and reports running False."""
import os
import sys
sys.path.insert(0, os.getcwd())
import desper  # noqa: E402

readings = iter(range(0, 1000, 5))      # 0, 5, 10, ...
loop = desper.SimpleLoop(lambda: next(readings))
seen = []           # (depth, dt)
state = {'frame': 0, 'depth': 0, 'running_after_inner': None}


class Script(desper.Processor):
    def process(self, dt):
        state['frame'] += 1
        frame = state['frame']
        seen.append((state['depth'], dt))
        if frame == 2:                  # outer frame 2: run a modal sub-loop
            state['depth'] = 1
            loop.start()
            state['depth'] = 0
            state['running_after_inner'] = loop.running
        elif frame == 4:                # inner frame 2: close the sub-loop
            raise desper.Quit()
        elif frame == 6:                # outer frame 4: really quit
            raise desper.Quit()


class WorldHandle(desper.Handle):
    def load(self):
        world = desper.World()
        world.add_processor(Script())
        return world


loop.switch(WorldHandle())
loop.start()

# readings: outer 0, 5 | inner 10, 15 | outer 20, 25
assert seen[:2] == [(0, 0), (0, 5)], seen
assert seen[2] == (1, 0), \
    'first iteration after (nested) start got dt %r, not 0' % (seen[2][1],)
assert state['running_after_inner'] is True, \
    'loop.running is False while the outer start() is still looping'
assert seen[4] == (0, 5), \
    'outer frame after the sub-loop got dt %r instead of 20 - 15' % (
        seen[4][1],)

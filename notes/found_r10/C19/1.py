"""init_methods entry is not honoured when the (unneeded) lookup of the
prefix-named attribute fails with something else than AttributeError."""
import os
import sys

sys.path.insert(0, os.getcwd())

import desper                                               # noqa: E402


class A:
    pass


BUILT = object()


class Lazy(desper.Prototype):
    """Parameters are served by __getattr__ from a dict (a common idiom)."""
    component_types = (A,)
    init_methods = {A: lambda component_type: BUILT}

    def __init__(self, **params):
        self.params = params

    def __getattr__(self, name):
        return self.params[name]        # KeyError for unknown names


try:
    result = list(Lazy(x=1))
except KeyError as error:
    raise AssertionError(
        'A has an entry in init_methods, which takes precedence over any '
        f'init_A attribute, yet iteration looked init_A up and died: '
        f'{error!r}') from None

assert result == [BUILT], result
print('ok')

"""An event argument whose finalizer disables dispatching, dying during the
release, sends the NEXT pending event to the back of the queue."""
import os
import sys
sys.path.insert(0, os.getcwd())

import desper  # noqa: E402

dispatcher = desper.EventDispatcher()
log = []


@desper.event_handler('ev')
class Listener:
    def ev(self, payload):
        log.append(getattr(payload, 'tag', payload))


class Token:
    """Payload that pauses the dispatcher as soon as it is consumed."""
    tag = 'token'

    def __del__(self):
        dispatcher.dispatch_enabled = False


listener = Listener()
dispatcher.add_handler(listener)

dispatcher.dispatch_enabled = False
dispatcher.dispatch('ev', Token())      # only the queue refers to the token
dispatcher.dispatch('ev', 1)
dispatcher.dispatch('ev', 2)
dispatcher.dispatch('ev', 3)

dispatcher.dispatch_enabled = True      # delivers the token, which then dies
assert log == ['token'], log
assert not dispatcher.dispatch_enabled  # the finalizer paused the dispatcher

dispatcher.dispatch_enabled = True      # release what is still pending
assert sorted(log, key=str) == sorted(['token', 1, 2, 3], key=str), log
assert log == ['token', 1, 2, 3], (
    'events still pending after a disable during the release were delivered '
    f'out of dispatch order: {log}')

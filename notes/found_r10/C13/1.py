"""A self-switch with clear whose reload quits leaves the handle emptied while
the old world stays current; the next self-switch with clear_current then runs
a world instance that never receives on_switch_in."""
import os
import sys
sys.path.insert(0, os.getcwd())
import desper

log = []
fail_next_load = [False]


@desper.event_handler('on_switch_in', 'on_switch_out')
class Listener:
    def on_switch_in(self, from_, to):
        log.append(('in', from_, to))

    def on_switch_out(self, from_, to):
        log.append(('out', from_, to))


class Script(desper.Processor):
    script = []

    def process(self, dt):
        if not Script.script:
            raise desper.Quit()
        Script.script.pop(0)()


class Handle(desper.WorldHandle):
    def __init__(self):
        super().__init__()
        self.transform_functions.append(self.build)

    def build(self, handle, world):
        if fail_next_load[0]:           # e.g. the user closed the window
            fail_next_load[0] = False
            raise desper.Quit()
        world.add_processor(Script())
        world.create_entity(Listener())


loop = desper.default_loop = desper.SimpleLoop()
handle = Handle()


def restart_level_but_quit():
    fail_next_load[0] = True
    desper.switch(handle, clear_current=True)       # the reload quits


def restart_level():
    desper.switch(handle, clear_current=True)


Script.script = [restart_level_but_quit, restart_level, lambda: None]
loop.switch(handle)
first = loop.current_world
loop.start()                    # ends with the Quit raised by the reload
assert loop.current_world is first      # nothing changed, as documented
loop.start()                    # the program goes on: restart_level runs

running = loop.current_world
assert running is not first, 'clear_current did not give a fresh instance'
outs = [e for e in log if e[0] == 'out']
ins = [e for e in log if e[0] == 'in']
assert len(outs) == 1 and outs[0][1] is first, outs
assert outs[0][2] is running, (
    'on_switch_out announced a world instance that never runs')
assert [e for e in ins if e[2] is running], (
    'the world instance that runs after switch(handle, clear_current=True) '
    'never received on_switch_in (it went to a discarded instance)')
print('ok')
